"""C04 -- A mixture's descriptors are the sum of its components'.

Relational; decided as a lemma over contracts plus a data condition:
  * centre patterns/correction fragments are connected (every atom after the first is bonded to an earlier one: reader unit of C08),
    so every embedding lies in one component (graph fact, assumed);
  * molecule-level prefixes are evaluated on the whole input, so additivity is conditional on the data obligation that
    no shipped pattern carries one (checked exhaustively over the nine scheme files);
  * counts accumulate per distinct match set (C02), centre failure is per atom (C02);
  * the C01 sum is additive in the count vector (lemma here).
The end-to-end comparison on pairs of molecules is the bounded stand-in."""
from pyvc import source
import os

import z3

from pyvc.verify import Unit
from . import C02, C08, standins

PROPERTY = 'C04'
LEVEL = 'other'
EXPLANATION = ('lemma over the C01/C02/C08 contracts + exhaustive data obligation on the shipped scheme files; pairs of molecules are compared '
               'end-to-end by the bounded stand-in')
TRUSTED = C02.TRUSTED + ["RDKit: 'A.B' parses to the disjoint union of A and B and normalisation acts per component; an embedding of a connected "
                         "pattern lies inside one connected component"]


def world():
    return C02.W()


def u_additive_lemma(I):
    """SUM_i (c1_i + c2_i) x_i = SUM_i c1_i x_i + SUM_i c2_i x_i : term-wise (fold congruence of C01)"""
    ctx = I.ctx
    c1, c2, x = I.fresh('c1_k', 'real'), I.fresh('c2_k', 'real'), I.fresh('x_k', 'real')
    S1, S2, S12 = (ctx.fresh_fn(n, z3.IntSort(), z3.RealSort()) for n in ('S1', 'S2', 'S12'))
    i = I.fresh('i', 'int')
    ctx.assume(z3.And(S1(0) == 0, S2(0) == 0, S12(0) == 0))
    ctx.oblige('base', S12(0) == S1(0) + S2(0))
    ctx.assume(i >= 0)
    ctx.assume(z3.And(S1(i + 1) == S1(i) + c1 * x, S2(i + 1) == S2(i) + c2 * x, S12(i + 1) == S12(i) + (c1 + c2) * x))
    ctx.assume(S12(i) == S1(i) + S2(i))
    ctx.oblige('step: the estimate of the key-wise sum of two mappings is the sum of the estimates', S12(i + 1) == S1(i + 1) + S2(i + 1))
    return {'inputs': {}}


def data_no_molecule_prefix(tier, seed):
    """(D) no centre pattern / correction fragment of a shipped scheme carries a molecule-level prefix"""
    import yaml
    from pgradd.RINGParser import Parser
    from . import real
    n, viol = 0, []
    for lib in real.LIBS:
        d = yaml.safe_load(open(os.path.join(source.DATA_DIR, lib, 'scheme.yaml')))
        for sect in ('patterns', 'other_descriptors'):
            for e in d.get(sect) or []:
                n += 1
                tree = Parser.parse(e['connectivity'])
                frag = tree[1]
                prefix = frag[1]
                if len(prefix) != 1:
                    viol.append({'id': '%s-%s-%d' % (lib, sect, n), 'input': e['connectivity'], 'observed': [str(x) for x in prefix[1:]], 'expected': 'no molecule-level prefix'})
    return {'name': 'no-molecule-level-prefix-in-shipped-patterns', 'obligations': n, 'violations': viol, 'exhaustive': True,
            'bound': 'every centre pattern and correction fragment of the nine scheme files'}


DATA = [data_no_molecule_prefix]
UNITS = [Unit('lemma:estimate-additive-in-counts', None, u_additive_lemma, kind='lemma')]
for u in C08.READER_UNITS:
    if 'ReadBondedAtom' in u.name:
        UNITS.append(u)
for u in C02.UNITS:
    if 'AssignDescriptor' in u.name or 'AssignCenter' in u.name or 'aromatization' in u.name:
        u.world_factory = C02.world
        UNITS.append(u)
STANDINS = [standins.c04_mixtures]
