"""Contracts on ThermochemIncomplete (pgradd/ThermoChem/incomplete.py): evaluation methods delegate to the table
correlation (callee contract = the postconditions proved in C05 for ThermochemRawData)."""
import z3

from pyvc import source
from pyvc.engine import Obj, Builtin, is_z3, z3_of
from pyvc.verify import Unit, run_target
from .common import ThermoWorld
from .spec import check_outcome
from .thermo import RAW, INC, BASE, RawSym


def rawdata_contracts(world, sym_of):
    """Install the proved contracts of ThermochemRawData.get_* as callee contracts.
    sym_of(obj) -> RawSym describing the receiver."""
    def mk(method, post):
        def h(I, args, kw):
            self_obj, T = args[0], z3_of(args[1])
            s = sym_of(self_obj)
            if I.ctx.branch(z3.Not(s.in_range(T))):
                raise I.exc('OutsideCorrelationError', 'outside')
            r = I.ctx.fresh('r_' + method, 'real')
            I.ctx.assume(post(s, T, r))
            I.ctx.effect('callee', 'ThermochemRawData.' + method)
            return r
        world.contracts[(RAW, 'ThermochemRawData.' + method)] = h
    mk('get_CpoR', lambda s, T, r: r == s.CpExt(T))
    mk('get_HoRT', lambda s, T, r: r * T == s.H_ref * s.T_ref + s.IntCp(s.T_ref, T))
    mk('get_SoR', lambda s, T, r: r == s.S_ref + s.IntCpT(s.T_ref, T))


class IncSym:
    """Symbolic ThermochemIncomplete pre-state. shape: (has_H, has_S, has_Cp, has_range)."""
    def __init__(self, I, has_H, has_S, has_Cp, has_range, tag='', coupled_range=True):
        ctx = I.ctx
        R = lambda n: ctx.fresh(tag + n, 'real')
        self.has_H, self.has_S, self.has_Cp, self.has_range = has_H, has_S, has_Cp, has_range
        self.H = R('ND_H_ref') if has_H else None
        self.S = R('ND_S_ref') if has_S else None
        self.T_ref = R('T_ref0')
        self.lo, self.hi = (R('lo0'), R('hi0')) if has_range else (None, None)
        cls = source.module(INC).classes['ThermochemIncomplete']
        fields = dict(ND_H_ref=self.H, ND_S_ref=self.S, T_ref=self.T_ref,
                      range=(self.lo, self.hi) if has_range else None)
        self.raw = None
        if has_Cp:
            self.raw = RawSym(I, tag + 'c_')
            fields['ND_Cp_data'] = {R('T_pt'): R('Cp_pt')}
            fields['_correlation'] = self.raw.obj
            # coupling invariant established by _setup_correlation (delegate built from this object's data)
            ctx.assume(self.raw.T_ref == self.T_ref)
            ctx.assume(self.raw.H_ref == (self.H if has_H else 0))
            ctx.assume(self.raw.S_ref == (self.S if has_S else 0))
            self.coupled_range = coupled_range
            if has_range and coupled_range:
                ctx.assume(z3.And(self.raw.lo == self.lo, self.raw.hi == self.hi))
            elif has_range:
                pass        # the declared range was changed after the delegate was built (set_range): the two ranges are unrelated
            else:
                ctx.assume(z3.And(self.raw.lo == self.raw.min_T, self.raw.hi == self.raw.max_T))
        else:
            fields['ND_Cp_data'] = {}
        if has_range:
            # wf: lower bound positive (absolute temperatures); with a table the constructor of the delegate has checked that the range
            # contains T_ref -- WITHOUT a table nothing has, so nothing is assumed
            ctx.assume(z3.And(self.lo > 0, self.lo <= self.hi))
            if has_Cp and coupled_range:
                ctx.assume(z3.And(self.lo <= self.T_ref, self.T_ref <= self.hi))
        self.obj = Obj(cls, fields, origin='param')

    def in_range(self, T):
        if self.has_Cp:
            if self.has_range and not getattr(self, 'coupled_range', True):
                return z3.And(self.raw.in_range(T), self.lo <= T, T <= self.hi)
            return self.raw.in_range(T)
        if self.has_range:
            return z3.And(self.lo <= T, T <= self.hi)
        return z3.BoolVal(True)


SHAPES = [(h, s, c, r) for h in (0, 1) for s in (0, 1) for c in (0, 1) for r in (0, 1)]


def world_inc():
    w = ThermoWorld()
    return w


def inc_unit(method, X):
    """X in Cp|H|S"""
    def run(I):
        ctx = I.ctx
        shape = SHAPES[ctx.choose([True] * len(SHAPES), 'shape')]
        coupled = True
        if shape[2] and shape[3]:
            coupled = ctx.choose([True, True], 'declared range still the one the table delegate was built with / changed since (set_range)') == 0
        s = IncSym(I, *shape, coupled_range=coupled)
        rawdata_contracts(I.world, lambda o: s.raw)
        T = I.fresh('T', 'real')
        kw = {}
        out = run_target(I, INC, 'ThermochemIncomplete.' + method, [T], kw, self_obj=s.obj)
        has = {'Cp': s.has_Cp, 'H': s.has_H, 'S': s.has_S}[X]
        warned = [e for e in ctx.effects if e[0] == 'warn']
        writes = [e for e in ctx.effects if e[0].startswith('write')]
        ctx.oblige('pure: no write to the correlation', z3.BoolVal(not writes))
        if X == 'Cp':
            missing = z3.BoolVal(not s.has_Cp)
            spec_raise = z3.Or(missing, z3.Not(s.in_range(T)))
        else:
            missing = z3.BoolVal(not has)
            spec_raise = z3.Or(missing, z3.And(z3.BoolVal(bool(s.has_Cp)), z3.Not(s.in_range(T))))

        def posts(r):
            ps = []
            if s.has_Cp:
                raw = s.raw
                if X == 'Cp':
                    ps.append(('delegates: Cp/R == CpExt(T) of the table correlation', r == raw.CpExt(T)))
                elif X == 'H':
                    ps.append(('delegates: T*H/RT == H_ref*T_ref + integral CpExt', r * T == s.H * s.T_ref + raw.IntCp(s.T_ref, T)))
                else:
                    ps.append(('delegates: S/R == S_ref + integral CpExt/t', r == s.S + raw.IntCpT(s.T_ref, T)))
                ps.append(('no warning when heat-capacity data exist', z3.BoolVal(not warned)))
            else:
                ref = s.H if X == 'H' else s.S
                ps.append(('without Cp data the reference value is returned', z3_of(r) == ref))
                needs = z3.Or(T != s.T_ref, z3.Not(s.in_range(T)))
                ps.append(('warning issued iff T != T_ref or T lies outside the declared range (IncompleteDataWarning)',
                           needs if warned and warned[0][1] == 'IncompleteDataWarning' and len(warned) == 1
                           else z3.Not(needs) if not warned else z3.BoolVal(False)))
                ps.append(('outside the declared range the value is never returned silently (C06)',
                           z3.Implies(z3.Not(s.in_range(T)), z3.BoolVal(bool(warned)))))
            return ps
        check_outcome(I, out, raises={'*': spec_raise}, returns=posts, site='ThermochemIncomplete.' + method)
        return {'inputs': {}}
    return run


INC_UNITS = [
    Unit('ThermochemIncomplete.get_CpoR', (INC, 'ThermochemIncomplete.get_CpoR'), inc_unit('get_CpoR', 'Cp')),
    Unit('ThermochemIncomplete.get_HoRT', (INC, 'ThermochemIncomplete.get_HoRT'), inc_unit('get_HoRT', 'H')),
    Unit('ThermochemIncomplete.get_SoR', (INC, 'ThermochemIncomplete.get_SoR'), inc_unit('get_SoR', 'S')),
]
for u in INC_UNITS:
    u.world_factory = world_inc
