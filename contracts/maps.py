"""Abstract finite maps Real -> Real of symbolic size (the ND_Cp_data dictionaries).  A map object points to an
immutable *version*; item assignment moves it to a new version described by a schema."""
import z3

from pyvc.engine import Obj, Builtin, SymSeq, NotImplementedVal, Unsupported, is_z3, z3_of
from pyvc.source import BuiltinClass

IS, RS, BS = z3.IntSort(), z3.RealSort(), z3.BoolSort()
Dom = z3.Function('Dom', IS, RS, BS)
MVal = z3.Function('MVal', IS, RS, RS)
Size = z3.Function('Size', IS, IS)
KeyAt = z3.Function('KeyAt', IS, IS, RS)
PosOf = z3.Function('PosOf', IS, RS, IS)
MapCls = BuiltinClass('CpMap')


def new_map(I, tag, origin='param'):
    ver = I.ctx.fresh(tag + '_ver', 'int')
    declare(I, ver)
    return Obj(MapCls, {'ver': ver}, origin), ver


def declare(I, ver):
    ctx = I.ctx
    i = z3.Int('i!m%s' % ver)
    k = z3.Real('k!m%s' % ver)
    ctx.assume(Size(ver) >= 0)
    ctx.assume_forall([i], z3.Implies(z3.And(0 <= i, i < Size(ver)),
                                      z3.And(Dom(ver, KeyAt(ver, i)), PosOf(ver, KeyAt(ver, i)) == i)), 'keys of a map')
    ctx.assume_forall([k], z3.Implies(Dom(ver, k), z3.And(0 <= PosOf(ver, k), PosOf(ver, k) < Size(ver),
                                                          KeyAt(ver, PosOf(ver, k)) == k)), 'position of a key')


def real(x):
    x = z3_of(x)
    return z3.ToReal(x) if z3.is_int(x) else x


def m_truth(I, m):
    return Size(m.fields['ver']) > 0


def m_contains(I, m, k):
    return Dom(m.fields['ver'], real(k))


def m_index(I, m, k):
    ver = m.fields['ver']
    k = real(k)
    if I.ctx.branch(Dom(ver, k)):
        return MVal(ver, k)
    raise I.exc('KeyError', k)


def m_setitem(I, m, k, v):
    ctx = I.ctx
    if m.origin != 'fresh':
        ctx.effect('write', m.oid, 'dict', 'item')
    old = m.fields['ver']
    new = ctx.fresh('map_ver', 'int')
    k, v = real(k), real(v)
    q = z3.Real('k!s%s' % new)
    ctx.assume_forall([q], z3.And(Dom(new, q) == z3.Or(q == k, Dom(old, q)),
                                  MVal(new, q) == z3.If(q == k, v, MVal(old, q))), 'item assignment')
    ctx.ghost.setdefault('map_points', []).append(k)
    m.fields['ver'] = new
    return None


def m_symseq(I, m):
    ver = m.fields['ver']
    return SymSeq(Size(ver), lambda i: KeyAt(ver, i), 'keys(map)', origin='param')


def m_attr(I, m, name):
    if name == 'copy':
        return Builtin('dict.copy', lambda I, a, k: Obj(MapCls, {'ver': m.fields['ver']}, 'fresh'))
    return NotImplementedVal


MapEq = z3.Function('MapEq', IS, IS, BS)


def m_compare(I, op, a, b):
    """dict == dict / != : equal versions are equal; otherwise a symbolic answer that, when true, makes the two maps agree at every key"""
    import ast
    if not (isinstance(a, Obj) and isinstance(b, Obj) and a.cls is MapCls and b.cls is MapCls):
        if isinstance(a, dict) or isinstance(b, dict):
            other = b if isinstance(a, dict) else a
            conc = a if isinstance(a, dict) else b
            if not conc:                      # compared with the empty python dict
                r = Size(other.fields['ver']) == 0
                return r if op is ast.Eq else z3.Not(r)
        return NotImplementedVal
    va, vb = a.fields['ver'], b.fields['ver']
    if z3.is_expr(va) and z3.is_expr(vb) and va.eq(vb):
        r = True
    else:
        r = MapEq(va, vb)
        k = z3.Real('k!eq')
        I.ctx.assume_forall([k], z3.Implies(r, z3.And(Dom(va, k) == Dom(vb, k), z3.Implies(Dom(va, k), MVal(va, k) == MVal(vb, k)))), 'equal maps agree at every key')
        I.ctx.assume(z3.Implies(r, Size(va) == Size(vb)))
    if op is ast.Eq:
        return r
    if op is ast.NotEq:
        return (not r) if isinstance(r, bool) else z3.Not(r)
    return NotImplementedVal


def install(world):
    world.abstract['CpMap'] = {'contains': m_contains, 'index': m_index, 'setitem': m_setitem, 'symseq': m_symseq, 'attr': m_attr, 'compare': m_compare}
    world.extern_truth['CpMap'] = m_truth
