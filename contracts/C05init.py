"""C05 (part 2) -- ThermochemIncomplete.__init__ / _setup_correlation: the COUPLING INVARIANT between a correlation with possibly
missing parts and the table correlation it delegates to.  Every other unit about ThermochemIncomplete (C05, C06, C13, C18) assumes
it; here it is an obligation on the real constructor:

   the object stores H, S, T_ref, the range as given and a COPY of the table (never the caller's dictionary, never the shared default);
   with a non-empty table the delegate is ThermochemRawData(H or 0.0, S or 0.0, <expanded table of the copy>, T_ref, the stored range);
   with an empty table there is no delegate.

_expand_ND_Cp_data (sorted(...) of the items, unzipped) is a callee contract here: (temperatures ascending, values aligned) of the table it is
given -- assumed, exercised by the tables-vs-quadrature stand-in."""
import z3

from pyvc import source
from pyvc.engine import Obj, Builtin, Unsupported, NotImplementedVal, is_z3, z3_of
from pyvc.source import BuiltinClass
from pyvc.verify import Unit, run_target
from . import maps
from .common import ThermoWorld
from .spec import check_outcome
from .thermo import INC

RAW = 'pgradd/ThermoChem/raw_data.py'


def world():
    w = ThermoWorld()
    maps.install(w)
    return w


def u_init(I):
    ctx = I.ctx
    W_ = I.world
    cls = source.module(INC).classes['ThermochemIncomplete']
    has_H, has_S, has_rng, empty = [ctx.choose([True, True], nm) == 0 for nm in ('H given', 'S given', 'range given', 'table empty')]
    H = ctx.fresh('H', 'real') if has_H else None
    S = ctx.fresh('S', 'real') if has_S else None
    T_ref = ctx.fresh('T_ref', 'real')
    rng = (ctx.fresh('lo', 'real'), ctx.fresh('hi', 'real')) if has_rng else None
    table, ver = maps.new_map(I, 'cp')
    ctx.assume((maps.Size(ver) == 0) if empty else (maps.Size(ver) > 0))
    W_.contracts[(INC, 'ThermochemIncomplete._expand_ND_Cp_data')] = lambda I_, a, k: (('Ts-of', a[1]), ('Cps-of', a[1]))
    built = []

    def raw_ctor(I_, c, a, k):
        built.append((list(a), dict(k)))
        return Obj(BuiltinClass('RawDelegate'), {'n': len(built)}, 'fresh')
    W_.ctor_hooks['ThermochemRawData'] = raw_ctor
    W_.abstract['RawDelegate'] = {}
    o = Obj(cls, {}, 'fresh')
    out = run_target(I, INC, 'ThermochemIncomplete.__init__', [H, S, table, T_ref, rng], self_obj=o)

    def posts(_):
        f = o.fields
        own = f.get('ND_Cp_data')
        ps = [('reference values, reference temperature and range are stored as given',
               z3.BoolVal(f.get('ND_H_ref') is H and f.get('ND_S_ref') is S and f.get('T_ref') is T_ref and (f.get('range') is rng or f.get('range') == rng))),
              ('the table is stored as a copy with the same contents (not the caller\'s dictionary)',
               z3.BoolVal(isinstance(own, Obj) and own.cls is maps.MapCls and own is not table) if isinstance(own, Obj) else z3.BoolVal(False)),
              ('... same contents', own.fields['ver'] == ver if isinstance(own, Obj) and 'ver' in own.fields else z3.BoolVal(False))]
        if empty:
            ps.append(('without heat-capacity data there is no table delegate', z3.BoolVal('_correlation' not in f and not built)))
        else:
            ok = len(built) == 1 and '_correlation' in f
            ps.append(('with heat-capacity data exactly one table delegate is built and stored', z3.BoolVal(ok)))
            if ok:
                a, k = built[0]
                names = ['ND_H_ref', 'ND_S_ref', 'Ts', 'ND_Cps', 'T_ref', 'range']
                args = dict(zip(names, a))
                args.update(k)
                zero = lambda v: (not is_z3(v)) and v == 0
                ps.append(('the delegate gets the reference enthalpy (0 when missing) and entropy (0 when missing), not swapped',
                           z3.BoolVal((args.get('ND_H_ref') is H if has_H else zero(args.get('ND_H_ref'))) and (args.get('ND_S_ref') is S if has_S else zero(args.get('ND_S_ref'))))))
                ps.append(('the delegate gets the expanded table of this object\'s own copy, temperatures first',
                           z3.BoolVal(args.get('Ts') == ('Ts-of', own) and args.get('ND_Cps') == ('Cps-of', own))))
                ps.append(('the delegate gets this object\'s reference temperature and range',
                           z3.BoolVal(args.get('T_ref') is T_ref and (args.get('range') is rng or args.get('range') == rng))))
        return ps
    # an inverted range is refused by the base class (assert lb <= ub)
    check_outcome(I, out, raises={'AssertionError': (rng[1] < rng[0]) if has_rng else z3.BoolVal(False)}, returns=posts)
    return {'inputs': {}}


def u_default_table(I):
    """the mutable default argument ND_Cp_data={} is never stored or written (two objects built without a table do not share one)"""
    ctx = I.ctx
    W_ = I.world
    cls = source.module(INC).classes['ThermochemIncomplete']
    W_.contracts[(INC, 'ThermochemIncomplete._expand_ND_Cp_data')] = lambda I_, a, k: ((), ())
    o1, o2 = Obj(cls, {}, 'fresh'), Obj(cls, {}, 'fresh')
    n0 = len(ctx.effects)
    r1 = run_target(I, INC, 'ThermochemIncomplete.__init__', [], self_obj=o1)
    r2 = run_target(I, INC, 'ThermochemIncomplete.__init__', [ctx.fresh('H', 'real')], self_obj=o2)
    wr = [e for e in ctx.effects[n0:] if e[0].startswith('write')]
    check_outcome(I, r2, raises={}, returns=lambda _: [
        ('objects built without a table get their own empty table each', z3.BoolVal(r1.kind == 'return' and isinstance(o1.fields.get('ND_Cp_data'), dict) and isinstance(o2.fields.get('ND_Cp_data'), dict)
                                                                               and o1.fields['ND_Cp_data'] is not o2.fields['ND_Cp_data'] and o1.fields['ND_Cp_data'] == {})),
        ('nothing outside the new objects is written (the shared default stays empty)', z3.BoolVal(not wr))])
    return {'inputs': {}}


UNITS = [
    Unit('ThermochemIncomplete.__init__/_setup_correlation', (INC, 'ThermochemIncomplete.__init__'), u_init),
    Unit('ThermochemIncomplete.__init__[default table]', (INC, 'ThermochemIncomplete.__init__'), u_default_table),
]
for _u in UNITS:
    _u.world_factory = world
