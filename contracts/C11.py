"""C11 -- Incompatible quantities never combine; compatible ones act as numbers.

compatible(a, b)  <=>  same seven exponents, or b is the bare number 0 (the only dimensionless operand accepted)."""
import ast

import z3

from pyvc import source
from pyvc.engine import Obj, NDArr, PyExc, is_z3, z3_of
from pyvc.verify import Unit, run_target, Outcome, concretize
from . import units
from .units import UnitsWorld, QTY, mk_qty, mk_units, qty_parts, is_qty, same, Pow
from .spec import check_outcome
from .common import fval

PROPERTY = 'C11'


def world():
    return UnitsWorld()


OPERAND_SHAPES = ['plain', 'zero', 'qty']


def mk_other(I, shape):
    if shape == 'plain':
        r = I.fresh('other_plain', 'real')
        return r, r, [z3.RealVal(0)] * 7, 'plain'
    if shape == 'zero':
        return 0, z3.RealVal(0), [z3.RealVal(0)] * 7, 'plain'
    q, v, e = mk_qty(I, 'b')
    return q, v, e, 'qty'


def compat(e1, other_kind, v2, e2):
    if other_kind == 'plain':
        return v2 == 0            # a bare zero is the only dimensionless operand accepted
    return same(e1, e2)


def run_op(I, name, a, b):
    """Evaluate the python expression `a <op> b` with python's operator dispatch on the real classes."""
    table = {'lt': ast.Lt, 'le': ast.LtE, 'gt': ast.Gt, 'ge': ast.GtE, 'eq': ast.Eq, 'ne': ast.NotEq}
    arith = {'add': ast.Add, 'sub': ast.Sub, 'mul': ast.Mult, 'truediv': ast.Div, 'pow': ast.Pow}
    try:
        if name in table:
            r = I.compare(table[name], a, b)
            return Outcome('return', r)
        if name in arith:
            return Outcome('return', I.binop(arith[name], a, b))
        if name == 'neg':
            return Outcome('return', I.neg(a))
        if name == 'abs':
            return Outcome('return', I.world.builtins['abs'].fn(I, [a], {}))
    except PyExc as e:
        return Outcome('raise', e.obj)
    raise ValueError(name)


def as_bool(r):
    if isinstance(r, bool):
        return z3.BoolVal(r)
    return r


def cmp_unit(opname, pyop):
    def run(I):
        ctx = I.ctx
        a, v1, e1 = mk_qty(I, 'a')
        shape = OPERAND_SHAPES[ctx.choose([True] * 3, 'other')]
        b, v2, e2, kind = mk_other(I, shape)
        out = run_op(I, opname, a, b)
        ok = compat(e1, kind, v2, e2)
        if opname in ('eq', 'ne'):
            want = lambda: (z3.And(ok, v1 == v2) if opname == 'eq' else z3.Or(z3.Not(ok), v1 != v2))
            check_outcome(I, out, raises={}, returns=lambda r: [
                ('a %s b  <=>  %s' % (pyop, 'compatible and equal SI magnitudes' if opname == 'eq' else 'incompatible or different SI magnitudes'),
                 as_bool(r) == want())])
        else:
            num = {'lt': v1 < v2, 'le': v1 <= v2, 'gt': v1 > v2, 'ge': v1 >= v2}[opname]
            check_outcome(I, out, raises={'UnitsError': z3.Not(ok)},
                          returns=lambda r: [('a %s b agrees with the SI magnitudes' % pyop, as_bool(r) == num)])
        st = {'v1': v1, 'e1': e1, 'v2': v2, 'e2': e2, 'kind': kind, 'op': pyop}
        return {'inputs': st}
    return run


def arith_unit(opname, pyop, reflected=False):
    def run(I):
        ctx = I.ctx
        a, v1, e1 = mk_qty(I, 'a')
        shapes = ['plain', 'zero'] if reflected else OPERAND_SHAPES
        shape = shapes[ctx.choose([True] * len(shapes), 'other')]
        b, v2, e2, kind = mk_other(I, shape)
        out = run_op(I, opname, b, a) if reflected else run_op(I, opname, a, b)
        ok = compat(e1, kind, v2, e2)
        if opname == 'add':
            val = v1 + v2
        elif reflected:
            val = v2 - v1
        else:
            val = v1 - v2

        def posts(r):
            rv, re_ = qty_parts(r)
            return [('result has the dimension of the quantity operand', same(re_, e1)),
                    ('result magnitude is the %s of the SI magnitudes' % ('sum' if opname == 'add' else 'difference'), z3_of(rv) == val),
                    ('result is a quantity (dimension not cancelled)', z3.BoolVal(is_qty(r)))]
        check_outcome(I, out, raises={'UnitsError': z3.Not(ok)}, returns=posts)
        return {'inputs': {'v1': v1, 'e1': e1, 'v2': v2, 'e2': e2, 'kind': kind, 'op': pyop, 'reflected': reflected}}
    return run


def unary_unit(opname):
    def run(I):
        a, v1, e1 = mk_qty(I, 'a')
        out = run_op(I, opname, a, None)
        val = -v1 if opname == 'neg' else z3.If(v1 >= 0, v1, -v1)

        def posts(r):
            rv, re_ = qty_parts(r)
            return [('same dimension', same(re_, e1)), ('magnitude', z3_of(rv) == val), ('is a quantity', z3.BoolVal(is_qty(r)))]
        check_outcome(I, out, raises={}, returns=posts)
        return {'inputs': {'v1': v1, 'e1': e1, 'op': opname}}
    return run


def muldiv_unit(opname, reflected=False):
    def run(I):
        ctx = I.ctx
        a, v1, e1 = mk_qty(I, 'a')
        shapes = ['plain'] if reflected else ['plain', 'qty']
        shape = shapes[ctx.choose([True] * len(shapes), 'other')]
        b, v2, e2, kind = mk_other(I, shape)
        if opname == 'truediv':
            ctx.assume((v1 if reflected else v2) != 0)      # stated precondition: no zero divisor
        out = run_op(I, opname, b, a) if reflected else run_op(I, opname, a, b)
        if opname == 'mul':
            val = v1 * v2
            ee = [x + y for x, y in zip(e1, e2)]
        elif reflected:
            val = v2 / v1
            ee = [y - x for x, y in zip(e1, e2)]
        else:
            val = v1 / v2
            ee = [x - y for x, y in zip(e1, e2)]

        def posts(r):
            rv, re_ = qty_parts(r)
            cancelled = z3.And([x == 0 for x in ee])
            return [('exponents are %s' % ('added' if opname == 'mul' else 'subtracted'), same(re_, ee)),
                    ('magnitude is the %s of the SI magnitudes' % ('product' if opname == 'mul' else 'quotient'), z3_of(rv) == val),
                    ('plain number exactly when all exponents cancel', z3.BoolVal(is_qty(r)) == z3.Not(cancelled))]
        check_outcome(I, out, raises={}, returns=posts)
        return {'inputs': {}}
    return run


def pow_unit(I):
    ctx = I.ctx
    a, v1, e1 = mk_qty(I, 'a')
    k = I.fresh('k', 'int')
    out = run_op(I, 'pow', a, k)
    ee = [k * x for x in e1]

    def posts(r):
        rv, re_ = qty_parts(r)
        return [('exponents are scaled by the power', same(re_, ee)), ('magnitude is v**k', z3_of(rv) == Pow(v1, k)),
                ('plain number exactly when all exponents cancel', z3.BoolVal(is_qty(r)) == z3.Not(z3.And([x == 0 for x in ee])))]
    check_outcome(I, out, raises={}, returns=posts)
    return {'inputs': {}}


def build_unit(I):
    """FundamentalUnits._build for arbitrary real exponents: an exponent within 1e-7 of an integer is snapped to it,
    any other exponent is kept as it is (so fractional powers keep their dimension)."""
    ctx = I.ctx
    cls = source.module(QTY).classes['FundamentalUnits']
    pos = ctx.choose([True] * 7, 'position of the symbolic exponent')
    xs = [I.fresh('x%d' % i, 'real') if i == pos else 0.0 for i in range(7)]
    out = run_target(I, QTY, 'FundamentalUnits._build', [cls, NDArr((7,), xs)])
    rounds = dict((x.get_id(), n) for x, n in ctx.ghost.get('rounds', []))
    thr = z3.RealVal('1/10000000')

    def posts(r):
        if not (isinstance(r, Obj) and r.cls is cls):
            return [('returns a FundamentalUnits', z3.BoolVal(False))]
        es, fl = r.fields['exps'], r.fields['are_floats']
        ps = []
        for i, x in enumerate(xs):
            if i != pos:
                ps.append(('exponent %d (zero) stays zero' % i, z3.And(z3_of(es.items[i]) == 0, z3.Not(as_bool(fl.items[i])))))
                continue
            m = ctx.fresh('near%d' % i, 'int')          # the integer nearest to x_i
            mr = z3.ToReal(m)
            ctx.assume(z3.And(mr - z3.RealVal('1/2') <= x, x <= mr + z3.RealVal('1/2')))
            d = z3.If(x - mr >= 0, x - mr, mr - x)
            for xx, nn in ctx.ghost.get('rounds', []):
                if xx.eq(x) or (z3.simplify(xx - x).eq(z3.RealVal(0))):
                    # proof step (linear real arithmetic): two integers both within 1/2 of x differ by at most 1
                    ps.append(('lemma: the integer chosen by round() and the nearest integer differ by at most 1',
                               z3.And(nn - m <= 1, m - nn <= 1)))
            ps.append(('exponent %d: snapped to the nearest integer iff within 1e-7 of it, else unchanged' % i,
                       z3.And(z3_of(es.items[i]) == z3.If(d > thr, x, mr), as_bool(fl.items[i]) == (d > thr))))
        return ps
    check_outcome(I, out, raises={}, returns=posts)
    return {'inputs': {}}


def replay_qty(model, state, ob):
    """Rebuild the operands with the real classes and re-evaluate the operator."""
    import operator
    from pgradd.Units.qty import Quantity, FundamentalUnits
    from pgradd.Error import UnitsError
    import numpy as np
    import io, contextlib
    st = concretize(model, state['inputs'])
    ops = {'<': operator.lt, '<=': operator.le, '>': operator.gt, '>=': operator.ge, '==': operator.eq, '!=': operator.ne,
           '+': operator.add, '-': operator.sub, 'neg': operator.neg, 'abs': abs}
    op = ops[st['op']]

    def fu(e):
        return FundamentalUnits(np.array([fval(x) for x in e], dtype=float), np.zeros(7, dtype=bool))
    a = Quantity(fval(st['v1']), fu(st['e1']))
    if st['op'] in ('neg', 'abs'):
        args = [a]
        want = op(fval(st['v1']))
    else:
        b = Quantity(fval(st['v2']), fu(st['e2'])) if st['kind'] == 'qty' else fval(st['v2'])
        args = [b, a] if st.get('reflected') else [a, b]
        compatible = (st['e1'] == st['e2']) if st['kind'] == 'qty' else (fval(st['v2']) == 0)
        if st['op'] == '==':
            want = compatible and fval(st['v1']) == fval(st['v2'])
        elif st['op'] == '!=':
            want = (not compatible) or fval(st['v1']) != fval(st['v2'])
        elif not compatible:
            want = 'UnitsError'
        else:
            x, y = (fval(st['v2']), fval(st['v1'])) if st.get('reflected') else (fval(st['v1']), fval(st['v2']))
            want = op(x, y)
    with contextlib.redirect_stdout(io.StringIO()):
        try:
            got = op(*args)
            if isinstance(got, Quantity):
                got = got.value
        except UnitsError:
            got = 'UnitsError'
        except Exception as e:
            got = 'raised ' + type(e).__name__
    failed = got != want
    desc = {'a': [fval(st['v1']), [fval(x) for x in st['e1']]], 'op': st['op'],
            'b': None if st['op'] in ('neg', 'abs') else ([fval(st['v2']), [fval(x) for x in st['e2']]] if st['kind'] == 'qty' else fval(st['v2'])),
            'reflected': bool(st.get('reflected'))}
    script = ("import numpy as np, operator\nfrom pgradd.Units.qty import Quantity, FundamentalUnits\n"
              "fu = lambda e: FundamentalUnits(np.array(e, dtype=float), np.zeros(7, dtype=bool))\n"
              "# operands (SI value, exponents m kg s A K mol cd): %r\n" % (desc,))
    return {'failed': bool(failed), 'input': desc, 'observed': got, 'expected': want, 'script': script}


def u_units_ops(I):
    """FundamentalUnits.__mul__ / __truediv__ / __div__ / __pow__: the class invariant (the are_floats flags agree with the exponents, near-integers
    are snapped) is established by _build and by nothing else -- every operator must return what _build makes of the right exponent vector, for
    operands whose exponents are arbitrary reals (fractional powers included) and for int, float and symbolic powers"""
    ctx = I.ctx
    cls = source.module(QTY).classes['FundamentalUnits']
    op = ['__mul__', '__truediv__', '__div__', '__pow__'][ctx.choose([True] * 4, 'operator')]
    mk = lambda tag: Obj(cls, {'exps': NDArr((7,), [I.fresh('%s%d' % (tag, i), 'real') for i in range(7)]),
                               'are_floats': NDArr((7,), [I.fresh('%sf%d' % (tag, i), 'bool') for i in range(7)], 'bool')}, 'param')
    a = mk('a')
    built = []

    def build_contract(I_, args, k):
        arr = args[-1]
        r = Obj(cls, {'exps': NDArr((7,), [I_.fresh('b%d' % i, 'real') for i in range(7)]), 'are_floats': NDArr((7,), [I_.fresh('bf%d' % i, 'bool') for i in range(7)], 'bool')}, 'fresh')
        built.append((arr, r))
        return r
    I.world.contracts[(QTY, 'FundamentalUnits._build')] = build_contract
    if op == '__pow__':
        other = [2, 0.5, I.fresh('p', 'real')][ctx.choose([True] * 3, 'power: python int, python float, symbolic')]
        want = [z3_of(other) * e for e in a.fields['exps'].items]
    else:
        other = mk('b')
        sign = 1 if op == '__mul__' else -1
        want = [x + sign * y for x, y in zip(a.fields['exps'].items, other.fields['exps'].items)]
    out = run_target(I, QTY, 'FundamentalUnits.' + op, [other], self_obj=a)

    def posts(r):
        ok = len(built) == 1 and r is built[0][1]
        ps = [('the result is what _build makes of one exponent vector (flags and snapping come from _build, never copied from an operand)', z3.BoolVal(ok))]
        if ok:
            arr = built[0][0]
            items = list(arr.items) if isinstance(arr, NDArr) else None
            ps.append(('... of the right vector: exponents added / subtracted / scaled', z3.And([z3_of(x) == w for x, w in zip(items, want)]) if items and len(items) == 7 else z3.BoolVal(False)))
        return ps
    check_outcome(I, out, raises={}, returns=posts)
    return {'inputs': {}}


INPLACE = [('__iadd__', '__add__'), ('__isub__', '__sub__'), ('__imul__', '__mul__'), ('__itruediv__', '__truediv__'), ('__ipow__', '__pow__'),
           ('__ifloordiv__', '__floordiv__')]        # the classes define // (as their division): a //= b must be that operator too, not numpy's


def u_inplace(I):
    """a += b, a -= b, a *= b, a /= b, a **= b on quantities: python uses __iadd__ ... when the class (or a base class) defines them. An array
    quantity is a numpy array, and numpy's in-place operators know nothing about units -- so the quantity classes must define their own,
    and each must be the unit-aware operator of the same name (whose contract is proved above)"""
    ctx = I.ctx
    W_ = I.world
    cname = ['ArrayQuantity', 'Quantity'][ctx.choose([True, True], 'class')]
    iop, op = INPLACE[ctx.choose([True] * len(INPLACE), 'operator')]
    cls = source.module(QTY).classes[cname]
    m = W_.find_method(cls, iop)
    if m is None:
        if cname == 'Quantity':
            # no __iadd__ anywhere in the MRO of a scalar quantity: python falls back to __add__ -- fine
            ctx.oblige('scalar quantity: no in-place operator defined, python falls back to the unit-aware %s' % op, z3.BoolVal(W_.find_method(cls, op) is not None))
            return {'inputs': {}}
        ctx.oblige('array quantity: %s is defined by the quantity classes (otherwise numpy\'s unit-blind in-place operator runs)' % iop, z3.BoolVal(False))
        return {'inputs': {}}
    calls = []
    tgt = W_.find_method(cls, op)
    W_.contracts[(tgt.module.relpath, tgt.qualname)] = lambda I_, a, k: (calls.append(tuple(a)), ('result-of', op))[1]
    a = Obj(cls, {}, 'param')
    b = Obj(cls, {}, 'param')
    out = run_target(I, m.module.relpath, m.qualname, [b], self_obj=a)
    check_outcome(I, out, raises={}, returns=lambda r: [
        ('%s is the unit-aware %s of the same operands' % (iop, op), z3.BoolVal(r == ('result-of', op) and len(calls) == 1 and calls[0][0] is a and calls[0][1] is b))])
    return {'inputs': {}}


def replay_inplace(model, state, ob):
    import numpy as np
    from pgradd.Units import eval_qty
    from pgradd.Error import UnitsError
    from . import real
    bad = []
    with real.quiet():
        for nm, f in (('a += seconds', lambda a, s: a.__iadd__(s)), ('a -= seconds', lambda a, s: a.__isub__(s)), ('a += 1', lambda a, s: a.__iadd__(1))):
            a = np.array([1.0, 2.0]) * eval_qty('1 m')
            s_ = np.array([1.0, 2.0]) * eval_qty('1 s')
            try:
                f(a, s_)
                bad.append(nm + ': accepted')
            except UnitsError:
                pass
            except Exception as e:    # noqa
                bad.append('%s: %s' % (nm, type(e).__name__))
        a = np.array([1.0, 2.0]) * eval_qty('1 m')
        a3 = a
        a3 //= np.array([1.0, 2.0]) * eval_qty('1 s')
        if not (hasattr(a3, '_units') and str(a3._units) == 'm/s'):
            bad.append('a //= seconds keeps units %s' % getattr(a3, '_units', None))
        a = np.array([1.0, 2.0]) * eval_qty('1 m')
        a2 = a.__imul__(np.array([1.0, 2.0]) * eval_qty('1 s'))
        if not (hasattr(a2, '_units') and str(a2._units) in ('m*s', 's*m', 'm s')):
            bad.append('a *= seconds keeps units %s' % getattr(a2, '_units', None))
    return {'failed': bool(bad), 'input': "a = np.array([1., 2.]) * eval_qty('1 m'); a += np.array([1., 2.]) * eval_qty('1 s')", 'observed': bad or 'UnitsError', 'expected': 'UnitsError (and *= combines the units)',
            'script': "import numpy as np\nfrom pgradd.Units import eval_qty\na = np.array([1., 2.]) * eval_qty('1 m')\na += np.array([1., 2.]) * eval_qty('1 s')   # expected UnitsError\nprint(a)\n"}


def replay_build(model, state, ob):
    """exponent vectors around the snapping threshold (1e-7) through the real FundamentalUnits._build"""
    import numpy as np
    from pgradd.Units.qty import FundamentalUnits
    bad = []
    for base in (-2, 0, 1, 3):
        for d in (0.0, 5e-8, -5e-8, 2e-7, -2e-7, 0.25, -0.5):
            e = base + d
            exps = np.array([e, 0, 0, 0, 0, 0, 0], dtype=float)
            try:
                fu = FundamentalUnits._build(exps)
                got = fu.exps[0] if hasattr(fu, 'exps') else None
            except Exception as ex:    # noqa
                got = 'raised ' + type(ex).__name__
            want = float(round(e)) if abs(e - round(e)) <= 1e-7 else e
            if isinstance(got, str) or got is None or abs(float(got) - want) > 1e-12:
                bad.append((e, got, want))
    return {'failed': bool(bad), 'input': [b[0] for b in bad] or 'exponents k, k +- 5e-8, k +- 2e-7, k + 0.25, k - 0.5 for k in (-2, 0, 1, 3)',
            'observed': [str(b[1]) for b in bad], 'expected': [b[2] for b in bad] or 'snapped iff within 1e-7 of an integer',
            'script': "import numpy as np\nfrom pgradd.Units.qty import FundamentalUnits\nprint(FundamentalUnits._build(np.array([1 - 5e-8, 0, 0, 0, 0, 0, 0.])).exps)   # expected first exponent 1\n"}


UNITS = []
for nm, op in (('eq', '=='), ('ne', '!='), ('lt', '<'), ('le', '<='), ('gt', '>'), ('ge', '>=')):
    UNITS.append(Unit('GenericQuantity.__%s__' % nm, (QTY, 'GenericQuantity.__%s__' % ('lt' if nm == 'gt' else nm)), cmp_unit(nm, op), replay_qty))
UNITS += [
    Unit('GenericQuantity.__add__', (QTY, 'GenericQuantity.__add__'), arith_unit('add', '+'), replay_qty),
    Unit('GenericQuantity.__radd__', (QTY, 'GenericQuantity.__radd__'), arith_unit('add', '+', True), replay_qty),
    Unit('GenericQuantity.__sub__', (QTY, 'GenericQuantity.__sub__'), arith_unit('sub', '-'), replay_qty),
    Unit('GenericQuantity.__rsub__', (QTY, 'GenericQuantity.__rsub__'), arith_unit('sub', '-', True), replay_qty),
    Unit('GenericQuantity.__neg__', (QTY, 'GenericQuantity.__neg__'), unary_unit('neg'), replay_qty),
    Unit('GenericQuantity.__abs__', (QTY, 'GenericQuantity.__abs__'), unary_unit('abs'), replay_qty),
    Unit('GenericQuantity.__mul__', (QTY, 'GenericQuantity.__mul__'), muldiv_unit('mul')),
    Unit('GenericQuantity.__rmul__', (QTY, 'GenericQuantity.__rmul__'), muldiv_unit('mul', True)),
    Unit('GenericQuantity.__truediv__', (QTY, 'GenericQuantity.__truediv__'), muldiv_unit('truediv')),
    Unit('GenericQuantity.__rtruediv__', (QTY, 'GenericQuantity.__rtruediv__'), muldiv_unit('truediv', True)),
    Unit('GenericQuantity.__pow__', (QTY, 'GenericQuantity.__pow__'), pow_unit),
    Unit('FundamentalUnits._build', (QTY, 'FundamentalUnits._build'), build_unit, replay_build),
    Unit('FundamentalUnits.__mul__/__truediv__/__pow__', (QTY, 'FundamentalUnits.__pow__'), u_units_ops),
    Unit('in-place operators of quantities', (QTY, 'GenericQuantity.__add__'), u_inplace, replay_inplace),
]

from . import C11conv      # noqa: E402  (conversion between quantities of different dimension raises the units error)
UNITS += C11conv.UNITS
from . import standins     # noqa: E402
STANDINS = [standins.c11_algebra]
