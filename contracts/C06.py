"""C06 -- No property is returned outside the valid range unsignalled.

From the property text: an estimate's range is the intersection of its constituents' ranges; outside a range a
correlation raises or (only without heat-capacity data) warns; inside, every defined property is a finite real
(in the real-number model: no division by zero, no logarithm of a non-positive number)."""
import z3

from pyvc import source
from pyvc.engine import Obj, NDArr, is_z3, z3_of
from pyvc.verify import Unit, run_target
from . import C01, C05, gd
from .common import ThermoWorld
from .gd import Key, CorrOf, HasRange, Lo, Hi
from .C01 import AnyRange, CMin, CMax, range_fold_axioms
from .incomplete import INC_UNITS
from .spec import check_outcome
from .thermo import BASE, RAW

PROPERTY = 'C06'


# a recorded finding (K6) stands for this property: it is not claimed as proved although every obligation of the units is discharged
LEVEL = 'other'


def world():
    return ThermoWorld()


def u_check_range(I):
    ctx = I.ctx
    cls = source.module(BASE).classes['ThermochemBase']
    form = ctx.choose([True, True, True], 'form')   # 0: range None, 1: scalar T, 2: array of two temperatures
    lo, hi = I.fresh('lo', 'real'), I.fresh('hi', 'real')
    o = Obj(cls, {'range': None if form == 0 else (lo, hi)}, origin='param')
    if form == 2:
        t1, t2 = I.fresh('T1', 'real'), I.fresh('T2', 'real')
        T = NDArr((2,), [t1, t2])
        outside = z3.Or(t1 < lo, t1 > hi, t2 < lo, t2 > hi)
    else:
        T = I.fresh('T', 'real')
        outside = z3.Or(T < lo, T > hi) if form else z3.BoolVal(False)
    out = run_target(I, BASE, 'ThermochemBase.check_range', [T], self_obj=o)
    writes = [e for e in ctx.effects if e[0].startswith('write')]
    ctx.oblige('pure', z3.BoolVal(not writes))
    check_outcome(I, out, raises={'OutsideCorrelationError': outside},
                  returns=lambda r: [('returns None', z3.BoolVal(r is None))], site='check_range')
    return {'inputs': {}}


def u_base_init(I):
    ctx = I.ctx
    cls = source.module(BASE).classes['ThermochemBase']
    o = Obj(cls, {}, origin='fresh')
    form = ctx.choose([True, True, True])
    lo, hi = I.fresh('lo', 'real'), I.fresh('hi', 'real')
    arg = [None, (lo, hi), [lo, hi]][form]
    out = run_target(I, BASE, 'ThermochemBase.__init__', [], {'range': arg}, self_obj=o)
    bad = (hi < lo) if form else z3.BoolVal(False)

    def posts(_):
        r = o.fields.get('range', 'undefined')
        if form == 0:
            return [('range None stored', z3.BoolVal(r is None))]
        return [('range stored as a pair with lower <= upper',
                 z3.And(r[0] == lo, r[1] == hi, lo <= hi) if isinstance(r, tuple) and len(r) == 2 else z3.BoolVal(False))]
    check_outcome(I, out, raises={'*': bad}, returns=posts, site='ThermochemBase.__init__')
    return {'inputs': {}}


def u_get_range(I):
    cls = source.module(BASE).classes['ThermochemBase']
    lo, hi = I.fresh('lo', 'real'), I.fresh('hi', 'real')
    rng = [None, (lo, hi)][I.ctx.choose([True, True])]
    o = Obj(cls, {'range': rng}, origin='param')
    out = run_target(I, BASE, 'ThermochemBase.get_range', [], self_obj=o)
    check_outcome(I, out, returns=lambda r: [('get_range returns the stored range', z3.BoolVal(r is rng))])
    return {'inputs': {}}


def u_lemma_outside(I):
    """If T lies outside the estimate's reported range (CMin(n), CMax(n)) then some constituent that has a range
    excludes T.  Induction over the number of constituents with an explicit witness function W."""
    ctx = I.ctx
    T = I.fresh('T', 'real')
    j = I.fresh('j', 'int')
    Wlo = ctx.fresh_fn('Wlo', z3.IntSort(), z3.IntSort())
    Whi = ctx.fresh_fn('Whi', z3.IntSort(), z3.IntSort())
    c = lambda i: CorrOf(Key(i))
    ctx.assume(z3.Not(AnyRange(0)))
    ctx.assume(j >= 0)
    for ax in range_fold_axioms(j):
        ctx.assume(ax)
    ctx.assume(z3.Implies(HasRange(c(j)), Lo(c(j)) <= Hi(c(j))))
    # witness functions: last constituent (so far) whose own bound excludes T
    ctx.assume(Wlo(j + 1) == z3.If(z3.And(HasRange(c(j)), T < Lo(c(j))), j, Wlo(j)))
    ctx.assume(Whi(j + 1) == z3.If(z3.And(HasRange(c(j)), T > Hi(c(j))), j, Whi(j)))
    Plo = lambda k: z3.Implies(z3.And(AnyRange(k), T < CMin(k)),
                               z3.And(0 <= Wlo(k), Wlo(k) < k, HasRange(c(Wlo(k))), T < Lo(c(Wlo(k)))))
    Phi = lambda k: z3.Implies(z3.And(AnyRange(k), T > CMax(k)),
                               z3.And(0 <= Whi(k), Whi(k) < k, HasRange(c(Whi(k))), T > Hi(c(Whi(k)))))
    ctx.oblige('base: below the (empty) common range', Plo(0))
    ctx.oblige('base: above the (empty) common range', Phi(0))
    ctx.assume(Plo(j))
    ctx.assume(Phi(j))
    ctx.oblige('step: T below the common lower bound => some constituent lower bound excludes T', Plo(j + 1))
    ctx.oblige('step: T above the common upper bound => some constituent upper bound excludes T', Phi(j + 1))
    return {'inputs': {}}


UNITS = [
    Unit('ThermochemBase.check_range', (BASE, 'ThermochemBase.check_range'), u_check_range),
    Unit('ThermochemBase.__init__', (BASE, 'ThermochemBase.__init__'), u_base_init),
    Unit('ThermochemBase.get_range', (BASE, 'ThermochemBase.get_range'), u_get_range),
    Unit('lemma:outside-common-range', None, u_lemma_outside, kind='lemma'),
] + INC_UNITS
# shared units: range checked first in every table evaluation (C05 units carry the raises-iff obligations),
# range fold of the estimate (C01 unit)
for u in C05.UNITS:
    if u.name in ('ThermochemRawData.get_HoRT', 'ThermochemRawData.get_SoR', 'ThermochemRawData.get_CpoR', 'ThermochemRawData.__init__'):
        u.world_factory = C05.world
        UNITS.append(u)
def replay_own_range(model, state, ob):
    """an estimate whose declared range was narrowed with set_range, evaluated outside it"""
    import warnings
    import pgradd.ThermoChem  # noqa
    from . import real
    lib = real.load('BensonGA', fresh=True)
    res = {}
    with real.quiet(), warnings.catch_warnings(record=True) as w:
        warnings.simplefilter('always')
        est = lib.Estimate(lib.GetDescriptors('C1CO1'), 'thermochem')
        est.set_range((298., 500.))
        for m in ('get_CpoR', 'get_HoRT', 'get_SoR'):
            res[m] = real.outcome(getattr(est, m), 800.)
    silent = [m for m, r in res.items() if r[0] == 'ok'] if not w else []
    return {'failed': bool(silent), 'input': "est = BensonGA.Estimate(descriptors of 'C1CO1'); est.set_range((298, 500)); est.get_X(800)", 'observed': {k: str(v) for k, v in res.items()},
            'expected': 'an error or a warning: 800 K is outside the range the estimate declares',
            'script': "import pgradd.ThermoChem\nfrom pgradd.GroupAdd.Library import GroupLibrary\nlib = GroupLibrary.Load('BensonGA')\ne = lib.Estimate(lib.GetDescriptors('C1CO1'), 'thermochem')\ne.set_range((298., 500.))\nprint(e.get_range(), e.get_HoRT(800.))\n"}


replay_own_range.model_free = True
for _X, _m in (('CpoR', 'get_CpoR'), ('HoRT', 'get_HoRT'), ('SoR', 'get_SoR')):
    _u = Unit('ThermochemGroupAdditive.%s[own declared range]' % _m, (C01.GD, 'ThermochemGroupAdditive.' + _m), C01.fold_unit(_X, _m, own_range=True), replay_own_range)
    _u.world_factory = C01.world
    UNITS.append(_u)
for u in C01.UNITS:
    if u.name == 'ThermochemGroupAdditive.__init__':
        u.world_factory = C01.world
        UNITS.append(u)

from . import standins
STANDINS = [standins.c06_edges]
