"""C08 -- RING fragment matching returns exactly the embeddings it denotes.

Python side against an explicit denotation (RDKit's matcher is an assumed extern):
  ConstraintNumber      : (operator, n) of every form used by the readers; CN(x) <=> x op n
  evaluators            : each atom / bond / molecule constraint passes exactly when its denotation holds
                          (negation included); counting evaluators by loop invariants over symbolic neighbourhoods
  GetQueryMatches       : the result is the order-preserving sub-sequence of the RDKit matches that satisfy all bond,
                          atom and stereo constraints; () if a molecule constraint fails
  readers               : translation table from syntax-tree shapes to constraint objects (defaults >=1, single, ...)"""
import ast

import z3

from pyvc import source, loops
from pyvc.engine import (Obj, Builtin, SymSeq, Namespace, FmtStr, PyExc, Unsupported, NotImplementedVal, is_z3, z3_of, seq_view)
from pyvc.source import BuiltinClass
from pyvc.verify import Unit, run_target, Outcome
from pyvc.world import World
from . import chem
from .chem import (Rad, Chg, AInRing, Arom, Deg, BondOf, BType, BInRing, OtherAtom, NRings, RingSize, RingAtom, RingHas, HasBond,
                   BondBetween, NumAtoms, atom, bond, BOND_CODES)
from .spec import check_outcome

PROPERTY = 'C08'
LEVEL = 'other'
EXPLANATION = ('deductive obligations on every evaluator, the filter structure of GetQueryMatches and the reader translation units, relative to an abstract RDKit; one '
               'obligation (no embedding is cut off by the cap on raw RDKit matches) is REFUTED on the unchanged tree and reported as known finding K4, hence the '
               'record is not a proof record; a brute-force matcher is the bounded second line')
MQ = 'pgradd/RDkitWrapper/MolQuery.py'
MQR = 'pgradd/RINGParser/MolQueryRead.py'
IS, BS = z3.IntSort(), z3.BoolSort()
TRUSTED = [chem.TRUSTED, chem.TRUSTED2,
           'GetSubstructMatches(query, uniquify=False, maxMatches=10000) returns exactly the embeddings (tuples of distinct atom indices in '
           'query-atom order) satisfying the primitive atom/bond queries, fewer than 10000 (precondition); rdqueries.* build the named primitive',
           'operator.gt/lt/ge/le/eq are the comparisons']


def _defaultdict(I, a, k):
    from pyvc.engine import DefaultDict
    d = DefaultDict()
    d.factory = a[0] if a else None
    return d


class W(World):
    def __init__(self):
        World.__init__(self)
        chem.install2(self)
        cmpb = lambda opn: Builtin('operator.' + opn, lambda I, a, k: I.compare({'gt': ast.Gt, 'lt': ast.Lt, 'ge': ast.GtE, 'le': ast.LtE, 'eq': ast.Eq}[opn], a[0], a[1]))
        self.externs['operator'] = Namespace('operator', {n: cmpb(n) for n in ('gt', 'lt', 'ge', 'le', 'eq')})
        self.externs['collections.defaultdict'] = Builtin('defaultdict', _defaultdict)

    def str_class_hook(self, I, v, name):
        raise Unsupported('character class of a symbolic string')


def world():
    return W()


OPS = {'>': lambda x, n: x > n, '<': lambda x, n: x < n, '>=': lambda x, n: x >= n, '<=': lambda x, n: x <= n, '=': lambda x, n: x == n}


def mk_cn(I, tag='cn'):
    """a real ConstraintNumber object with one of the five operators and a symbolic n"""
    cls = source.module(MQ).classes['ConstraintNumber']
    op = list(OPS)[I.ctx.choose([True] * 5, 'operator')]
    n = I.fresh(tag + '_n', 'int')
    return Obj(cls, {'operator': op, 'n': n}, 'param'), (lambda x: OPS[op](x, n))


def u_cn_init(I):
    ctx = I.ctx
    cls = source.module(MQ).classes['ConstraintNumber']
    d = I.fresh('digit', 'int')
    forms = [('list2', lambda: ['>=', d], '>=', d), ('list2<', lambda: ['<', d], '<', d), ('list2=', lambda: ['=', d], '=', d),
             ('list2>', lambda: ['>', d], '>', d), ('list2<=', lambda: ['<=', d], '<=', d), ('list1', lambda: [d], '=', d), ('int', lambda: 3, '=', 3),
             ("'=0'", lambda: '=0', '=', 0), ("'=1'", lambda: '=1', '=', 1), ("'=2'", lambda: '=2', '=', 2), ("'=3'", lambda: '=3', '=', 3),
             ("'>=1'", lambda: '>=1', '>=', 1), ("'=-1'", lambda: '=-1', '=', -1), ("'2'", lambda: '2', '=', 2)]
    name, mk, wop, wn = forms[ctx.choose([True] * len(forms), 'form')]
    o = Obj(cls, {}, 'fresh')
    out = run_target(I, MQ, 'ConstraintNumber.__init__', [mk()], self_obj=o)
    check_outcome(I, out, raises={}, returns=lambda r: [
        ('ConstraintNumber(%s) has operator %r' % (name, wop), z3.BoolVal(o.fields.get('operator') == wop)),
        ('... and number as written', z3_of(o.fields.get('n', -99)) == z3_of(wn))])
    x = I.fresh('x', 'int')
    out2 = run_target(I, MQ, 'ConstraintNumber.__call__', [x], self_obj=o)
    check_outcome(I, out2, raises={}, returns=lambda r: [('CN(x) <=> x %s n' % wop, (r if is_z3(r) else z3.BoolVal(bool(r))) == OPS[wop](x, z3_of(wn)))])
    return {'inputs': {}}


def eval_outcome(I, out, want_pass, what=''):
    """GetQueryMatches drops a match on ANY exception raised by a constraint, so for an evaluator
    'returns normally' = passes and 'raises (anything)' = fails."""
    if out.kind == 'return':
        I.ctx.oblige('passes only when the denotation holds%s' % what, want_pass)
    else:
        I.ctx.oblige('fails only when the denotation does not hold%s' % what, z3.Not(want_pass), exception=out.value.cls.name)


def passes(out):
    """evaluator outcome -> (is_pass, is_fail): normal return = pass, MolQueryError = fail"""
    if out.kind == 'return':
        return True
    return False


def simple_eval_unit(clsname, denot):
    """evaluators without loops: passes <=> denotation != negate"""
    def run(I):
        ctx = I.ctx
        cls = source.module(MQ).classes[clsname]
        negate = [False, True][ctx.choose([True, True], 'negate')]
        mid, idx = I.fresh('mol', 'int'), I.fresh('atom', 'int')
        fields = {'negate': negate}
        cnf = None
        if clsname == 'AtomRadical':
            cn, cnf = mk_cn(I)
            fields['CN'] = cn
        o = Obj(cls, fields, 'param')
        out = run_target(I, MQ, clsname + '.__call__', [atom(mid, idx)], self_obj=o)
        d = denot(mid, idx, cnf)
        want_pass = d != z3.BoolVal(negate)
        eval_outcome(I, out, want_pass)
        return {'inputs': {}}
    return run


def u_allylic(I):
    ctx = I.ctx
    cls = source.module(MQ).classes['AtomIsAllylic']
    negate = [False, True][ctx.choose([True, True], 'negate')]
    mid, idx = I.fresh('mol', 'int'), I.fresh('atom', 'int')
    o = Obj(cls, {'negate': negate}, 'param')
    dbl = lambda j: BType(mid, BondOf(mid, idx, j)) == BOND_CODES['DOUBLE']
    t = z3.Int('t!al')

    def st(I_, j, env, it):
        env.local['yes'] = False
        env.local.pop('bond', None)
        ctx.assume_forall([t], z3.Implies(z3.And(0 <= t, t < j), z3.Not(dbl(t))), 'no double bond among the bonds visited')

    def inv(I_, j, env, it):
        tt = ctx.fresh('inv_t', 'int')
        ctx.instantiate([tt])
        return [('still searching: no double bond among the bonds visited so far', z3.BoolVal(env.local.get('yes') is False)),
                ('(arbitrary earlier bond) is not double', z3.Implies(z3.And(0 <= tt, tt < j), z3.Not(dbl(tt))))]
    I.world.loop_specs[(MQ, 'AtomIsAllylic.__call__', 0)] = loops.for_rule('bonds', st, inv)
    out = run_target(I, MQ, 'AtomIsAllylic.__call__', [atom(mid, idx)], self_obj=o)
    broke = any(e[0] == 'loop-break' for e in ctx.effects)
    if broke:
        j = z3.Int('j_bonds')
        ctx.oblige('the search stops only at a double bond of the atom (witness)', z3.And(0 <= j, j < Deg(mid, idx), dbl(j)))
        want_pass = not negate
    else:
        k = ctx.fresh('k', 'int')
        ctx.instantiate([k])
        ctx.oblige('search exhausted: no bond of the atom is double (arbitrary k)', z3.Implies(z3.And(0 <= k, k < Deg(mid, idx)), z3.Not(dbl(k))))
        want_pass = negate
    eval_outcome(I, out, z3.BoolVal(want_pass))
    return {'inputs': {}}


def u_atomring(I):
    """in ring of size CN: passes <=> (some ring containing the atom has a size satisfying CN) != negate"""
    ctx = I.ctx
    cls = source.module(MQ).classes['AtomRing']
    negate = [False, True][ctx.choose([True, True], 'negate')]
    mid, idx = I.fresh('mol', 'int'), I.fresh('atom', 'int')
    cn, cnf = mk_cn(I)
    o = Obj(cls, {'negate': negate, 'ring_sizeCN': cn}, 'param')
    good = lambda r: z3.And(RingHas(mid, r, idx), cnf(RingSize(mid, r)))
    t = z3.Int('t!ar')
    # rdkit consistency: an atom that is not in a ring is in none of the listed rings
    ctx.assume_forall([t], z3.Implies(z3.Not(AInRing(mid, idx)), z3.Not(RingHas(mid, t, idx))), 'IsInRing consistent with AtomRings')

    def st(I_, j, env, it):
        env.local.pop('ring', None)
        ctx.assume_forall([t], z3.Implies(z3.And(0 <= t, t < j), z3.Not(good(t))), 'no suitable ring among the rings visited')

    def inv(I_, j, env, it):
        tt = ctx.fresh('inv_t', 'int')
        ctx.instantiate([tt])
        return [('(arbitrary earlier ring) does not contain the atom with a size satisfying the constraint',
                 z3.Implies(z3.And(0 <= tt, tt < j), z3.Not(good(tt))))]
    I.world.loop_specs[(MQ, 'AtomRing.__call__', 0)] = loops.for_rule('rings', st, inv)
    I.world.loop_specs[(MQ, 'AtomRing.__call__', 1)] = loops.for_rule('rings', st, inv)
    out = run_target(I, MQ, 'AtomRing.__call__', [atom(mid, idx)], self_obj=o)
    in_iter = ctx.counters.get('j_rings') is not None and not any(e == ('loop-exit',) for e in ctx.effects)
    k = ctx.fresh('k', 'int')
    ctx.instantiate([k, z3.Int('j_rings')])
    # which kind of path is this?  decided inside an arbitrary iteration (witness ring) or after exhausting all rings
    j = z3.Int('j_rings')
    # "some ring through the atom has a suitable size": an existential, proved from a witness term -- the index of the iteration in
    # which the real loop decided, or a witness ring of one of RDKit's ring observers (MinAtomRingSize, IsAtomInRingOfSize) if the code
    # used those; the obligation is about the answer, not about how the code found it
    cands = ([j] if ctx.counters.get('j_rings') is not None else []) + chem.witness_terms(ctx.pc)
    found_here = z3.Or([z3.And(0 <= c, c < NRings(mid), good(c)) for c in cands]) if cands else z3.BoolVal(False)
    none_exists = z3.Implies(z3.And(0 <= k, k < NRings(mid)), z3.Not(good(k)))
    if out.kind == 'return':
        if negate:
            ctx.oblige('negated form passes only if no ring of the atom has a suitable size (arbitrary ring k)', none_exists)
        else:
            ctx.oblige('passes only with a witness ring containing the atom whose size satisfies the constraint', found_here)
    else:
        check_outcome(I, out, raises={'MolQueryError': z3.BoolVal(True)})
        if negate:
            ctx.oblige('negated form fails only with a witness ring of suitable size', found_here)
        else:
            ctx.oblige('fails only if no ring of the atom has a suitable size (arbitrary ring k)', none_exists)
    return {'inputs': {}}


IC = z3.Function('InnerCount', IS, IS, IS)     # (ring r, k): occurrences of the atom among the first k atoms of ring r
OC = z3.Function('OuterCount', IS, IS)         # rings before r containing the atom (with multiplicity)


def u_atomnring(I):
    """in CN rings: passes <=> CN(number of rings containing the atom) != negate"""
    ctx = I.ctx
    cls = source.module(MQ).classes['AtomNRing']
    negate = [False, True][ctx.choose([True, True], 'negate')]
    mid, idx = I.fresh('mol', 'int'), I.fresh('atom', 'int')
    cn, cnf = mk_cn(I)
    o = Obj(cls, {'negate': negate, 'NringCN': cn}, 'param')
    r_, k_ = z3.Int('r!n'), z3.Int('k!n')
    ctx.assume(OC(0) == 0)
    ctx.assume_forall([r_], z3.Implies(z3.And(0 <= r_, r_ < NRings(mid)), z3.And(IC(r_, 0) == 0, OC(r_ + 1) == OC(r_) + IC(r_, RingSize(mid, r_)))), 'count definition (rings)')
    ctx.assume_forall([r_, k_], z3.Implies(z3.And(0 <= r_, r_ < NRings(mid), 0 <= k_, k_ < RingSize(mid, r_)),
                                           IC(r_, k_ + 1) == IC(r_, k_) + z3.If(RingAtom(mid, r_, k_) == idx, 1, 0)), 'count definition (ring atoms)')
    cur = {}

    def st_outer(I_, j, env, it):
        env.local['n'] = OC(j)
        cur['r'] = j
        for v in ('ring', 'ring_atom_idx'):
            env.local.pop(v, None)
        ctx.instantiate([j])

    def inv_outer(I_, j, env, it):
        ctx.instantiate([j, j - 1, RingSize(mid, j - 1)])
        return [('n counts the rings visited so far that contain the atom', z3_of(env.local.get('n')) == OC(j))]

    def st_inner(I_, k, env, it):
        r = cur['r']
        env.local['n'] = OC(r) + IC(r, k)
        env.local.pop('ring_atom_idx', None)
        ctx.instantiate([r, k])

    def inv_inner(I_, k, env, it):
        r = cur.get('r', z3.IntVal(0))
        ctx.instantiate([r, k, k - 1])
        return [('n = rings before this one + occurrences among the atoms of this ring visited so far', z3_of(env.local.get('n')) == OC(r) + IC(r, k))]
    I.world.loop_specs[(MQ, 'AtomNRing.__call__', 0)] = loops.for_rule('nrings', st_outer, inv_outer)
    I.world.loop_specs[(MQ, 'AtomNRing.__call__', 1)] = loops.for_rule('ringatoms', st_inner, inv_inner)
    _orig = ctx.fresh

    def fresh(name, sort):
        v = _orig(name, sort)
        if name in ('j_nrings', 'j_ringatoms'):
            ctx.instantiate([v])
        return v
    ctx.fresh = fresh
    out = run_target(I, MQ, 'AtomNRing.__call__', [atom(mid, idx)], self_obj=o)
    ctx.instantiate([NRings(mid)])
    want_pass = cnf(OC(NRings(mid))) != z3.BoolVal(negate)
    eval_outcome(I, out, want_pass, ' (number of rings containing the atom, negation)')
    return {'inputs': {'negate': negate}}


def replay_nring(model, state, ob):
    from rdkit import Chem
    from pgradd.RINGParser.Reader import Read
    from . import real
    with real.quiet():
        q = Read('fragment a{ C labeled c1 {! in >1 ring} }')
        m = q.GetQueryMatches(Chem.MolFromSmiles('C1CCCCC1'))
        q2 = Read('fragment a{ C labeled c1 {in >1 ring} }')
        m2 = q2.GetQueryMatches(Chem.MolFromSmiles('C1CCCCC1'))
    failed = len(m) != 6 or len(m2) != 0
    return {'failed': failed, 'input': "fragment a{ C labeled c1 {! in >1 ring} } on cyclohexane", 'observed': [len(m), len(m2)], 'expected': [6, 0],
            'script': "from rdkit import Chem\nfrom pgradd.RINGParser.Reader import Read\nprint(len(Read('fragment a{ C labeled c1 {! in >1 ring} }').GetQueryMatches(Chem.MolFromSmiles('C1CCCCC1'))))  # expected 6\n"}


# ---- bond queries ---------------------------------------------------------------------------------------------
def bq_denotation(kind, mid, b):
    t = BType(mid, b)
    C = BOND_CODES
    return {'single': t == C['SINGLE'], 'double': t == C['DOUBLE'], 'triple': t == C['TRIPLE'], 'quadruple': t == C['QUADRUPLE'],
            'ring': BInRing(mid, b), 'nonring': z3.Not(BInRing(mid, b)), 'aromatic': t == C['AROMATIC'], 'any': z3.BoolVal(True),
            'strong': z3.Or(t == C['DOUBLE'], t == C['TRIPLE'], t == C['QUADRUPLE'], t == C['AROMATIC']),
            'partial': z3.Or(t == C['DATIVE'], t == C['OTHER'], t == C['ZERO'])}[kind]


KINDS = ['single', 'double', 'triple', 'quadruple', 'ring', 'nonring', 'aromatic', 'any', 'strong', 'partial']


def u_bondquery(I):
    ctx = I.ctx
    cls = source.module(MQ).classes['BondQuery']
    kind = KINDS[ctx.choose([True] * len(KINDS), 'bond kind')]
    o = Obj(cls, {}, 'fresh')
    out0 = run_target(I, MQ, 'BondQuery.__init__', [kind], self_obj=o)
    check_outcome(I, out0, raises={}, returns=lambda r: [('kind stored', z3.BoolVal(o.fields.get('RINGbondname') == kind))])
    mid, b = I.fresh('mol', 'int'), I.fresh('bond', 'int')
    out = run_target(I, MQ, 'BondQuery.__call__', [bond(mid, b)], self_obj=o)
    check_outcome(I, out, raises={'MolQueryError': z3.Not(bq_denotation(kind, mid, b))},
                  returns=lambda r: [('a passing bond query returns True', z3.BoolVal(r is True))])
    return {'inputs': {}}


def u_bondconstraint(I):
    ctx = I.ctx
    cls = source.module(MQ).classes['BondConstraint']
    bqc = source.module(MQ).classes['BondQuery']
    kind = KINDS[ctx.choose([True] * len(KINDS), 'bond kind')]
    o = Obj(cls, {'bondquery': Obj(bqc, {'RINGbondname': kind}, 'param')}, 'param')
    mid, i, j = I.fresh('mol', 'int'), I.fresh('i', 'int'), I.fresh('j', 'int')
    out = run_target(I, MQ, 'BondConstraint.__call__', [i, j, chem.mol(mid)], self_obj=o)
    den = z3.And(HasBond(mid, i, j), bq_denotation(kind, mid, BondBetween(mid, i, j)))
    # any exception counts as "does not pass" (GetQueryMatches drops the match on every exception)
    if out.kind == 'raise':
        ctx.oblige('the bond constraint fails only when the bond is absent or of another kind', z3.Not(den))
    else:
        ctx.oblige('the bond constraint passes only when the bond exists and is of the declared kind', den)
    return {'inputs': {}}


# ---- counting neighbours --------------------------------------------------------------------------------------
QMatch = z3.Function('QueryAtomMatches', IS, IS, IS, BS)      # (query atom, mol, atom)
CPass = z3.Function('ConstraintPasses', IS, IS, IS, BS)       # (abstract constraint id, mol, atom)
CC = z3.Function('NeighbourCount', IS, IS)
AbsConstraint = BuiltinClass('AbstractAtomConstraint')
QAtomCls = BuiltinClass('QueryAtomAbs')


def abs_constraint_call(I, o, args, kw):
    a = args[0]
    if I.ctx.branch(CPass(z3.IntVal(o.fields['cid']), a.fields['mid'], a.fields['idx'])):
        return None
    raise PyExc(Obj(source.module('pgradd/Error.py').classes['MolQueryError'], {'args': ('abstract constraint fails',)}))


def u_connectivity(I):
    ctx = I.ctx
    I.world.abstract['AbstractAtomConstraint'] = {'call': abs_constraint_call}
    I.world.abstract['QueryAtomAbs'] = {'attr': lambda I_, o, nm: Builtin('Match', lambda I2, a, k: QMatch(z3.IntVal(7), a[0].fields['mid'], a[0].fields['idx'])) if nm == 'Match' else NotImplementedVal}
    cls = source.module(MQ).classes['AtomConnectivityAtom']
    bqc = source.module(MQ).classes['BondQuery']
    negate = [False, True][ctx.choose([True, True], 'negate')]
    kind = ['single', 'any', 'double', 'ring', 'strong'][ctx.choose([True] * 5, 'bond kind')]
    ncons = ctx.choose([True, True, True], 'number of nested constraints')
    cn, cnf = mk_cn(I)
    cons = [Obj(AbsConstraint, {'cid': c}, 'param') for c in range(ncons)]
    o = Obj(cls, {'negate': negate, 'ConstraintNumber': cn, 'connected': Obj(QAtomCls, {}, 'param'),
                  'bondquery': Obj(bqc, {'RINGbondname': kind}, 'param'), 'constraints': cons}, 'param')
    mid, idx = I.fresh('mol', 'int'), I.fresh('atom', 'int')
    j_ = z3.Int('j!cc')

    def counted(j):
        b = BondOf(mid, idx, j)
        other = OtherAtom(mid, b, idx)
        return z3.And([QMatch(z3.IntVal(7), mid, other)] + [CPass(z3.IntVal(c), mid, other) for c in range(ncons)] + [bq_denotation(kind, mid, b)])
    ctx.assume(CC(0) == 0)
    ctx.assume_forall([j_], z3.Implies(z3.And(0 <= j_, j_ < Deg(mid, idx)), CC(j_ + 1) == CC(j_) + z3.If(counted(j_), 1, 0)), 'neighbour count definition')

    def st(I_, j, env, it):
        env.local['count'] = CC(j)
        for v in ('bond', 'connected_atom', 'constraint'):
            env.local.pop(v, None)
        ctx.instantiate([j])

    def inv(I_, j, env, it):
        ctx.instantiate([j, j - 1])
        return [('count = bonds visited so far whose other end matches element, nested constraints and bond kind', z3_of(env.local.get('count')) == CC(j))]
    I.world.loop_specs[(MQ, 'AtomConnectivityAtom.__call__', 0)] = loops.for_rule('nbrs', st, inv)
    out = run_target(I, MQ, 'AtomConnectivityAtom.__call__', [atom(mid, idx)], self_obj=o)
    ctx.instantiate([Deg(mid, idx)])
    want_pass = cnf(CC(Deg(mid, idx))) != z3.BoolVal(negate)
    eval_outcome(I, out, want_pass, ' (neighbour count, negation)')
    return {'inputs': {}}


TC = z3.Function('ChargeSum', IS, IS)


def u_molcharge(I):
    ctx = I.ctx
    cls = source.module(MQ).classes['MolCharge']
    cn, cnf = mk_cn(I)
    o = Obj(cls, {'ConstraintNumber': cn}, 'param')
    mid = I.fresh('mol', 'int')
    j_ = z3.Int('j!tc')
    ctx.assume(TC(0) == 0)
    ctx.assume_forall([j_], z3.Implies(z3.And(0 <= j_, j_ < NumAtoms(mid)), TC(j_ + 1) == TC(j_) + Chg(mid, j_)), 'total charge definition')

    def st(I_, j, env, it):
        env.local['total_charge'] = TC(j)
        env.local.pop('atom', None)
        ctx.instantiate([j])

    def inv(I_, j, env, it):
        ctx.instantiate([j, j - 1])
        return [('total_charge = sum of the formal charges of the atoms visited', z3_of(env.local.get('total_charge')) == TC(j))]
    I.world.loop_specs[(MQ, 'MolCharge.__call__', 0)] = loops.for_rule('charge', st, inv)
    out = run_target(I, MQ, 'MolCharge.__call__', [chem.mol(mid)], self_obj=o)
    ctx.instantiate([NumAtoms(mid)])
    eval_outcome(I, out, cnf(TC(NumAtoms(mid))), ' (total formal charge)')
    return {'inputs': {}}


# ---- GetQueryMatches: three filters over the RDKit matches -----------------------------------------------------
BCPass = z3.Function('BondConstraintPasses', IS, IS, IS, IS, BS)    # (constraint id, mol, i, j)
SCPass = z3.Function('StereoConstraintPasses', IS, IS, IS, IS, IS, IS, BS)
MCPass = z3.Function('MolConstraintPasses', IS, IS, BS)
MatchAt = z3.Function('MatchAtom', IS, IS, IS, IS)                  # (mol, match number, query atom) -> molecule atom
NMatch = z3.Function('NumMatches', IS, IS)


class FilterList:
    """abstract list: the elements of `source` (a sequence) at positions < upto whose predicate holds, in order,
    followed by `extra` (elements appended since the list was last summarised)"""
    def __init__(self, src, pred, upto, label):
        self.source, self.pred, self.upto, self.label = src, pred, upto, label
        self.extra = []


def fl_attr(I, v, name):
    if isinstance(v, FilterList) and name == 'append':
        return Builtin('list.append', lambda I_, a, k: v.extra.append(a[0]))
    return NotImplementedVal


def replay_cap(model, state, ob):
    """a molecule with more than 10000 raw embeddings of a scheme pattern: n-alkane C520H1042 under the Benson scheme"""
    if 'cut off' not in ob.get('name', ''):
        return None
    import pgradd.ThermoChem  # noqa
    from . import real
    lib = real.load('BensonGA')
    r = real.outcome(lambda: dict(lib.GetDescriptors('C' * 520)))
    ok = r[0] == 'ok' and {str(k): v for k, v in r[1].items()} == {'C(C)(H)3': 2, 'C(C)2(H)2': 518}
    return {'failed': not ok, 'input': "GroupLibrary.Load('BensonGA').GetDescriptors('C' * 520)", 'observed': str(r)[:200], 'expected': "{'C(C)(H)3': 2, 'C(C)2(H)2': 518}",
            'script': "import pgradd.ThermoChem\nfrom pgradd.GroupAdd.Library import GroupLibrary\nprint(dict(GroupLibrary.Load('BensonGA').GetDescriptors('C' * 520)))\n"}


def u_getquerymatches(I):
    ctx = I.ctx
    W_ = I.world
    W_.attr_hooks.append(fl_attr)
    cls = source.module(MQ).classes['MolQuery']
    nq = 2 + ctx.choose([True, True], 'query atoms')          # 2 or 3 query atoms
    mid0 = I.fresh('mol', 'int')
    mid = chem.AddHsId(mid0)
    nmc = ctx.choose([True, True, True], 'mol constraints')
    E = source.module('pgradd/Error.py').classes['MolQueryError']

    def mk_callable(name, predfn):
        c = BuiltinClass(name)
        W_.abstract[name] = {'call': lambda I_, o, a, k: (None if I_.ctx.branch(predfn(o, a)) else (_ for _ in ()).throw(PyExc(Obj(E, {'args': (name,)}))))}
        return c
    MC = mk_callable('AbsMolConstraint', lambda o, a: MCPass(z3.IntVal(o.fields['cid']), a[0].fields['mid']))
    BC = mk_callable('AbsBondConstraint', lambda o, a: BCPass(z3.IntVal(o.fields['cid']), a[2].fields['mid'], z3_of(a[0]), z3_of(a[1])))
    AC = AbsConstraint
    W_.abstract['AbstractAtomConstraint'] = {'call': abs_constraint_call}
    SC = mk_callable('AbsStereoConstraint', lambda o, a: SCPass(z3.IntVal(o.fields['cid']), a[4].fields['mid'], z3_of(a[0]), z3_of(a[1]), z3_of(a[2]), z3_of(a[3])))
    molcons = [Obj(MC, {'cid': c}, 'param') for c in range(nmc)]
    bondcons = [[0, 1, Obj(BC, {'cid': 0}, 'param')]] + ([[1, 2, Obj(BC, {'cid': 1}, 'param')]] if nq == 3 else [])
    atomcons = {0: [Obj(AC, {'cid': 0}, 'param'), Obj(AC, {'cid': 1}, 'param')], nq - 1: [Obj(AC, {'cid': 2}, 'param')]}
    stereo = [[0, 1, 0, 1, Obj(SC, {'cid': 0}, 'param')]] if nq == 3 else []
    qmol = Obj(BuiltinClass('QueryMol'), {}, 'param')
    o = Obj(cls, {'mol': qmol, 'atom_names': ['a%d' % i for i in range(nq)], 'mol_constraints': molcons, 'atom_constraints': atomcons,
                  'bond_constraints': bondcons, 'double_bond_stereo_constraints': stereo}, 'param')
    ctx.assume(NMatch(mid) >= 0)      # NMatch = number of embeddings of the structural query that EXIST (not: that RDKit was allowed to return)
    matches = SymSeq(NMatch(mid), lambda m: tuple(MatchAt(mid, m, q) for q in range(nq)), 'rdkit_matches', origin='fresh')
    calls = []

    def gsm(I_, a, k):
        calls.append((a, k))
        cap = k.get('maxMatches', 1000)          # RDKit's own default when the caller gives none
        # "nothing satisfying the pattern is omitted" needs every embedding; a cap that can be reached cuts some off (known finding K4)
        I_.ctx.oblige('no embedding is cut off: the cap on raw RDKit matches (maxMatches) cannot be reached', NMatch(mid) < z3_of(cap), site='GetSubstructMatches')
        return matches
    old_mol_attr = W_.abstract['Mol']['attr']
    W_.abstract['Mol'] = {'attr': lambda I_, m, nm: Builtin('GetSubstructMatches', gsm) if nm == 'GetSubstructMatches' else old_mol_attr(I_, m, nm)}
    W_.extern_truth['rdkit_matches'] = None
    # predicates of the three filters (closed formulas of the match number)
    P1 = lambda m: z3.And([BCPass(z3.IntVal(bc[2].fields['cid']), mid, MatchAt(mid, m, bc[0]), MatchAt(mid, m, bc[1])) for bc in bondcons])
    P2 = lambda m: z3.And([CPass(z3.IntVal(c.fields['cid']), mid, MatchAt(mid, m, qi)) for qi, cs in atomcons.items() for c in cs])
    P3 = lambda m: z3.And([SCPass(z3.IntVal(sc[4].fields['cid']), mid, MatchAt(mid, m, sc[0]), MatchAt(mid, m, sc[1]), MatchAt(mid, m, sc[2]), MatchAt(mid, m, sc[3]))
                           for sc in stereo]) if stereo else z3.BoolVal(True)
    Sel = [ctx.fresh_fn('Sel%d' % i, IS, IS) for i in (1, 2)]      # position in the previous list of the i-th kept element
    Len = [ctx.fresh('len%d' % i, 'int') for i in (1, 2)]
    for L in Len:
        ctx.assume(L >= 0)
    # index into the rdkit matches of the i-th element of each intermediate list
    idx0 = lambda i: i
    idx1 = lambda i: Sel[0](i)
    idx2 = lambda i: Sel[0](Sel[1](i))
    levels = [(matches.length, idx0, P1, 'bond constraints', 'matches1'), (Len[0], idx1, P2, 'atom constraints', 'matches2'),
              (Len[1], idx2, P3, 'stereo constraints', 'matches3')]
    i_ = z3.Int('i!f')
    ctx.assume_forall([i_], z3.Implies(z3.And(0 <= i_, i_ < Len[0]), z3.And(0 <= idx1(i_), idx1(i_) < matches.length, P1(idx1(i_)))), 'matches1 holds matches passing the bond constraints')
    ctx.assume_forall([i_], z3.Implies(z3.And(0 <= i_, i_ < Len[1]), z3.And(0 <= Sel[1](i_), Sel[1](i_) < Len[0], P2(idx2(i_)))), 'matches2 holds matches passing the atom constraints')
    built = {}

    def mk_loop(level):
        n_src, idxf, P, what, var = levels[level]
        src = SymSeq(n_src, lambda i: tuple(MatchAt(mid, idxf(i), q) for q in range(nq)), 'source%d' % level)

        def st(I_, j, env, it):
            fl = FilterList(src, P, j, var)
            env.local[var] = fl
            built[var] = fl
            for v in ('match_indice', 'bond_constraint', 'idx1', 'idx2', 'idx3', 'idx4', 'i', 'atom', 'atom_constraint', 'double_bond_stereo_constraint'):
                env.local.pop(v, None)
            ctx.instantiate([j, idxf(j)] if is_z3(j) else [])

        def inv(I_, j, env, it):
            cur = env.local.get(var)
            if isinstance(cur, list) and not cur:
                return [('%s starts empty' % var, z3.BoolVal(True))]
            if not isinstance(cur, FilterList):
                return [('%s is the filtered list' % var, z3.BoolVal(False))]
            j0 = cur.upto
            ctx.instantiate([j0, idxf(j0)])
            kept = len(cur.extra) == 1
            elem_ok = z3.BoolVal(True)
            if kept:
                e = cur.extra[0]
                elem_ok = z3.And([z3_of(e[q]) == MatchAt(mid, idxf(j0), q) for q in range(nq)]) if isinstance(e, tuple) and len(e) == nq else z3.BoolVal(False)
            return [('one iteration per match', j == j0 + 1),
                    ('the match is kept exactly when it satisfies all %s (and it is kept unchanged)' % what,
                     z3.And(z3.BoolVal(len(cur.extra) <= 1), z3.BoolVal(kept) == P(idxf(j0)), elem_ok))]
        return loops.for_rule(var, st, inv)
    # loop ordinals inside GetQueryMatches: 0 mol constraints (concrete list), 1 filter 1, 2 inner bond constraints (concrete), ...
    fn = source.find_function(MQ, 'MolQuery.GetQueryMatches')[2]
    ords = []
    for k, n_ in enumerate(W_.loops_of(fn)):
        tgt = n_.target.id if isinstance(n_, ast.For) and isinstance(n_.target, ast.Name) else None
        ords.append((k, tgt, ''))
    outer = [o_ for o_ in ords if o_[1] == 'match_indice']
    if len(outer) != 3:
        raise Unsupported('GetQueryMatches no longer has three filter loops over match_indice')
    for lvl, (ordn, _, _) in enumerate(outer):
        I.world.loop_specs[(MQ, 'MolQuery.GetQueryMatches', ordn)] = mk_loop(lvl)

    # iterating over an intermediate FilterList yields its elements
    def as_symseq(I_, v):
        if isinstance(v, FilterList):
            lvl = {'matches1': 1, 'matches2': 2}[v.label]
            n_src, idxf, P, what, var = levels[lvl]
            return SymSeq(n_src, lambda i: tuple(MatchAt(mid, idxf(i), q) for q in range(nq)), v.label)
        return World.as_symseq(W_, I_, v)
    W_.as_symseq = as_symseq
    W_.builtins = dict(W_.builtins)
    orig_tuple = W_.types['tuple'].conv
    W_.types['tuple'].conv = lambda I_, a, k: a[0] if a and isinstance(a[0], FilterList) else orig_tuple(I_, a, k)
    orig_len = W_.builtins['len']
    W_.builtins['len'] = Builtin('len', lambda I_, a, k: orig_len.fn(I_, a, k))
    _orig = ctx.fresh

    def fresh(name, sort):
        v = _orig(name, sort)
        if name.startswith('j_matches'):
            ctx.instantiate([v])
        return v
    ctx.fresh = fresh
    chem_ns = W_.externs['rdkit.Chem']
    out = run_target(I, MQ, 'MolQuery.GetQueryMatches', [chem.mol(mid0)], self_obj=o)
    allmc = z3.And([MCPass(z3.IntVal(c), mid) for c in range(nmc)]) if nmc else z3.BoolVal(True)
    writes = [e for e in ctx.effects if e[0].startswith('write')]
    ctx.oblige('pure: the query and the input molecule are not modified', z3.BoolVal(not writes))
    if out.kind == 'raise':
        check_outcome(I, out, raises={})
        return {'inputs': {}}
    r = out.value
    ps = []
    if calls:
        a, k = calls[0]
        ps.append(('substructure search of the query molecule with uniquify=False', z3.BoolVal(a[0] is qmol and k.get('uniquify') is False)))
    if isinstance(r, tuple) and len(r) == 0:
        ps.append(('() only if a molecule constraint fails or RDKit finds nothing', z3.Or(z3.Not(allmc), NMatch(mid) == 0)))
    elif isinstance(r, FilterList):
        ps.append(('a non-empty answer only if every molecule-level constraint holds (evaluated on the whole molecule with hydrogens)', allmc))
        ps.append(('result = matches3, all matches processed', z3.And(z3.BoolVal(r.label == 'matches3' and not r.extra), r.upto == Len[1])))
    else:
        ps.append(('result is a tuple of matches', z3.BoolVal(False)))
    for l, f in ps:
        ctx.oblige(l, f)
    return {'inputs': {}}


UNITS = [
    Unit('ConstraintNumber', (MQ, 'ConstraintNumber.__init__'), u_cn_init),
    Unit('AtomRadical.__call__', (MQ, 'AtomRadical.__call__'), simple_eval_unit('AtomRadical', lambda m, i, cn: cn(Rad(m, i)))),
    Unit('AtomIsInRing.__call__', (MQ, 'AtomIsInRing.__call__'), simple_eval_unit('AtomIsInRing', lambda m, i, cn: AInRing(m, i))),
    Unit('AtomIsAromatic.__call__', (MQ, 'AtomIsAromatic.__call__'), simple_eval_unit('AtomIsAromatic', lambda m, i, cn: Arom(m, i))),
    Unit('AtomIsAllylic.__call__', (MQ, 'AtomIsAllylic.__call__'), u_allylic),
    Unit('AtomRing.__call__', (MQ, 'AtomRing.__call__'), u_atomring),
    Unit('AtomNRing.__call__', (MQ, 'AtomNRing.__call__'), u_atomnring, replay_nring),
    Unit('BondQuery.__call__', (MQ, 'BondQuery.__call__'), u_bondquery),
    Unit('BondConstraint.__call__', (MQ, 'BondConstraint.__call__'), u_bondconstraint),
    Unit('AtomConnectivityAtom.__call__', (MQ, 'AtomConnectivityAtom.__call__'), u_connectivity),
    Unit('MolCharge.__call__', (MQ, 'MolCharge.__call__'), u_molcharge),
    Unit('MolQuery.GetQueryMatches', (MQ, 'MolQuery.GetQueryMatches'), u_getquerymatches, replay_cap),
]


# =================================================================================================================
# readers: translation table from syntax-tree shapes to constraint objects
PARSER = 'pgradd/RINGParser/Parser.py'
QAtom = BuiltinClass('QueryAtom')
PlainAtom = BuiltinClass('PlainAtom')
RWMolCls = BuiltinClass('RWMol')
ElementKnown = z3.Function('ElementKnown', z3.StringSort(), BS)
AtomicNumOf = z3.Function('AtomicNumOfSymbol', z3.StringSort(), IS)


def tok(name):
    return Obj(source.module(PARSER).classes['RINGToken'], {'name': name}, 'param')


def T(name, *children):
    return [tok(name)] + list(children)


def describe(v):
    """structure of a constraint / query object as nested tuples (for comparison with the denotation table)"""
    if isinstance(v, Obj):
        if v.cls is QAtom:
            return ('QAtom', v.fields['prim'], tuple(v.fields['expanded']))
        if v.cls is PlainAtom:
            return ('PlainAtom', v.fields['symbol'])
        if v.cls.name == 'ConstraintNumber':
            return ('CN', v.fields.get('operator'), v.fields.get('n'))
        if v.cls.name == 'BondQuery':
            return ('BondQuery', v.fields.get('RINGbondname'))
        if v.cls.name == 'BondConstraint':
            return ('BondConstraint', describe(v.fields.get('bondquery')))
        if v.cls.module is not None and v.cls.module.relpath == MQ:
            return (v.cls.name,) + tuple((k, describe(x)) for k, x in sorted(v.fields.items()))
        return ('obj', v.cls.name)
    if isinstance(v, (list, tuple)):
        return tuple(describe(x) for x in v)
    return v


def same_struct(a, b):
    if isinstance(a, tuple) and isinstance(b, tuple):
        if len(a) != len(b):
            return z3.BoolVal(False)
        cs = [same_struct(x, y) for x, y in zip(a, b)]
        return z3.And(cs) if cs else z3.BoolVal(True)
    if is_z3(a) or is_z3(b):
        try:
            return z3_of(a) == z3_of(b)
        except Exception:    # noqa
            return z3.BoolVal(False)
    return z3.BoolVal(type(a) is type(b) and a == b)


class RW(W):
    """world for the readers: rdqueries / Chem.Atom / RWMol as recording abstractions"""
    def __init__(self):
        W.__init__(self)
        mk = lambda name: Builtin('rdqueries.' + name, lambda I, a, k, name=name: Obj(QAtom, {'prim': (name,) + tuple(a), 'expanded': []}, 'fresh'))
        names = ['AtomNumGreaterQueryAtom', 'AtomNumEqualsQueryAtom', 'FormalChargeEqualsQueryAtom', 'TotalValenceEqualsQueryAtom', 'IsAromaticQueryAtom']
        self.externs['rdkit.Chem.rdqueries'] = Namespace('rdqueries', {n: mk(n) for n in names})
        ch = self.externs['rdkit.Chem']
        ch.members['rdqueries'] = self.externs['rdkit.Chem.rdqueries']
        ch.members['Atom'] = Builtin('Chem.Atom', self._atom)
        cq = Namespace('CompositeQueryType', {'COMPOSITE_OR': 'OR', 'COMPOSITE_AND': 'AND'})
        ch.members['rdchem'].members['CompositeQueryType'] = cq
        ch.members['GetPeriodicTable'] = Builtin('GetPeriodicTable', lambda I, a, k: Obj(BuiltinClass('PeriodicTable'), {}, 'param'))
        self.externs['rdkit.Chem.GetPeriodicTable'] = ch.members['GetPeriodicTable']
        self.abstract['PeriodicTable'] = {'attr': lambda I, o, n: Builtin('GetDefaultValence', lambda I2, a, k: z3.Function('DefaultValence', IS, IS)(z3_of(a[0]))) if n == 'GetDefaultValence' else NotImplementedVal}
        self.abstract['QueryAtom'] = {'attr': self._qattr}
        self.abstract['PlainAtom'] = {'attr': self._pattr}
        self.abstract['RWMol'] = {'attr': self._rwattr}
        self.extern_truth['RWMol'] = lambda I, o: True

    def _atom(self, I, a, k):
        s = z3_of(a[0])
        if I.ctx.branch(z3.Not(ElementKnown(s))):
            raise I.exc('RuntimeError', 'Element not found')
        return Obj(PlainAtom, {'symbol': a[0]}, 'fresh')

    def _qattr(self, I, o, name):
        if name == 'ExpandQuery':
            def f(I_, a, k):
                how = k.get('how', a[1] if len(a) > 1 else 'AND')
                o.fields['expanded'].append((how, describe(a[0])))
            return Builtin('QueryAtom.ExpandQuery', f)
        if name == 'GetAtomicNum':
            return Builtin('GetAtomicNum', lambda I_, a, k: z3.IntVal(0))
        return NotImplementedVal

    def _pattr(self, I, o, name):
        if name == 'GetAtomicNum':
            return Builtin('GetAtomicNum', lambda I_, a, k: AtomicNumOf(z3_of(o.fields['symbol'])))
        if name == 'SetIsAromatic':
            return Builtin('SetIsAromatic', lambda I_, a, k: o.fields.__setitem__('aromatic', a[0]))
        return NotImplementedVal      # in particular: a plain atom has no ExpandQuery

    def _rwattr(self, I, o, name):
        f = o.fields
        if name == 'AddAtom':
            def add(I_, a, k):
                f['atoms'].append(a[0])
                return len(f['atoms']) - 1
            return Builtin('RWMol.AddAtom', add)
        if name == 'AddBond':
            def addb(I_, a, k):
                i, j, t = a[0], a[1], a[2]
                if i == j or any({i, j} == {p, q} for p, q, _ in f['bonds']):
                    raise I_.exc('RuntimeError', 'Pre-condition Violation: bond already exists / self bond')
                f['bonds'].append((i, j, t))
            return Builtin('RWMol.AddBond', addb)
        if name == 'GetBondBetweenAtoms':
            def gb(I_, a, k):
                for p, q, t in f['bonds']:
                    if {p, q} == {a[0], a[1]}:
                        return Obj(BuiltinClass('QueryBond'), {'type': t}, 'param')
                return None
            return Builtin('RWMol.GetBondBetweenAtoms', gb)
        return NotImplementedVal


def rworld():
    return RW()


def mk_molquery(I, natoms=0):
    cls = source.module(MQ).classes['MolQuery']
    rw = Obj(RWMolCls, {'atoms': [Obj(QAtom, {'prim': ('pre', i), 'expanded': []}, 'param') for i in range(natoms)], 'bonds': []}, 'param')
    return Obj(cls, {'mol': rw, 'atom_names': ['pre%d' % i for i in range(natoms)], 'mol_constraints': [], 'atom_constraints': _defaultdict(I, [I.world.types['list']], {}),
                     'bond_constraints': [], 'double_bond_stereo_constraints': []}, 'fresh')



def mk_reader(I):
    cls = source.module(MQR).classes['MolQueryReader']
    return Obj(cls, {'tree': None, 'RINGgroups': None}, 'param')


def cn_tree(I, form):
    d = I.fresh('digit', 'int')
    if form == 'op':
        op = ['>', '=', '<', '>=', '<='][I.ctx.choose([True] * 5, 'operator')]
        return T('ConstraintNumber', op, d), ('CN', op, d)
    return T('ConstraintNumber', d), ('CN', '=', d)


def u_read_simple_constraints(I):
    """in ring of size / has n radical electrons / in n ring: [Boolean] ConstraintNumber"""
    ctx = I.ctx
    which, clsname = [('ReadAtomConstraintRing', 'AtomRing'), ('ReadAtomConstraintRadical', 'AtomRadical'), ('ReadAtomConstraintNRing', 'AtomNRing')][ctx.choose([True] * 3, 'reader')]
    boolean = [None, '!', '||'][ctx.choose([True] * 3, 'Boolean')]
    cnt, cnd = cn_tree(I, ['op', 'bare'][ctx.choose([True, True], 'number form')])
    tree = ([T('Boolean', boolean)] if boolean else []) + [cnt]
    out = run_target(I, MQR, 'MolQueryReader.' + which, [tree], self_obj=mk_reader(I))
    field = {'AtomRing': 'ring_sizeCN', 'AtomRadical': 'CN', 'AtomNRing': 'NringCN'}[clsname]
    want = (clsname,) + tuple(sorted([(field, cnd), ('negate', boolean == '!')]))
    check_outcome(I, out, raises={'NotImplementedError': z3.BoolVal(boolean == '||')},
                  returns=lambda r: [("'!' negates, the number is read as written (bare number means '=')", same_struct(describe(r), want))])
    return {'inputs': {}}


def u_read_connectivity(I):
    ctx = I.ctx
    boolean = [None, '!', '&&'][ctx.choose([True] * 3, 'Boolean')]
    cnform = [None, 'op', 'bare'][ctx.choose([True] * 3, 'number')]
    target = ['AtomType', 'GroupName'][ctx.choose([True, True], 'target')]
    bondk = [None, 'double', 'any'][ctx.choose([True] * 3, 'bond')]
    tree = []
    if boolean:
        tree.append(T('Boolean', boolean))
    cnd = ('CN', '>=', 1)
    if cnform:
        cnt, cnd = cn_tree(I, cnform)
        tree.append(cnt)
    atype = T('AtomType', T('Symbols', 'C'))
    tree.append(atype if target == 'AtomType' else T('GroupName', I.fresh('group', 'str')))
    if bondk:
        tree.append(T('BondType', bondk))
    qa = Obj(QAtom, {'prim': ('from-ReadAtomType',), 'expanded': []}, 'param')
    nested = [Obj(AbsConstraint, {'cid': 5}, 'param')]
    seen = []
    I.world.contracts[(MQR, 'MolQueryReader.ReadAtomType')] = lambda I_, a, k: (seen.append(a[1]), (qa, nested))[1]
    out = run_target(I, MQR, 'MolQueryReader.ReadAtomConstraintConnectivity', [tree], self_obj=mk_reader(I))
    if boolean == '&&':
        check_outcome(I, out, raises={'NotImplementedError': z3.BoolVal(True)})
        return {'inputs': {}}
    if target == 'GroupName':
        check_outcome(I, out, raises={'RINGReaderError': z3.BoolVal(True)}, returns=lambda r: [('group connectivity without group definitions is an error', z3.BoolVal(False))])
        return {'inputs': {}}

    def posts(r):
        if not (isinstance(r, Obj) and r.cls.name == 'AtomConnectivityAtom'):
            return [('builds an AtomConnectivityAtom', z3.BoolVal(False))]
        f = r.fields
        return [("'!' negates", z3.BoolVal(f.get('negate') is (boolean == '!'))),
                ("count constraint as written, default '>=1'", same_struct(describe(f.get('ConstraintNumber')), cnd)),
                ("bond kind as written, default 'single'", same_struct(describe(f.get('bondquery')), ('BondQuery', bondk or 'single'))),
                ('neighbour element and nested constraints come from the atom type', z3.BoolVal(f.get('connected') is qa and f.get('constraints') is nested
                                                                                                   and len(seen) == 1 and seen[0] == atype[1:]))]
    check_outcome(I, out, raises={}, returns=posts)
    return {'inputs': {}}


SUFFIX = {'+.': (1, ('FormalChargeEqualsQueryAtom', 1)), '-.': (1, ('FormalChargeEqualsQueryAtom', -1)), '+': (None, ('FormalChargeEqualsQueryAtom', 1)),
          '-': (None, ('FormalChargeEqualsQueryAtom', -1)), '.': (1, None), ':': (2, None), ':.': (3, None), '?': (None, None)}


def u_read_suffix(I):
    ctx = I.ctx
    sfx = list(SUFFIX)[ctx.choose([True] * len(SUFFIX), 'suffix')]
    a = Obj(QAtom, {'prim': ('AtomNumEqualsQueryAtom', 6), 'expanded': []}, 'param')
    out = run_target(I, MQR, 'MolQueryReader.ReadAtomSuffix', [[sfx], a], self_obj=mk_reader(I))
    rad, chg = SUFFIX[sfx]

    def posts(r):
        want_c = None if rad is None else ('AtomRadical', ('CN', ('CN', '=', rad)), ('negate', False))
        want_e = () if chg is None else (('AND', ('QAtom', chg, ())),)
        return [('radical suffix table: . -> 1, : -> 2, :. -> 3, +./-. -> 1, others none', same_struct(describe(r), want_c) if want_c else z3.BoolVal(r is None)),
                ('charge suffix table: + -> +1, - -> -1, others unconstrained', same_struct(tuple(a.fields['expanded']), want_e))]
    check_outcome(I, out, raises={}, returns=posts)
    return {'inputs': {}}


def u_read_atomtype(I):
    ctx = I.ctx
    prefix = [None, 'aromatic', 'nonaromatic', 'ringatom', 'nonringatom', 'allylic'][ctx.choose([True] * 6, 'prefix')]
    has_sfx = ctx.choose([True, True], 'suffix present')
    tree = ([T('AtomPrefix', prefix)] if prefix else []) + [T('Symbols', 'C')] + ([T('AtomSuffix', '.')] if has_sfx else [])
    qa = Obj(QAtom, {'prim': ('AtomNumEqualsQueryAtom', 6), 'expanded': []}, 'param')
    sfxc = Obj(AbsConstraint, {'cid': 9}, 'param')
    I.world.contracts[(MQR, 'MolQueryReader.ReadSymbols')] = lambda I_, a, k: qa
    I.world.contracts[(MQR, 'MolQueryReader.ReadAtomSuffix')] = lambda I_, a, k: sfxc
    out = run_target(I, MQR, 'MolQueryReader.ReadAtomType', [tree], self_obj=mk_reader(I))
    ptab = {'aromatic': ('AtomIsAromatic', ('negate', False)), 'nonaromatic': ('AtomIsAromatic', ('negate', True)),
            'ringatom': ('AtomIsInRing', ('negate', False)), 'nonringatom': ('AtomIsInRing', ('negate', True)), 'allylic': ('AtomIsAllylic', ('negate', False))}

    def posts(r):
        if not (isinstance(r, tuple) and len(r) == 2):
            return [('returns (atom, constraints)', z3.BoolVal(False))]
        at, cons = r
        ps = [('the atom is the one built from the symbol', z3.BoolVal(at is qa))]
        want = []
        if prefix:
            want.append(ptab[prefix])
        if has_sfx:
            ps.append(('with a suffix the charge/radical state comes from the suffix only', z3.BoolVal(cons[-1:] == [sfxc] and not qa.fields['expanded'])))
            ps.append(('prefix table', same_struct(describe(cons[:-1]), tuple(want))))
        else:
            want.append(('AtomRadical', ('CN', ('CN', '=', 0)), ('negate', False)))
            ps.append(('without a suffix: formal charge 0 and no radical electrons', z3.And(same_struct(describe(cons), tuple(want)),
                       same_struct(tuple(qa.fields['expanded']), (('AND', ('QAtom', ('FormalChargeEqualsQueryAtom', 0), ())),)))))
        return ps
    check_outcome(I, out, raises={}, returns=posts)
    return {'inputs': {}}


def u_read_symbols(I):
    ctx = I.ctx
    cases = [('any atom', ('AtomNumGreaterQueryAtom', 0), ()), ('$', ('AtomNumGreaterQueryAtom', 0), ()), ('heavy atom', ('AtomNumGreaterQueryAtom', 1), ()),
             ('X', ('AtomNumGreaterQueryAtom', 1), ()), ('M', ('AtomNumGreaterQueryAtom', 19), ()),
             ('heteroatom', ('AtomNumEqualsQueryAtom', 7), ('N,O,P,S',)), ('&', ('AtomNumEqualsQueryAtom', 7), ('N,O,P,S',))]
    k = ctx.choose([True] * (len(cases) + 2), 'symbol')
    rd = mk_reader(I)
    if k < len(cases):
        sym, prim, extra = cases[k]
        out = run_target(I, MQR, 'MolQueryReader.ReadSymbols', [[sym]], self_obj=rd)

        def posts(r):
            d = describe(r)
            ps = [('symbol class %r -> primitive query' % sym, same_struct(d[:2], ('QAtom', prim)))]
            if extra:
                ps.append(('heteroatom = N or O or P or S', same_struct(d[2], tuple(('OR', ('QAtom', ('AtomNumEqualsQueryAtom', z), ())) for z in (8, 15, 16)))))
            else:
                ps.append(('nothing else is required of the atom', z3.BoolVal(d[2] == ())))
            return ps
        check_outcome(I, out, raises={}, returns=posts)
        return {'inputs': {}}
    lower = (k == len(cases))
    sym = 'c' if lower else 'Cl'
    out = run_target(I, MQR, 'MolQueryReader.ReadSymbols', [[sym]], self_obj=rd)
    z = AtomicNumOf(z3.StringVal('C' if lower else 'Cl'))
    known = ElementKnown(z3.StringVal('C' if lower else 'Cl'))

    def posts2(r):
        d = describe(r)
        ps = [('an element symbol becomes the query "atomic number == Z(symbol)" (a query atom, so that suffixes can be added)',
               same_struct(d[:2], ('QAtom', ('AtomNumEqualsQueryAtom', z))))]
        if lower:
            ps.append(('lower case = aromatic atom of that element', same_struct(d[2], (('AND', ('QAtom', ('IsAromaticQueryAtom',), ())),))))
        else:
            ps.append(('nothing else is required of the atom', z3.BoolVal(d[2] == ())))
        return ps
    check_outcome(I, out, raises={'RINGReaderError': z3.Not(known)}, returns=posts2)
    return {'inputs': {}}


def u_read_bondtype(I):
    ctx = I.ctx
    kinds = ['single', 'double', 'triple', 'quadruple', 'aromatic', 'ring', 'nonring', 'any', 'strong', 'partial', 'bogus']
    kind = kinds[ctx.choose([True] * len(kinds), 'bond kind')]
    mq = mk_molquery(I, 3)
    prior = ctx.choose([True, True, True], 'situation')      # 0: fresh pair, 1: bond already declared, 2: self bond
    if prior == 1:
        mq.fields['mol'].fields['bonds'].append((0, 2, 'x'))
    i, j = (2, 0) if prior != 2 else (1, 1)
    out = run_target(I, MQR, 'MolQueryReader.ReadBondTypeBondedAtom', [i, j, kind, mq], self_obj=mk_reader(I))
    typed = {'single': 'SINGLE', 'double': 'DOUBLE', 'triple': 'TRIPLE', 'quadruple': 'QUADRUPLE', 'aromatic': 'AROMATIC'}
    if prior:
        check_outcome(I, out, raises={'RINGReaderError': z3.BoolVal(True)}, returns=lambda r: [('a repeated bond / self bond is rejected', z3.BoolVal(False))])
        return {'inputs': {}}

    def posts(r):
        b = mq.fields['mol'].fields['bonds']
        bc = mq.fields['bond_constraints']
        if len(b) != 1:
            return [('exactly one bond added between the two atoms', z3.BoolVal(False))]
        code = b[0][2].fields['code'] if isinstance(b[0][2], Obj) else None
        want = BOND_CODES[typed[kind]] if kind in typed else BOND_CODES['UNSPECIFIED']
        ps = [('bond added between the declared atoms', z3.BoolVal({b[0][0], b[0][1]} == {0, 2})),
              ('typed kinds become typed query bonds, the others an unspecified bond', code == want if code is not None else z3.BoolVal(False))]
        if kind in ('ring', 'nonring', 'strong', 'partial'):
            ps.append(('... plus a bond constraint of that kind on the same atom pair',
                       z3.BoolVal(len(bc) == 1 and bc[0][:2] == [2, 0]) and same_struct(describe(bc[0][2]), ('BondConstraint', ('BondQuery', kind)))))
        else:
            ps.append(('no extra bond constraint', z3.BoolVal(bc == [])))
        return ps
    check_outcome(I, out, raises={'NotImplementedError': z3.BoolVal(kind == 'bogus')}, returns=posts)
    return {'inputs': {}}


def u_read_atoms(I):
    """ReadAtom / ReadBondedAtom / ReadRingBond: constraints go to the index of the atom just added, labels resolve to the
    first atom declared with that label, an undefined label is a RINGReaderError"""
    ctx = I.ctx
    which = ['ReadAtom', 'ReadBondedAtom', 'ReadBondedAtom-undefined', 'ReadRingBond', 'ReadRingBond-undefined'][ctx.choose([True] * 5, 'reader')]
    with_chain = ctx.choose([True, True], 'constraint chain')
    mq = mk_molquery(I, 2)
    mq.fields['atom_names'] = ['c1', 'c2']
    qa = Obj(QAtom, {'prim': ('new',), 'expanded': []}, 'param')
    c1, c2 = Obj(source.module(MQ).classes['AtomIsInRing'], {'negate': False}, 'param'), Obj(source.module(MQ).classes['AtomIsAromatic'], {'negate': True}, 'param')
    I.world.contracts[(MQR, 'MolQueryReader.ReadAtomType')] = lambda I_, a, k: (qa, [c1, c2])
    chain_calls, bond_calls = [], []
    I.world.contracts[(MQR, 'MolQueryReader.ReadAtomConstraintChain')] = lambda I_, a, k: chain_calls.append(tuple(a[1:]))
    I.world.contracts[(MQR, 'MolQueryReader.ReadBondTypeBondedAtom')] = lambda I_, a, k: bond_calls.append(tuple(a[1:]))
    chain = T('AtomConstraintChain', T('AtomConstraints'))
    at = T('AtomType', T('Symbols', 'C'))
    rd = mk_reader(I)
    if which == 'ReadAtom':
        tree = [at, T('AtomLabel', 'c3')] + ([chain] if with_chain else [])
        out = run_target(I, MQR, 'MolQueryReader.ReadAtom', [tree, mq], self_obj=rd)
    elif which.startswith('ReadBondedAtom'):
        target = 'c2' if which == 'ReadBondedAtom' else 'zz'
        tree = [at, T('AtomLabel', 'c3'), T('BondType', 'double'), T('AtomLabel', target)] + ([chain] if with_chain else [])
        out = run_target(I, MQR, 'MolQueryReader.ReadBondedAtom', [tree, mq], self_obj=rd)
    else:
        target = 'c2' if which == 'ReadRingBond' else 'zz'
        tree = [T('AtomLabel', 'c1'), T('BondType', 'single'), T('AtomLabel', target)]
        out = run_target(I, MQR, 'MolQueryReader.ReadRingBond', [tree, mq], self_obj=rd)
    if which.endswith('undefined'):
        check_outcome(I, out, raises={'RINGReaderError': z3.BoolVal(True)}, returns=lambda r: [('an undefined label is an error', z3.BoolVal(False))])
        return {'inputs': {}}

    def posts(r):
        f = mq.fields
        if which == 'ReadRingBond':
            return [('ring bond between the two labelled atoms with the declared kind', z3.BoolVal(bond_calls == [(0, 1, 'single', mq)])),
                    ('no atom added', z3.BoolVal(len(f['mol'].fields['atoms']) == 2 and f['atom_names'] == ['c1', 'c2']))]
        ps = [('the atom is appended to the query molecule and its label recorded in declaration order',
               z3.BoolVal(len(f['mol'].fields['atoms']) == 3 and f['mol'].fields['atoms'][2] is qa and f['atom_names'] == ['c1', 'c2', 'c3'])),
              ('its type constraints are attached to the index of the atom just added', z3.BoolVal(f['atom_constraints'].get(2) == [c1, c2] and list(f['atom_constraints']) == [2])),
              ('its constraint chain is read for the same index', z3.BoolVal(chain_calls == ([(chain[1:], mq, 2)] if with_chain else [])))]
        if which == 'ReadBondedAtom':
            ps.append(('bonded to the atom carrying the target label, with the declared kind', z3.BoolVal(bond_calls == [(2, 1, 'double', mq)])))
        return ps
    check_outcome(I, out, raises={}, returns=posts)
    return {'inputs': {}}


def u_read_prefix(I):
    ctx = I.ctx
    a = [None, 'positive', 'negative', 'neutral'][ctx.choose([True] * 4, 'charge')]
    b = [None, 'aromatic', 'olefinic', 'paraffinic'][ctx.choose([True] * 4, 'kind')]
    c = [None, 'cyclic', 'linear'][ctx.choose([True] * 3, 'shape')]
    tree = [x for x in (a, b, c) if x]
    if not tree:
        return {'inputs': {}}
    mq = mk_molquery(I, 0)
    out = run_target(I, MQR, 'MolQueryReader.ReadMolQueryPrefix', [tree, mq], self_obj=mk_reader(I))
    want = []
    if a:
        want.append(('MolCharge', ('ConstraintNumber', ('CN', '=', {'positive': 1, 'negative': -1, 'neutral': 0}[a]))))
    if b:
        want.append(({'aromatic': 'MolAromatic', 'olefinic': 'MolOlefinic', 'paraffinic': 'MolParaffinic'}[b],))
    if c:
        want.append(({'cyclic': 'MolCyclic', 'linear': 'MolLinear'}[c],))
    check_outcome(I, out, raises={}, returns=lambda r: [('molecule prefix table', same_struct(describe(mq.fields['mol_constraints']), tuple(want)))])
    return {'inputs': {}}


READER_UNITS = [
    Unit('MolQueryReader.ReadAtomConstraintRing/Radical/NRing', (MQR, 'MolQueryReader.ReadAtomConstraintRing'), u_read_simple_constraints),
    Unit('MolQueryReader.ReadAtomConstraintConnectivity', (MQR, 'MolQueryReader.ReadAtomConstraintConnectivity'), u_read_connectivity),
    Unit('MolQueryReader.ReadAtomSuffix', (MQR, 'MolQueryReader.ReadAtomSuffix'), u_read_suffix),
    Unit('MolQueryReader.ReadAtomType', (MQR, 'MolQueryReader.ReadAtomType'), u_read_atomtype),
    Unit('MolQueryReader.ReadSymbols', (MQR, 'MolQueryReader.ReadSymbols'), u_read_symbols),
    Unit('MolQueryReader.ReadBondTypeBondedAtom', (MQR, 'MolQueryReader.ReadBondTypeBondedAtom'), u_read_bondtype),
    Unit('MolQueryReader.ReadAtom/ReadBondedAtom/ReadRingBond', (MQR, 'MolQueryReader.ReadBondedAtom'), u_read_atoms),
    Unit('MolQueryReader.ReadMolQueryPrefix', (MQR, 'MolQueryReader.ReadMolQueryPrefix'), u_read_prefix),
]
for _u in READER_UNITS:
    _u.world_factory = rworld
UNITS += READER_UNITS

from . import standins
STANDINS = [standins.c08_matcher]

PROBES = [chem.probe_bond_codes]
# the double-bond stereo constraint (its own module: also part of C03)
from . import C03stereo as _stereo
UNITS += _stereo.UNITS
PROBES += _stereo.PROBES
