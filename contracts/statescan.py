"""Syntactic inventory of the places where pgradd code writes state that outlives a call and is shared between objects or calls:
module-level containers, class-level containers, rebinding of globals / class attributes, mutable default arguments (mutated, or bound
to an instance attribute that is later updated in place).  Used by C15: the inventory of the unchanged tree is the allow-list (each site
read and justified below); a NEW site is not a violation by itself (a transparent cache is fine) but makes the frame argument of C15
undecided until the site is looked at -- the operation-histories stand-in is what refutes a harmful one."""
import ast
import os

MUT = {'append', 'extend', 'insert', 'remove', 'pop', 'clear', 'sort', 'reverse', 'add', 'discard', 'update', 'setdefault', 'popitem', '__setitem__',
       'appendleft', 'popleft', 'cache_clear'}
CACHE_DECORATORS = ('lru_cache', 'cache', 'cached_property', 'memoize')

# site -> why it does not break history-independence on the unchanged tree
ALLOWED = {
    ('pgradd/GroupAdd/DataDir.py', 'get_data_dir', 'global _data_dir_cached rebound'):
        'memo of the data directory: the environment override is read ONCE per process, at the first use (C14 unit get_data_dir); a relocated copy has '
        'identical contents (C14 data obligation), so which copy is read does not change any result',
    ('pgradd/GroupAdd/Library.py', 'GroupLibrary.register_property_set_type', 'class container cls._property_set_estimator_types (item)'):
        'registry filled once at import of pgradd.ThermoChem',
    ('pgradd/GroupAdd/Library.py', 'GroupLibrary.register_property_set_type', 'class container cls._property_set_group_yaml_types (item)'):
        'registry filled once at import of pgradd.ThermoChem',
    ('pgradd/GroupAdd/Library.py', 'GroupLibrary.__init__', 'attribute self.uq_contents bound to the mutable default argument uq_contents'):
        'the shared {} is only ever REPLACED (Update rebinds self.uq_contents), never updated in place: C15 unit GroupLibrary.Update [frame]',
}
for _a in ('smarts_based_descriptors', 'smiles_based_descriptors'):
    ALLOWED[('pgradd/GroupAdd/Scheme.py', 'GroupAdditivityScheme.__init__', 'attribute self.%s bound to the mutable default argument %s' % (_a, _a))] = \
        'only ever rebound, never updated in place (no in-place update of self.%s anywhere in the package: checked by this scan); the four ' \
        'containers that ARE extended in place by include= are copies since fix F34' % _a


def is_mutable_ctor(v):
    if isinstance(v, (ast.Dict, ast.List, ast.Set, ast.ListComp, ast.DictComp, ast.SetComp)):
        return True
    if isinstance(v, ast.Call):
        f = v.func
        n = f.id if isinstance(f, ast.Name) else (f.attr if isinstance(f, ast.Attribute) else '')
        return n in ('dict', 'list', 'set', 'defaultdict', 'OrderedDict', 'Counter', 'deque')
    return False


def scan(root):
    sites = set()
    shared_attrs = set()          # attribute names that are bound to a mutable default argument somewhere
    trees = []
    for dp, dn, fn in os.walk(os.path.join(root, 'pgradd')):
        if os.sep + 'tests' in dp or os.sep + 'data' in dp:
            continue
        for f in sorted(fn):
            if f.endswith('.py'):
                p = os.path.join(dp, f)
                trees.append((os.path.relpath(p, root), ast.parse(open(p, encoding='utf-8').read())))
    trees.sort()

    def functions(tree):
        for st in tree.body:
            if isinstance(st, ast.FunctionDef):
                yield st, st.name, None
            if isinstance(st, ast.ClassDef):
                for b in st.body:
                    if isinstance(b, ast.FunctionDef):
                        yield b, st.name + '.' + b.name, st.name
    for rel, tree in trees:
        for fn_, qual, cname in functions(tree):
            args = fn_.args.args
            defaults = {a.arg for a, d in zip(args[len(args) - len(fn_.args.defaults):], fn_.args.defaults) if is_mutable_ctor(d)}
            defaults |= {a.arg for a, d in zip(fn_.args.kwonlyargs, fn_.args.kw_defaults) if d is not None and is_mutable_ctor(d)}
            for n in ast.walk(fn_):
                if isinstance(n, ast.Assign) and isinstance(n.value, ast.Name) and n.value.id in defaults:
                    for t in n.targets:
                        if isinstance(t, ast.Attribute):
                            sites.add((rel, qual, 'attribute %s bound to the mutable default argument %s' % (ast.unparse(t), n.value.id)))
                            shared_attrs.add(t.attr)
    for rel, tree in trees:
        modc = {t.id for st in tree.body if isinstance(st, ast.Assign) and is_mutable_ctor(st.value) for t in st.targets if isinstance(t, ast.Name)}
        clsc = {st.name: {t.id for b in st.body if isinstance(b, ast.Assign) and is_mutable_ctor(b.value) for t in b.targets if isinstance(t, ast.Name)}
                for st in tree.body if isinstance(st, ast.ClassDef)}
        for fn_, qual, cname in functions(tree):
            args = fn_.args.args
            defaults = {a.arg for a, d in zip(args[len(args) - len(fn_.args.defaults):], fn_.args.defaults) if is_mutable_ctor(d)}
            globals_ = {nm for g in ast.walk(fn_) if isinstance(g, ast.Global) for nm in g.names}
            for d in fn_.decorator_list:
                dn = ast.unparse(d)
                if any(c in dn for c in CACHE_DECORATORS):
                    sites.add((rel, qual, 'memoising decorator @%s' % dn))
            for n in ast.walk(fn_):
                hits = []
                if isinstance(n, ast.Call) and isinstance(n.func, ast.Attribute) and n.func.attr in MUT:
                    hits.append((n.func.value, n.func.attr))
                elif isinstance(n, (ast.Assign, ast.AugAssign, ast.Delete)):
                    ts = n.targets if isinstance(n, (ast.Assign, ast.Delete)) else [n.target]
                    for t in ts:
                        if isinstance(t, ast.Subscript):
                            hits.append((t.value, 'item'))
                        elif isinstance(t, ast.Attribute) and isinstance(t.value, ast.Name) and (t.value.id == 'cls' or t.value.id in clsc):
                            sites.add((rel, qual, 'class attribute %s.%s rebound' % (t.value.id, t.attr)))
                        elif isinstance(t, ast.Name) and t.id in globals_:
                            sites.add((rel, qual, 'global %s rebound' % t.id))
                for tgt, how in hits:
                    if isinstance(tgt, ast.Name):
                        if tgt.id in modc:
                            sites.add((rel, qual, 'module container %s (%s)' % (tgt.id, how)))
                        if tgt.id in defaults:
                            sites.add((rel, qual, 'mutable default argument %s (%s)' % (tgt.id, how)))
                    elif isinstance(tgt, ast.Attribute) and isinstance(tgt.value, ast.Name):
                        owner, attr = tgt.value.id, tgt.attr
                        if owner == 'cls' or owner in clsc:
                            sites.add((rel, qual, 'class container %s.%s (%s)' % (owner, attr, how)))
                        elif owner == 'self' and cname and attr in clsc.get(cname, ()):
                            sites.add((rel, qual, 'class-level container reached through self.%s (%s)' % (attr, how)))
                        elif attr in shared_attrs:
                            sites.add((rel, qual, 'in-place update of %s.%s, an attribute that can be a shared mutable default (%s)' % (owner, attr, how)))
                    elif isinstance(tgt, ast.Attribute) and isinstance(tgt.value, ast.Attribute) and tgt.attr in shared_attrs:
                        sites.add((rel, qual, 'in-place update of %s, an attribute that can be a shared mutable default (%s)' % (ast.unparse(tgt), how)))
    return sorted(sites)
