"""Abstract state shared by the contracts on pgradd/ThermoChem/group_data.py and GroupAdd/Library.py:
group correlations as abstract objects (their own contracts are proved in C05/C06), descriptor->count mappings
and libraries of symbolic size."""
import z3

from pyvc import source, loops
from pyvc.engine import Obj, Builtin, SymSeq, NotImplementedVal, Unsupported, is_z3, z3_of
from pyvc.source import BuiltinClass
from .common import ThermoWorld, error_class

IS, RS, BS = z3.IntSort(), z3.RealSort(), z3.BoolSort()
GD = 'pgradd/ThermoChem/group_data.py'
LIB = 'pgradd/GroupAdd/Library.py'

# abstract correlation (one group's ThermochemIncomplete): value or IncompleteDataError per property and T
Val = {X: z3.Function('Val' + X, IS, RS, RS) for X in ('CpoR', 'HoRT', 'SoR')}
Raises = {X: z3.Function('Raises' + X, IS, RS, BS) for X in ('CpoR', 'HoRT', 'SoR')}
HasRange = z3.Function('HasRange', IS, BS)
Lo = z3.Function('Lo', IS, RS)
Hi = z3.Function('Hi', IS, RS)
# mapping descriptor -> count, library
Key = z3.Function('Key', IS, IS)          # i-th key of the groups mapping (a descriptor id)
Count = z3.Function('Count', IS, RS)      # groups[descriptor]
CorrOf = z3.Function('CorrOf', IS, IS)    # id of the correlation lib[descriptor]['thermochem']
HasThermo = z3.Function('HasThermo', IS, BS)   # 'thermochem' in lib[descriptor]

HasCp = z3.Function('HasCpData', z3.IntSort(), z3.BoolSort())      # the correlation has a heat-capacity table
CorrCls = BuiltinClass('Corr')
GroupCls = BuiltinClass('DescriptorKey')
MapCls = BuiltinClass('GroupsMapping')
LibCls = BuiltinClass('GroupLibraryAbs')
PropSetsCls = BuiltinClass('PropertySets')


def corr(cid):
    return Obj(CorrCls, {'cid': cid}, origin='param')


def corr_attr(I, o, name):
    cid = o.fields['cid']
    for X in ('CpoR', 'HoRT', 'SoR'):
        if name == 'get_' + X:
            def f(I, a, k, X=X):
                T = z3_of(a[0])
                T = z3.ToReal(T) if z3.is_int(T) else T
                if I.ctx.branch(Raises[X](cid, T)):
                    raise I.exc('IncompleteDataError', 'no data')
                return Val[X](cid, T)
            return Builtin('Corr.get_' + X, f)
    if name == 'has_ND_Cp':
        return Builtin('Corr.has_ND_Cp', lambda I, a, k: HasCp(cid))
    if name == 'get_range':
        def g(I, a, k):
            if I.ctx.branch(HasRange(cid)):
                I.ctx.assume(Lo(cid) <= Hi(cid))
                return (Lo(cid), Hi(cid))
            return None
        return Builtin('Corr.get_range', g)
    return NotImplementedVal


def key_obj(gid):
    return Obj(GroupCls, {'gid': gid}, origin='param')


def map_symseq(I, m):
    n = m.fields['n']
    return SymSeq(n, lambda i: key_obj(Key(i)), 'keys(groups)', origin='param')


def map_index(I, m, k):
    if isinstance(k, Obj) and k.cls is GroupCls:
        return Count(k.fields['gid'])
    raise Unsupported('groups[...] with a non-descriptor key')


def lib_index(I, lib, k):
    if isinstance(k, Obj) and k.cls is GroupCls:
        return Obj(PropSetsCls, {'gid': k.fields['gid']}, origin='param')
    raise Unsupported('lib[...] with a non-descriptor key')


def propsets_index(I, p, name):
    gid = p.fields['gid']
    if name == 'thermochem':
        if I.ctx.branch(HasThermo(gid)):
            return corr(CorrOf(gid))
        raise I.exc('KeyError', 'thermochem')
    raise I.exc('KeyError', name)


def propsets_contains(I, p, name):
    if name == 'thermochem':
        return HasThermo(p.fields['gid'])
    return False


def lib_attr(I, lib, name):
    return NotImplementedVal


class GDWorld(ThermoWorld):
    def __init__(self):
        ThermoWorld.__init__(self)
        self.abstract['Corr'] = {'attr': corr_attr}
        self.abstract['GroupsMapping'] = {'symseq': map_symseq, 'index': map_index}
        self.abstract['GroupLibraryAbs'] = {'index': lib_index, 'attr': lib_attr}
        self.abstract['PropertySets'] = {'index': propsets_index, 'contains': propsets_contains}
        self.fold_hook = loops.fold_hook
        self.abstract['ContentsMap'] = {'attr': contents_attr}


# ---- library object (real class GroupLibrary, abstract contents) -------------------------------------
ContentsCls = BuiltinClass('ContentsMap')


def contents_attr(I, o, name):
    if name == 'get':
        def f(I, a, k):
            key = a[0]
            if isinstance(key, Obj) and key.cls is GroupCls:
                return Obj(PropSetsCls, {'gid': key.fields['gid']}, origin='param')
            raise Unsupported('contents.get with a non-descriptor key')
        return Builtin('contents.get', f)
    return NotImplementedVal


def mk_lib(I, uq=None, with_name=True):
    cls = source.module(LIB).classes['GroupLibrary']
    fields = {'scheme': Obj(BuiltinClass('SchemeAbs'), {}, 'param'), 'path': None,
              'contents': Obj(ContentsCls, {}, 'param'), 'uq_contents': uq if uq is not None else {}}
    if with_name:
        fields['name'] = I.fresh('lib_name', 'str')
    return Obj(cls, fields, origin='param')


def mk_groups(I):
    n = I.fresh('n_groups', 'int')
    I.ctx.assume(n >= 0)
    i, j = z3.Int('i!k'), z3.Int('j!k')
    I.ctx.assume_forall([i, j], z3.Implies(z3.And(0 <= i, i < j, j < n), Key(i) != Key(j)), 'mapping keys are distinct')
    return Obj(MapCls, {'n': n}, origin='param'), n


def install(world):
    world.abstract['ContentsMap'] = {'attr': contents_attr}
