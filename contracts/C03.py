"""C03 -- Descriptors do not depend on how the molecule is written.

A relational property across RDKit's SMILES parser.  What contracts decide is that every order-sensitive mechanism of the
Python code is order-free, so that the C02 postcondition is a function of the molecular graph: both input forms reach the
same normalised state (GetDescriptors), match de-duplication is by atom *set*, centre assignment has the same outcome for
every iteration order of the match sets (proved with set iteration as an arbitrary permutation), and the aromatic
perception of one ring depends on the pre-state only.  Equivariance of RDKit's own functions under renumbering is assumed.
Known finding K2: for two six-rings sharing a bond the perception is NOT order-free."""
import z3

from pyvc import source
from pyvc.engine import Obj, Builtin, Unsupported, NotImplementedVal, is_z3, z3_of
from pyvc.source import BuiltinClass
from pyvc.verify import Unit, run_target
from . import C02, chem, standins
from .chem import BOND_CODES, bondtype
from .spec import check_outcome

PROPERTY = 'C03'
LEVEL = 'other'
EXPLANATION = C02.EXPLANATION + '; invariance under re-spelling is checked end-to-end by the bounded stand-in (random SMILES, explicit H, Kekule form, molecule object)'
SCHEME = C02.SCHEME
TRUSTED = C02.TRUSTED + ['RDKit: parsing, AddHs, Kekulize, GetSymmSSSR and substructure search are equivariant under atom renumbering (assumed)']


def world():
    return C02.W()


def u_ring_order(I):
    """two six-carbon rings sharing a bond, visited in both orders: the set of atoms/bonds marked aromatic must be the same"""
    ctx = I.ctx
    W_ = I.world
    A, B = (0, 1, 2, 3, 4, 5), (4, 5, 6, 7, 8, 9)
    bonds = [(A[i], A[(i + 1) % 6]) for i in range(6)] + [(B[i], B[(i + 1) % 6]) for i in range(6)]
    keys = sorted(set(tuple(sorted(b)) for b in bonds))
    bt = {k: I.fresh('bond_%d_%d' % k, 'int') for k in keys}
    for v in bt.values():
        ctx.assume(z3.Or(v == BOND_CODES['SINGLE'], v == BOND_CODES['DOUBLE']))      # Kekule form
    ch = W_.externs['rdkit.Chem'].members
    RAtom, RBond, RMol = BuiltinClass('RAtom'), BuiltinClass('RBond'), BuiltinClass('RMol')
    result = {}

    def run(order, tag):
        marks = {'atoms': set(), 'types': {}}
        ch['GetSymmSSSR'] = Builtin('GetSymmSSSR', lambda I_, a, k: list(order))

        def ratom(I_, o, name):
            if name == 'GetSymbol':
                return Builtin('GetSymbol', lambda I2, a, k: 'C')
            if name == 'SetIsAromatic':
                return Builtin('SetIsAromatic', lambda I2, a, k: marks['atoms'].add(o.fields['i']))
            return NotImplementedVal

        def rbond(I_, o, name):
            key = o.fields['key']
            if name == 'GetBondType':
                return Builtin('GetBondType', lambda I2, a, k: bondtype(marks['types'].get(key, bt[key])))
            if name in ('SetIsAromatic', 'SetIsConjugated'):
                return Builtin(name, lambda I2, a, k: None)
            if name == 'SetBondType':
                return Builtin('SetBondType', lambda I2, a, k: marks['types'].__setitem__(key, a[0].fields['code']))
            return NotImplementedVal

        def rmol(I_, o, name):
            if name == 'GetAtomWithIdx':
                return Builtin('GetAtomWithIdx', lambda I2, a, k: Obj(RAtom, {'i': a[0]}, 'param'))
            if name == 'GetBondBetweenAtoms':
                return Builtin('GetBondBetweenAtoms', lambda I2, a, k: Obj(RBond, {'key': tuple(sorted((a[0], a[1])))}, 'param') if tuple(sorted((a[0], a[1]))) in bt else None)
            return NotImplementedVal
        W_.abstract['RAtom'] = {'attr': ratom}
        W_.abstract['RBond'] = {'attr': rbond}
        W_.abstract['RMol'] = {'attr': rmol}
        out = run_target(I, SCHEME, '_aromatization_Benson', [Obj(RMol, {}, 'param')])
        if out.kind == 'raise':
            raise Unsupported('aromatization raised')
        result[tag] = (frozenset(marks['atoms']), frozenset(marks['types']))
    run([A, B], 'AB')
    run([B, A], 'BA')
    ctx.oblige('order-insensitivity: visiting two fused six-rings in either order marks the same atoms and bonds aromatic',
               z3.BoolVal(result['AB'] == result['BA']))
    return {'inputs': {}}


def replay_ring_order(model, state, ob):
    import pgradd.ThermoChem  # noqa
    from . import real
    lib = real.load('BensonGA')
    a = real.outcome(lambda: dict(lib.GetDescriptors('Cc1cccc2ccccc12')))
    b = real.outcome(lambda: dict(lib.GetDescriptors('c12ccccc2cccc1C')))
    return {'failed': a != b, 'input': ['Cc1cccc2ccccc12', 'c12ccccc2cccc1C'], 'observed': str(b), 'expected': str(a),
            'script': "import pgradd.ThermoChem\nfrom pgradd.GroupAdd.Library import GroupLibrary\nlib = GroupLibrary.Load('BensonGA')\n"
                      "print(dict(lib.GetDescriptors('Cc1cccc2ccccc12')))\nprint(dict(lib.GetDescriptors('c12ccccc2cccc1C')))\n"}


UNITS = [u for u in C02.UNITS] + [Unit('_aromatization_Benson[two fused rings]', (SCHEME, '_aromatization_Benson'), u_ring_order, replay_ring_order)]
# the cis / trans test of a double bond: independent of the direction in which RDKit stores the bond and its reference atoms
from . import C03stereo
UNITS += C03stereo.UNITS
STANDINS = [standins.c03_spellings]
