"""C03 / C08 (part) -- DoubleBondStereoConstraint.__call__: the cis/trans test of a double bond must not depend on the direction in which the bond is
stored.  RDKit describes a stereo double bond by a label (Z / E / none) and two reference atoms, one on each end, in the order (begin side, end side); the
same molecule written the other way round has the same label and the reference atoms swapped.  The constraint is called with the two substituents of the
pattern (idx1, idx2) and the two double-bond atoms (idx3, idx4).  Specification: the geometry seen by the pattern is the label as it is when both or none
of the pattern's substituents are reference atoms, and the opposite label when exactly one is; the constraint holds iff that geometry equals the requested
one (negated if asked), else MolQueryError -- a statement about the SET of reference atoms, hence independent of their order."""
import ast

import z3

from pyvc import source
from pyvc.engine import Obj, Builtin, Namespace, NotImplementedVal, Unsupported, is_z3, z3_of
from pyvc.source import BuiltinClass
from pyvc.verify import Unit, run_target
from .spec import check_outcome

MQ = 'pgradd/RDkitWrapper/MolQuery.py'
NONE, ANY, Z, E = 0, 1, 2, 3          # rdkit.Chem.rdchem.BondStereo (probed below)
StereoCls = BuiltinClass('BondStereo')


def stereo(code):
    return Obj(StereoCls, {'code': code if is_z3(code) else z3.IntVal(code)}, 'fresh')


def stereo_compare(I, op, a, b):
    if isinstance(a, Obj) and isinstance(b, Obj) and a.cls is StereoCls and b.cls is StereoCls:
        c = a.fields['code'] == b.fields['code']
        return c if op is ast.Eq else (z3.Not(c) if op is ast.NotEq else NotImplementedVal)
    return NotImplementedVal


def world():
    from . import C08
    W_ = C08.world()
    ns = Namespace('BondStereo', {'STEREONONE': stereo(NONE), 'STEREOANY': stereo(ANY), 'STEREOZ': stereo(Z), 'STEREOE': stereo(E)})
    W_.externs['rdkit.Chem'].members['rdchem'].members['BondStereo'] = ns
    W_.abstract['BondStereo'] = {'compare': stereo_compare}
    return W_


def u_stereo(I):
    ctx = I.ctx
    W_ = I.world
    cls = source.module(MQ).classes['DoubleBondStereoConstraint']
    lab = I.fresh('bond_label', 'int')
    want = I.fresh('requested', 'int')
    neg = [False, True][ctx.choose([True, True], 'negate')]
    r1, r2 = I.fresh('ref_begin', 'int'), I.fresh('ref_end', 'int')
    i1, i2, i3, i4 = [I.fresh('idx%d' % k, 'int') for k in (1, 2, 3, 4)]
    ctx.assume(z3.Or(lab == NONE, lab == Z, lab == E))          # labels RDKit assigns on sanitisation (CIS / TRANS / ANY are set by hand only)
    ctx.assume(z3.Or(want == NONE, want == Z, want == E))
    ctx.assume(z3.Distinct(r1, r2, i3, i4))                     # reference atoms: one substituent on each end
    ctx.assume(z3.Distinct(i1, i2, i3, i4))                     # the pattern's substituents: two different atoms, neither a double-bond atom
    swapped = [False, True][ctx.choose([True, True], 'direction in which the bond is stored')]
    asked = []

    def bond_attr(I_, o, n):
        if n == 'GetStereo':
            return Builtin('GetStereo', lambda I2, a, k: stereo(lab))
        if n == 'GetStereoAtoms':
            # an RDKit vector of two ints: iterable, indexable, unpackable
            return Builtin('GetStereoAtoms', lambda I2, a, k: ([r2, r1] if swapped else [r1, r2]) if ctx.branch(lab != NONE) else [])
        return NotImplementedVal

    def mol_attr(I_, o, n):
        if n == 'GetBondBetweenAtoms':
            return Builtin('GetBondBetweenAtoms', lambda I2, a, k: (asked.append((a[0], a[1])), Obj(BuiltinClass('StereoBond'), {}, 'param'))[1])
        return NotImplementedVal
    W_.abstract['StereoBond'] = {'attr': bond_attr}
    W_.abstract['StereoMol'] = {'attr': mol_attr}
    mol = Obj(BuiltinClass('StereoMol'), {}, 'param')
    o = Obj(cls, {'negate': neg, 'stereobondtype': stereo(want)}, 'param')
    out = run_target(I, MQ, 'DoubleBondStereoConstraint.__call__', [i1, i2, i3, i4, mol], self_obj=o)
    inref = lambda x: z3.Or(x == r1, x == r2)
    one = z3.Xor(inref(i1), inref(i2))
    flip = lambda c: z3.If(c == Z, z3.IntVal(E), z3.If(c == E, z3.IntVal(Z), c))
    seen = z3.If(z3.And(lab != NONE, one), flip(lab), lab)
    holds = (seen == want) if not neg else (seen != want)
    check_outcome(I, out, raises={'MolQueryError': z3.Not(holds), 'TypeError': z3.Not(holds)}, returns=lambda r: [
        ('the constraint holds exactly when the geometry seen by the pattern (label as stored when both or none of its substituents are reference atoms, the opposite '
         'label when exactly one is) is the requested one -- whichever way round the bond and its reference atoms are stored', z3.And(holds, z3_of(r) == True)),   # noqa
        ('the bond looked at is the one between the two double-bond atoms of the pattern', z3.BoolVal(len(asked) == 1 and asked[0][0] is i3 and asked[0][1] is i4))])
    return {'inputs': {}}


def replay_stereo(model, state, ob):
    """(Z)-2,2,4-trimethylhex-3-ene written with the double bond in both directions: the one-direction pattern tbCis is counted once"""
    import pgradd.ThermoChem  # noqa
    from . import real
    lib = real.load('BensonGA')
    res = {}
    with real.quiet():
        for smi in ('CC(C)(C)/C=C(/C)CC', 'C/C(=C/C(C)(C)C)CC', 'CC/C(C)=C\\C(C)(C)C'):
            res[smi] = real.outcome(lambda s=smi: {k: v for k, v in dict(lib.GetDescriptors(s)).items() if 'is' in k or 'Cis' in k or 'cis' in k.lower()})
    vals = [repr(v) for v in res.values()]
    return {'failed': len(set(vals)) != 1, 'input': 'BensonGA, three spellings of (Z)-2,2,4-trimethylhex-3-ene', 'observed': res, 'expected': 'the same cis / trans descriptors for every spelling'}


replay_stereo.model_free = True


def probe_codes(tier=None, seed=None):
    from rdkit import Chem
    B = Chem.rdchem.BondStereo
    got = (int(B.STEREONONE), int(B.STEREOANY), int(B.STEREOZ), int(B.STEREOE))
    m = Chem.MolFromSmiles('C/C=C\\C')
    b = m.GetBondWithIdx(1)
    ok = got == (NONE, ANY, Z, E) and b.GetStereo() == B.STEREOZ and sorted(b.GetStereoAtoms()) == [0, 3]
    return {'name': 'BondStereo codes and reference atoms', 'ok': ok, 'detail': {'codes': got, 'stereo atoms of C/C=C\\C': list(b.GetStereoAtoms())}}


UNITS = [Unit('DoubleBondStereoConstraint.__call__', (MQ, 'DoubleBondStereoConstraint.__call__'), u_stereo, replay_stereo)]
for _u in UNITS:
    _u.world_factory = world
PROBES = [probe_codes]
