"""Symbolic quantities for the contracts on pgradd/Units (C10, C11, C12)."""
import z3

from pyvc import source, npmodel
from pyvc.engine import Obj, NDArr, Builtin, Unsupported, is_z3, z3_of
from pyvc.world import World
from .common import ThermoWorld

QTY = 'pgradd/Units/qty.py'
HELP = 'pgradd/Units/helpers.py'
DB = 'pgradd/Units/db.py'
PARSER = 'pgradd/Units/parser.py'
Pow = z3.Function('Pow', z3.RealSort(), z3.RealSort(), z3.RealSort())


class UnitsWorld(ThermoWorld):
    def __init__(self):
        ThermoWorld.__init__(self)

    def pow_hook(self, I, a, b):
        x, y = z3_of(a), z3_of(b)
        x = z3.ToReal(x) if z3.is_int(x) else x
        y = z3.ToReal(y) if z3.is_int(y) else y
        return Pow(x, y)


def mk_units(I, tag, null=False, integer=True):
    """FundamentalUnits object with symbolic (integer-valued) exponents."""
    cls = source.module(QTY).classes['FundamentalUnits']
    if null:
        exps = [z3.RealVal(0)] * 7
    else:
        # integer-valued exponents are Int terms (rounding to the nearest integer is then the identity)
        exps = [I.fresh('%s_e%d' % (tag, i), 'int' if integer else 'real') for i in range(7)]
    return Obj(cls, {'exps': NDArr((7,), exps), 'are_floats': NDArr((7,), [False] * 7, 'bool')}, origin='param'), exps


def mk_qty(I, tag):
    """Quantity with symbolic SI value and non-null integer exponents (class invariant: a Quantity always carries units,
    because _build returns a plain number when all exponents are zero)."""
    cls = source.module(QTY).classes['Quantity']
    v = I.fresh(tag + '_v', 'real')
    u, exps = mk_units(I, tag)
    I.ctx.assume(z3.Or([e != 0 for e in exps]))
    return Obj(cls, {'value': v, 'units': u}, origin='param'), v, exps


def is_qty(x):
    return isinstance(x, Obj) and x.cls.name == 'Quantity'


def qty_parts(x):
    """(value, exps list) of a result: plain numbers have zero exponents"""
    if is_qty(x):
        return x.fields['value'], list(x.fields['units'].fields['exps'].items)
    return x, [z3.RealVal(0)] * 7


def same(e1, e2):
    return z3.And([z3_of(a) == z3_of(b) for a, b in zip(e1, e2)])
