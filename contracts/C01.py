"""C01 -- Estimate is the exact count-weighted sum of group contributions.

Postconditions from the property text: each non-dimensional property of the estimate is SUM_i count_i * X_i(T)
over the descriptors of the mapping (zero, negative, fractional counts included); IncompleteDataError of a
constituent propagates (no partial sum); a descriptor without the property set => GroupMissingDataError naming
exactly those descriptors, before any estimator is built."""
import z3

from pyvc import source, loops
from pyvc.engine import Obj, Builtin, SymSeq, is_z3, z3_of, Unsupported
from pyvc.source import BuiltinClass
from pyvc.verify import Unit, run_target
from . import gd, common
from .gd import (GDWorld, GD, LIB, Key, Count, CorrOf, HasThermo, Val, Raises, HasRange, Lo, Hi, corr, key_obj, CorrCls)
from .spec import check_outcome

PROPERTY = 'C01'
BASE = 'pgradd/ThermoChem/base.py'


def world():
    return GDWorld()


EstimatorCls = BuiltinClass('EstimatorStub')


def u_Estimate(I):
    ctx = I.ctx
    lib = gd.mk_lib(I)
    groups, n = gd.mk_groups(I)
    built = []

    def estimator(I_, a, k):
        o = Obj(EstimatorCls, {'lib': a[0], 'groups': a[1]})
        built.append(o)
        ctx.effect('estimator-constructed')
        return o
    I.modstate[('classattr', LIB, 'GroupLibrary', '_property_set_estimator_types')] = \
        {'thermochem': Builtin('estimator_type', estimator)}
    name = ['thermochem', 'no-such-property-set'][ctx.choose([True, True])]
    out = run_target(I, LIB, 'GroupLibrary.Estimate', [groups, name], self_obj=lib)
    k = ctx.fresh('k', 'int')
    ctx.assume(z3.And(0 <= k, k < n))
    ctx.instantiate([k])
    missing = lambda i: z3.Not(HasThermo(Key(i)))
    if name != 'thermochem':
        check_outcome(I, out, raises={'KeyError': z3.BoolVal(True)}, returns=lambda r: [('unknown property set must be rejected', z3.BoolVal(False))])
        ctx.oblige('no estimator built for an unknown property set', z3.BoolVal(not built))
        return {'inputs': {}}
    if out.kind == 'raise' and out.value.cls.name == 'GroupMissingDataError':
        e = out.value
        M = e.fields.get('groups')
        ok_shape = isinstance(M, Obj) and M.cls is loops.FilterSeqCls and M.fields['source'].name == 'keys(groups)'
        ctx.oblige('error carries the filtered list of the mapping keys', z3.BoolVal(bool(ok_shape)))
        if ok_shape:
            inc, elt = M.fields['at'](k)
            ctx.oblige('a descriptor is named in the error exactly when it lacks the property set (arbitrary k)',
                       inc == missing(k))
            ctx.oblige('the named descriptor is the mapping key itself',
                       z3.BoolVal(isinstance(elt, Obj) and elt.cls is gd.GroupCls) if not (isinstance(elt, Obj) and elt.cls is gd.GroupCls)
                       else elt.fields['gid'] == Key(k))
            w = M.fields['witness']
            ctx.oblige('error only if some descriptor lacks the property set', missing(w) if is_z3(w) else z3.BoolVal(False))
        ctx.oblige('property set name recorded', z3.BoolVal(e.fields.get('property_set_name') == name))
        ctx.oblige('no estimator was constructed before the missing-data error', z3.BoolVal(not built))
        return {'inputs': {}}
    check_outcome(I, out, raises={}, returns=lambda r: [
        ('returns only when every descriptor has the property set (arbitrary k)', z3.Not(missing(k))),
        ('the estimator is built once from (library, mapping) and returned',
         z3.BoolVal(len(built) == 1 and r is built[0] and r.fields['lib'] is lib and r.fields['groups'] is groups))])
    return {'inputs': {}}


def replay_estimate(model, state, ob):
    import pgradd.ThermoChem  # registers the property set
    from pgradd.GroupAdd.Library import GroupLibrary
    from pgradd.Error import GroupMissingDataError
    lib = GroupLibrary.Load('BensonGA')
    d = lib.GetDescriptors('CC')
    bad = dict(d)
    bad['NoSuchGroup(X)'] = 1
    bad['Another(Y)'] = 2
    try:
        lib.Estimate(bad, 'thermochem')
        got = 'returned'
    except GroupMissingDataError as e:
        got = sorted(str(g) for g in e.groups)
    except Exception as e:
        got = 'raised ' + type(e).__name__
    want = ['Another(Y)', 'NoSuchGroup(X)']
    return {'failed': got != want, 'input': {'groups': {str(k): v for k, v in bad.items()}}, 'observed': got, 'expected': want}


# ---- ThermochemGroupAdditive.__init__ ------------------------------------------------------------------
AnyRange = z3.Function('AnyRange', z3.IntSort(), z3.BoolSort())   # some group among the first j has a range
CMin = z3.Function('CMin', z3.IntSort(), z3.RealSort())           # max of their lower bounds
CMax = z3.Function('CMax', z3.IntSort(), z3.RealSort())           # min of their upper bounds


def range_fold_axioms(j):
    """recursive definition of the intersection of the constituent ranges (the spec of C06's first sentence)"""
    c = CorrOf(Key(j))
    mx = lambda a, b: z3.If(a >= b, a, b)
    mn = lambda a, b: z3.If(a <= b, a, b)
    return [AnyRange(j + 1) == z3.Or(AnyRange(j), HasRange(c)),
            CMin(j + 1) == z3.If(HasRange(c), z3.If(AnyRange(j), mx(CMin(j), Lo(c)), Lo(c)), CMin(j)),
            CMax(j + 1) == z3.If(HasRange(c), z3.If(AnyRange(j), mn(CMax(j), Hi(c)), Hi(c)), CMax(j))]


def corr_list_at(j):
    return SymSeq(j, lambda i: (corr(CorrOf(Key(i))), Count(Key(i))), 'correlations', origin='fresh')


def init_loop1(selfobj):
    def state_at(I, j, env, it):
        ctx = I.ctx
        selfobj.fields['correlations'] = corr_list_at(j)
        if ctx.branch(AnyRange(j)):
            env.local['common_min'] = CMin(j)
            env.local['common_max'] = CMax(j)
        else:
            env.local['common_min'] = None
            env.local['common_max'] = None
        for v in ('count', 'correlation', 'data_range', 'group'):
            env.local.pop(v, None)

    def check_inv(I, j, env, it):
        ctx = I.ctx
        out = []
        from pyvc.engine import seq_view
        cl = seq_view(selfobj.fields.get('correlations'))
        if cl is None:
            return [('self.correlations is the term list', z3.BoolVal(False))]
        out.append(('term list has one entry per processed descriptor', cl.length == j))
        if z3.is_int_value(z3.simplify(cl.length)) and z3.simplify(cl.length).as_long() == 0:
            e, shape = None, False
            i = None
        else:
            i = ctx.fresh('inv_i', 'int')
            e = cl.at(i)
            shape = isinstance(e, tuple) and len(e) == 2 and isinstance(e[0], Obj) and e[0].cls is CorrCls
        if shape:
            out.append(('i-th term is (lib[key_i].thermochem, groups[key_i])',
                        z3.Implies(z3.And(0 <= i, i < j), z3.And(e[0].fields['cid'] == CorrOf(Key(i)), e[1] == Count(Key(i))))))
        elif e is not None:
            out.append(('terms are (correlation, count) pairs', z3.BoolVal(False)))
        cmin, cmax = env.local.get('common_min', 'unbound'), env.local.get('common_max', 'unbound')
        if cmin is None:
            out.append(('common range undefined iff no processed group has a range', z3.Not(AnyRange(j))))
            out.append(('common_max undefined together with common_min', z3.BoolVal(cmax is None)))
        elif is_z3(cmin) and is_z3(cmax):
            out.append(('common range = (max lower bound, min upper bound) of the processed groups with a range',
                        z3.And(AnyRange(j), cmin == CMin(j), cmax == CMax(j))))
        else:
            out.append(('common_min/common_max well-formed', z3.BoolVal(False)))
        return out
    return loops.for_rule('terms', state_at, check_inv)


def u_init(I):
    ctx = I.ctx
    lib = gd.mk_lib(I, uq={})
    groups, n = gd.mk_groups(I)
    cls = source.module(GD).classes['ThermochemGroupAdditive']
    o = Obj(cls, {}, origin='fresh')
    # every descriptor has data (established by Estimate before construction)
    i = z3.Int('i!h')
    ctx.assume_forall([i], z3.Implies(z3.And(0 <= i, i < n), HasThermo(Key(i))), 'every descriptor has data')
    ctx.assume(z3.Not(AnyRange(0)))
    jj = z3.Int('j!r')
    for ax in range_fold_axioms(jj):
        ctx.assume_forall([jj], z3.Implies(z3.And(0 <= jj, jj < n), ax), 'range fold definition')
    I.world.loop_specs[(GD, 'ThermochemGroupAdditive.__init__', 0)] = init_loop1(o)
    orig_branch = None
    # instantiate schemas at the loop index as soon as it exists
    out = None
    _orig_fresh = ctx.fresh

    def fresh(name, sort):
        v = _orig_fresh(name, sort)
        if name == 'j_terms':
            ctx.instantiate([v])
        return v
    ctx.fresh = fresh
    out = run_target(I, GD, 'ThermochemGroupAdditive.__init__', [lib, groups], self_obj=o)
    empty = z3.And(AnyRange(n), CMax(n) < CMin(n))

    def posts(_):
        f = o.fields
        ps = [('name taken from the library', z3.BoolVal(f.get('name') is lib.fields['name']))]
        cl = f.get('correlations')
        k = ctx.fresh('k', 'int')
        if isinstance(cl, SymSeq):
            e = cl.at(k)
            ps.append(('every descriptor of the mapping contributes exactly one term (count as given)',
                       z3.And(cl.length == n, z3.Implies(z3.And(0 <= k, k < n),
                              z3.And(e[0].fields['cid'] == CorrOf(Key(k)), e[1] == Count(Key(k)))))))
        else:
            ps.append(('term list built', z3.BoolVal(False)))
        r = f.get('range', 'undefined')
        if r is None:
            ps.append(('range is None iff no constituent has a range', z3.Not(AnyRange(n))))
        elif isinstance(r, tuple) and len(r) == 2:
            ps.append(('range is the intersection of the constituent ranges', z3.And(AnyRange(n), r[0] == CMin(n), r[1] == CMax(n))))
        else:
            ps.append(('range attribute defined', z3.BoolVal(False)))
        return ps
    check_outcome(I, out, raises={'AssertionError': empty}, returns=posts, site='ThermochemGroupAdditive.__init__')
    return {'inputs': {}}


def u_lib_init(I):
    """Every attribute the estimator reads from a library (name, uq_contents, contents) is defined by
    GroupLibrary.__init__, so Estimate works on a library that has not decomposed a molecule yet."""
    ctx = I.ctx
    cls = source.module(LIB).classes['GroupLibrary']
    o = Obj(cls, {}, origin='fresh')
    scheme = Obj(BuiltinClass('SchemeAbs'), {}, 'param')
    form = ctx.choose([True, True, True])
    g1, g2 = key_obj(z3.IntVal(1)), key_obj(z3.IntVal(2))
    p1, p2 = {'thermochem': corr(z3.IntVal(11))}, {'thermochem': corr(z3.IntVal(12))}
    I.world.hash_keys['DescriptorKey'] = lambda I_, ob: ('gid', ob.fields['gid'].as_long())
    contents = [{}, {('gid', 1): p1, ('gid', 2): p2}, [(g1, p1), (g2, p2)]][form]
    out = run_target(I, LIB, 'GroupLibrary.__init__', [scheme] + ([contents] if form else []), self_obj=o)

    def posts(_):
        f = o.fields
        need = ['scheme', 'path', 'contents', 'uq_contents', 'name']
        ps = [('attribute %s defined after construction' % k, z3.BoolVal(k in f)) for k in need]
        c = f.get('contents')
        ps.append(('contents hold exactly the given entries', z3.BoolVal(isinstance(c, dict) and len(c) == (0 if form == 0 else 2)
                                                                         and (form == 0 or (c[('gid', 1)] is p1 and c[('gid', 2)] is p2)))))
        return ps
    check_outcome(I, out, returns=posts)
    return {'inputs': {}}


def replay_lib_init(model, state, ob):
    import pgradd.ThermoChem
    from pgradd.GroupAdd.Library import GroupLibrary
    from pgradd.ThermoChem import ThermochemGroup
    lib = GroupLibrary(None, {'A': {'thermochem': ThermochemGroup(1.0, 2.0, {}, 298.15, None)}})
    try:
        est = lib.Estimate({'A': 2}, 'thermochem')
        got = est.get_HoRT(298.15)
    except Exception as e:
        got = 'raised %s: %s' % (type(e).__name__, e)
    return {'failed': got != 2.0, 'input': 'GroupLibrary(None, {A: H=1}).Estimate({A: 2})', 'observed': got, 'expected': 2.0,
            'script': "import pgradd.ThermoChem\nfrom pgradd.GroupAdd.Library import GroupLibrary\nfrom pgradd.ThermoChem import ThermochemGroup\n"
                      "lib = GroupLibrary(None, {'A': {'thermochem': ThermochemGroup(1.0, 2.0, {}, 298.15, None)}})\n"
                      "print(lib.Estimate({'A': 2}, 'thermochem').get_HoRT(298.15))  # expected 2.0\n"}


# ---- folds -------------------------------------------------------------------------------------------
def mk_estimate(I):
    cls = source.module(GD).classes['ThermochemGroupAdditive']
    n = I.fresh('n_terms', 'int')
    I.ctx.assume(n >= 0)
    CorrAt = I.ctx.fresh_fn('CorrAt', z3.IntSort(), z3.IntSort())
    CountAt = I.ctx.fresh_fn('CountAt', z3.IntSort(), z3.RealSort())
    cl = SymSeq(n, lambda i: (corr(CorrAt(i)), CountAt(i)), 'correlations', origin='param')
    o = Obj(cls, {'correlations': cl, 'name': I.fresh('name', 'str'), 'range': None}, origin='param')
    return o, n, CorrAt, CountAt


def fold_unit(X, method, own_range=False):
    """own_range (the C06 reading): the estimate carries an ARBITRARY declared range (it may have been narrowed with set_range, or the library groups
    may have been widened since the estimate was made) and must refuse a temperature outside it even when every constituent answers"""
    def run(I):
        ctx = I.ctx
        o, n, CorrAt, CountAt = mk_estimate(I)
        T = I.fresh('T', 'real')
        outside = z3.BoolVal(False)
        if own_range or ctx.choose([True, True], 'the estimate has no range / a declared range') == 1:
            lo, hi = I.fresh('est_lo', 'real'), I.fresh('est_hi', 'real')
            ctx.assume(lo <= hi)
            o.fields['range'] = (lo, hi)
            outside = z3.Or(T < lo, T > hi)
        kw = {}
        if X == 'SoR':
            kw = {'S_elements': [None, False][ctx.choose([True, True])]}
        out = run_target(I, GD, 'ThermochemGroupAdditive.' + method, [T], kw, self_obj=o)
        folds = ctx.ghost.get('folds', [])
        writes = [e for e in ctx.effects if e[0].startswith('write')]
        ctx.oblige('pure: no write to the estimate, the library or the correlations', z3.BoolVal(not writes))
        # outside its own range the estimate raises -- unless one of its constituents has no heat-capacity data: such constituents answer with the
        # incomplete-data warning, and so does the estimate (C06: "raises an error or - only through constituents that have no heat-capacity data -
        # emits the incomplete-data warning").  `some constituent without Cp data` is the witness j of the quantified all() in the code.
        from .gd import HasCp
        warned = [e for e in ctx.effects if e[0] == 'warn']
        jj = ctx.fresh('any_j', 'int')
        ctx.instantiate([jj, CorrAt(jj)])
        all_cp_j = z3.Implies(z3.And(0 <= jj, jj < n), HasCp(CorrAt(jj)))          # (arbitrary constituent j)
        if out.kind == 'raise':
            # spec: IncompleteDataError iff some constituent raises it; the skolem index k is the raising element
            if len(folds) == 0 and ctx.counters.get('fold_k'):
                k = z3.Int('fold_k')
                check_outcome(I, out, raises={'IncompleteDataError': Raises[X](CorrAt(k), T), '*': outside})
            else:
                check_outcome(I, out, raises={'*': outside})
            # (C06 allows the error in every case; that the code prefers the warning when a constituent has no heat-capacity data is its choice, not an obligation)
            return {'inputs': {}}
        r = out.value
        if own_range:
            ctx.oblige('a value is returned for a temperature outside the range the estimate itself declares only together with the incomplete-data warning '
                       '(whatever its constituents accept)', z3.Or(z3.Not(outside), z3.BoolVal(any(e[1] == 'IncompleteDataWarning' for e in warned))))
        ctx.oblige('no warning of its own inside the declared range', z3.Or(outside, z3.BoolVal(not warned)))
        if ctx.counters.get('fold_k') is None:
            # empty mapping: the sum over no terms
            ctx.oblige('empty estimate sums to 0', z3.And(n == 0, z3_of(r) == 0))
            return {'inputs': {}}
        if len(folds) != 1:
            ctx.oblige('result is one fold over the term list', z3.BoolVal(False))
            return {'inputs': {}}
        fo = folds[0]
        k = fo['k']
        ctx.oblige('the fold ranges over all n terms', fo['n'] == n)
        ctx.oblige('fold starts at 0', z3_of(fo['start']) == 0)
        ctx.oblige('no term is filtered out', z3.BoolVal(fo['included'] is True))
        ctx.oblige('k-th term is count_k * X(corr_k, T) (arbitrary k)', z3_of(fo['elem']) == CountAt(k) * Val[X](CorrAt(k), T))
        ctx.oblige('returns only if no constituent raises (arbitrary k): never a partial sum', z3.Not(Raises[X](CorrAt(k), T)))
        ctx.oblige('result is the sum itself', r == fo['result'])
        return {'inputs': {}}
    return run


def u_lemma(I):
    return loops.lemma_fold_congruence(I)


UNITS = [
    Unit('GroupLibrary.Estimate', (LIB, 'GroupLibrary.Estimate'), u_Estimate, replay_estimate),
    Unit('GroupLibrary.__init__', (LIB, 'GroupLibrary.__init__'), u_lib_init, replay_lib_init),
    Unit('ThermochemGroupAdditive.__init__', (GD, 'ThermochemGroupAdditive.__init__'), u_init),
    Unit('ThermochemGroupAdditive.get_CpoR', (GD, 'ThermochemGroupAdditive.get_CpoR'), fold_unit('CpoR', 'get_CpoR')),
    Unit('ThermochemGroupAdditive.get_HoRT', (GD, 'ThermochemGroupAdditive.get_HoRT'), fold_unit('HoRT', 'get_HoRT')),
    Unit('ThermochemGroupAdditive.get_SoR', (GD, 'ThermochemGroupAdditive.get_SoR'), fold_unit('SoR', 'get_SoR')),
    Unit('lemma:fold-congruence', None, u_lemma, kind='lemma'),
]
UNITS = [u for u in UNITS if u.run_fn is not None]


# ---- bounded stand-in (never counted as proved) ----------------------------------------------------------
def standin_sum(tier, seed):
    """Run-time evaluation of the C01 postcondition on the real code: unit vectors for every group of every shipped
    library, random mappings (integer, fractional, zero, negative counts; same key set re-used with other counts on
    the same library object), mappings with descriptors lacking data."""
    import random
    from . import real
    from pgradd.Error import GroupMissingDataError, IncompleteDataError
    rnd = random.Random(seed)
    nrand = 12 if tier == 'quick' else 120
    viol, n, distinct, samples = [], 0, set(), []
    props = ['get_CpoR', 'get_HoRT', 'get_SoR', 'get_GoRT']

    def expect(lib, groups, prop, T):
        tot = 0.0
        for g, c in groups.items():
            corr = lib[g]['thermochem']
            kind, v = real.outcome(getattr(corr, prop), T)
            if kind == 'exc':
                return ('exc', v)
            tot += c * v
        return ('ok', tot)

    def check(libname, lib, groups, tag):
        nonlocal n
        lo, hi = real.common_range(lib, groups)
        Ts = [298.15] if lo is None else [lo, hi, 0.5 * (lo + hi), lo + 0.37 * (hi - lo)]
        if lo is not None and hi > lo:
            # the same estimate object asked again at temperatures that agree to six significant digits, and at the first one again
            # (what a finite-difference derivative or a root finder on T does)
            t0 = lo + 0.37 * (hi - lo)
            Ts += [t0 * (1 + 2e-7), t0 * (1 - 3e-7), t0, 0.5 * (lo + hi) * (1 + 4e-7)]
        lib.name = 'C'
        kind, est = real.outcome(lib.Estimate, dict(groups), 'thermochem')
        if kind == 'exc':
            viol.append({'id': '%s-%s-estimate' % (libname, tag), 'input': {'library': libname, 'groups': {str(k): v for k, v in groups.items()}},
                         'observed': est, 'expected': 'an estimate'})
            return
        for T in Ts:
            for p in props:
                n += 1
                want = expect(lib, groups, p, T)
                got = real.outcome(getattr(est, p), T)
                ok = (want[0] == got[0]) and (want[0] == 'exc' and want[1] == got[1] == 'IncompleteDataError' or
                                              want[0] == 'ok' and real.close(want[1], got[1], 1e-9, 1e-9))
                if want[0] == 'exc' and want[1] != 'IncompleteDataError':
                    ok = True   # constituent itself fails otherwise (outside this property)
                if not ok and len(viol) < 20:
                    viol.append({'id': '%s-%s-%s-%g' % (libname, tag, p, T),
                                 'input': {'library': libname, 'groups': {str(k): v for k, v in groups.items()}, 'property': p, 'T': T},
                                 'observed': got, 'expected': want,
                                 'script': "import pgradd.ThermoChem\nfrom pgradd.GroupAdd.Library import GroupLibrary\nlib = GroupLibrary.Load(%r); lib.name='C'\n"
                                           "g = %r\nest = lib.Estimate(g, 'thermochem')\nprint(est.%s(%r), sum(c*lib[k]['thermochem'].%s(%r) for k, c in g.items()))\n"
                                           % (libname, {str(k): v for k, v in groups.items()}, p, T, p, T)})
        distinct.add((libname, tuple(sorted((str(k), v) for k, v in groups.items()))))
        if len(samples) < 5:
            samples.append({'library': libname, 'groups': {str(k): v for k, v in list(groups.items())[:4]}, 'T': Ts})

    for libname in real.LIBS:
        lib = real.load(libname)
        gs = real.thermo_groups(lib)
        for g in gs:
            check(libname, lib, {g: 1}, 'unit')
        for r in range(nrand):
            k = rnd.randint(1, min(6, len(gs)))
            keys = rnd.sample(gs, k)
            counts = [rnd.choice([0, 0.0, 1, 2, 3, -1, -2.5, 0.5, 1.25, 7]) for _ in keys]
            check(libname, lib, dict(zip(keys, counts)), 'rand%d' % r)
            # same key set, other counts, same library object
            check(libname, lib, dict(zip(keys, [c * 0.5 + 1 for c in counts])), 'rand%db' % r)
            if r < 3:
                # counts that hash alike in CPython (hash(-1) == hash(-2)) and counts that compare equal across types (1, 1.0, True), one mapping after the other
                for tag2, cs in (('m1', -1), ('m2', -2), ('one', 1), ('onef', 1.0), ('two', 2)):
                    check(libname, lib, {k_: cs for k_ in keys}, 'rand%d%s' % (r, tag2))
        # missing data: exactly the descriptors without the property set must be named
        lack = ['NoSuch(X)', 'Other(Y)2']
        keys = rnd.sample(gs, min(3, len(gs)))
        m = {k: 1 for k in keys}
        order = lack[:1] + keys + lack[1:]
        m = {k: (m.get(k, 2)) for k in order}
        n += 1
        try:
            with real.quiet():
                lib.Estimate(m, 'thermochem')
            got = 'returned'
        except GroupMissingDataError as e:
            got = [str(g) for g in e.groups]
        except Exception as e:     # noqa
            got = 'raised ' + type(e).__name__
        if got != lack:
            viol.append({'id': '%s-missing' % libname, 'input': {'library': libname, 'groups': {str(k): v for k, v in m.items()}},
                         'observed': got, 'expected': lack})
    # synthetic library: two DIFFERENT descriptors that carry identical data (and a third one), each counted in its own right
    from pgradd.GroupAdd.Library import GroupLibrary
    from pgradd.ThermoChem import ThermochemGroup
    tab = {300.: 4.0, 500.: 5.5, 800.: 7.0}
    with real.quiet():
        syn = GroupLibrary(None, {'A': {'thermochem': ThermochemGroup(-10., 25., dict(tab), 298.15, (298., 1000.))},
                                  'B': {'thermochem': ThermochemGroup(-10., 25., dict(tab), 298.15, (298., 1000.))},
                                  'C': {'thermochem': ThermochemGroup(3., 1., dict(tab), 298.15, (298., 1000.))}})
    for mp in ({'A': 1, 'B': 2, 'C': 1}, {'A': 1, 'B': 1}, {'B': 0.5, 'A': -1, 'C': 2}):
        check('synthetic-twins', syn, mp, 'twins')
    # an estimate is made from the mapping as it was GIVEN: what the caller does to its dictionary afterwards (a work dict re-used for the next member of
    # a series) does not change an estimate returned earlier
    work = {'A': 1, 'C': 2}
    n += 1
    with real.quiet():
        e1 = syn.Estimate(work, 'thermochem')
        before = [real.outcome(getattr(e1, m_), 400.0) for m_ in ('get_CpoR', 'get_HoRT', 'get_SoR')]
        work['A'] = 5
        work['B'] = 1
        after = [real.outcome(getattr(e1, m_), 400.0) for m_ in ('get_CpoR', 'get_HoRT', 'get_SoR')]
    if before != after:
        viol.append({'id': 'mapping-changed-after-estimate', 'input': "d = {'A': 1, 'C': 2}; e = lib.Estimate(d); d['A'] = 5; d['B'] = 1; e.get_X(400)", 'observed': str(after), 'expected': str(before)})
    # a descriptor listed WITHOUT data: the missing-data error names it; once an Update supplies its data the same estimate is made (nothing remembered from
    # the failed attempt)
    n += 1
    with real.quiet():
        bare = GroupLibrary(None, {'A': {'thermochem': ThermochemGroup(-10., 25., dict(tab), 298.15, (298., 1000.))}, 'D': {}})
        k1 = real.outcome(lambda: bare.Estimate({'A': 1, 'D': 2}, 'thermochem'))
        named = None
        try:
            bare.Estimate({'A': 1, 'D': 2}, 'thermochem')
        except GroupMissingDataError as e_:
            named = [str(g_) for g_ in e_.groups]
        except Exception:    # noqa
            pass
        bare.Update(GroupLibrary(None, {'D': {'thermochem': ThermochemGroup(3., 1., dict(tab), 298.15, (298., 1000.))}}))
        k2 = real.outcome(lambda: bare.Estimate({'A': 1, 'D': 2}, 'thermochem').get_HoRT(400.0))
        want2 = bare['A']['thermochem'].get_HoRT(400.0) + 2 * bare['D']['thermochem'].get_HoRT(400.0)
    if named != ['D'] or k2[0] != 'ok' or abs(k2[1] - want2) > 1e-9:
        viol.append({'id': 'data-supplied-after-a-failed-estimate', 'input': "lib = {A: data, D: {}}; Estimate({A: 1, D: 2}) fails; lib.Update({D: data}); Estimate({A: 1, D: 2}).get_HoRT(400)",
                     'observed': {'first attempt names': named, 'second attempt': str(k2)[:100]}, 'expected': {'first attempt names': ['D'], 'second attempt': want2}})
    return {'name': 'estimate-is-weighted-sum', 'bound': 'unit vectors of all groups of 9 libraries + %d random mappings per library x up to 4 temperatures x 4 properties' % (2 * nrand),
            'evaluations': n, 'distinct_nontrivial': len(distinct), 'violations': viol, 'samples': samples,
            'rule': 'a case is a (library, mapping); distinct by mapping; all are non-trivial (at least one group with data)'}


STANDINS = [standin_sum]
