"""C14 -- Every shipped database loads, is self-consistent and relocatable.

A property over a finite configuration space (9 libraries x 3 ways of locating them x every entry): decided as a *data
obligation* -- the well-formedness postcondition of GroupLibrary.Load is evaluated on the real code over the whole space
(exhaustive) -- plus deductive obligations on the resolution code (get_data_dir, name-vs-path test of Load/_Load/Scheme.Load)."""
import ast
import json
import os
import shutil
import subprocess
import sys
import tempfile

import z3

from pyvc import source, loops
from pyvc.engine import Obj, Builtin, Namespace, FmtStr, Unsupported, NotImplementedVal, is_z3, z3_of
from pyvc.source import BuiltinClass
from pyvc.verify import Unit, run_target
from pyvc.world import World
from .spec import check_outcome

PROPERTY = 'C14'
LEVEL = 'other'
EXPLANATION = ('data obligations: the postcondition of Load (contents identical by name / by path / from a relocated copy selected through pgradd_DATA_DIR, every '
               'group evaluable to finite plain numbers over its range, scheme readable, remaps well-formed and chain-free, uncertainty block consistent) '
               'evaluated exhaustively on the nine shipped libraries; deductive obligations on get_data_dir and on the name-vs-path resolution')
DD = 'pgradd/GroupAdd/DataDir.py'
LIB = 'pgradd/GroupAdd/Library.py'
SCH = 'pgradd/GroupAdd/Scheme.py'
SS, BS, IS = z3.StringSort(), z3.BoolSort(), z3.IntSort()
IsDir = z3.Function('isdir', SS, BS)
Exists = z3.Function('exists', SS, BS)
Dirname = z3.Function('dirname', SS, SS)
Join = z3.Function('join', SS, SS, SS)
Abspath = z3.Function('abspath', SS, SS)
Depth = z3.Function('depth', SS, IS)
TRUSTED = ['os.getenv / os.path.{isdir,exists,dirname,join,abspath} are functions of their arguments; dirname shortens a path that is not the root',
           'positive semi-definiteness is checked numerically (smallest eigenvalue >= -1e-9 x largest), not exactly']


class W(World):
    def __init__(self):
        World.__init__(self)
        self.env_value = None

    def install_os(self, I, envval):
        pth = Namespace('os.path', {
            'isdir': Builtin('isdir', lambda I_, a, k: IsDir(z3_of(a[0]))), 'exists': Builtin('exists', lambda I_, a, k: Exists(z3_of(a[0]))),
            'dirname': Builtin('dirname', lambda I_, a, k: Dirname(z3_of(a[0]))), 'join': Builtin('join', lambda I_, a, k: Join(z3_of(a[0]), z3_of(a[1]))),
            'abspath': Builtin('abspath', lambda I_, a, k: Abspath(z3_of(a[0])))})
        osn = Namespace('os', {'path': pth, 'sep': '/', 'getenv': Builtin('getenv', lambda I_, a, k: envval if envval is not None else (a[1] if len(a) > 1 else None))})
        self.externs['os'] = osn
        self.externs['sys'] = Namespace('sys', {})


def world():
    return W()


def u_get_data_dir(I):
    ctx = I.ctx
    W_ = I.world
    case = ['cached', 'env', 'bundled'][ctx.choose([True] * 3, 'case')]
    env = I.fresh('env_dir', 'str')
    ctx.assume(z3.Length(env) > 0)
    cached = I.fresh('cached_dir', 'str')
    ctx.assume(z3.Length(cached) > 0)
    W_.install_os(I, env if case == 'env' else None)
    I.modstate[(DD, '_data_dir_cached')] = cached if case == 'cached' else False
    here = I.fresh('file', 'str')
    W_.global_overrides[(DD, '__file__')] = here
    start = Abspath(Dirname(here))
    hold = {}
    p_ = z3.String('p!d')
    ctx.assume_forall([p_], z3.And(Depth(p_) >= 0, z3.Implies(p_ != z3.StringVal('/'), Depth(Dirname(p_)) < Depth(p_))), 'dirname shortens a path')

    def st(I_, env_, tag):
        bp = ctx.fresh('base_path_' + tag, 'str')
        env_.local['base_path'] = bp
        hold['bp'] = bp
        ctx.instantiate([bp])

    def inv(I_, env_):
        return [('base_path is a path', z3.BoolVal(is_z3(env_.local.get('base_path')) or isinstance(env_.local.get('base_path'), str)))]
    I.world.while_specs[(DD, 'get_data_dir', 0)] = loops.while_rule('ascend', st, inv, lambda I_, env_: (ctx.instantiate([z3_of(env_.local['base_path'])]), Depth(z3_of(env_.local['base_path'])))[1])
    out = run_target(I, DD, 'get_data_dir', [])
    newcache = I.modstate.get((DD, '_data_dir_cached'))
    if case == 'cached':
        check_outcome(I, out, raises={}, returns=lambda r: [('a cached directory is returned as it is', z3_of(r) == cached),
                                                            ('cache unchanged', z3.BoolVal(newcache is cached))])
    elif case == 'env':
        check_outcome(I, out, raises={'*': z3.Not(IsDir(env))}, returns=lambda r: [
            ('the environment override selects the data directory', z3_of(r) == env), ('and is cached', z3_of(newcache) == env)])
    else:
        bp = hold.get('bp')

        def posts(r):
            if bp is None:
                return [('the bundled directory is found by ascending from this file', z3.BoolVal(False))]
            return [('bundled data: <first ancestor ending in /pgradd>/data', z3.And(z3_of(r) == Join(bp, z3.StringVal('data')), z3.SuffixOf(z3.StringVal('/pgradd'), bp), bp != z3.StringVal('/'))),
                    ('and is cached', z3_of(newcache) == z3_of(r))]
        cond = z3.BoolVal(True) if bp is None else z3.Or(bp == z3.StringVal('/'), z3.Not(IsDir(Join(bp, z3.StringVal('data')))))
        check_outcome(I, out, raises={'*': cond}, returns=posts)
    writes = [e for e in ctx.effects if e[0] == 'write-global' and e[2] != '_data_dir_cached']
    ctx.oblige('only the cache variable is written', z3.BoolVal(not writes))
    return {'inputs': {}}


def u_load_resolution(I):
    ctx = I.ctx
    W_ = I.world
    which = ['GroupLibrary.Load', 'GroupLibrary._Load', 'GroupAdditivityScheme.Load'][ctx.choose([True] * 3, 'function')]
    W_.install_os(I, None)
    path = I.fresh('path', 'str')
    D = I.fresh('data_dir', 'str')
    W_.contracts[(DD, 'get_data_dir')] = lambda I_, a, k: D
    calls = {}
    builtin = z3.And(z3.Not(z3.Contains(path, z3.StringVal('/'))), z3.Not(z3.Contains(path, z3.StringVal('.'))), z3.Not(Exists(path)))
    base_b = Join(D, path)
    if which.startswith('GroupLibrary'):
        cls = source.module(LIB).classes['GroupLibrary']
        W_.contracts[(LIB, 'GroupLibrary._do_load')] = lambda I_, a, k: (calls.__setitem__('do_load', a[1:]), 'LIB')[1]
        W_.contracts[(SCH, 'GroupAdditivityScheme.Load')] = lambda I_, a, k: (calls.__setitem__('scheme', a[1]), 'SCHEME')[1]
        args = [cls, path] + (['S0'] if which.endswith('_Load') else [])
        out = run_target(I, LIB, which, args)

        def posts(r):
            dl = calls.get('do_load')
            if dl is None:
                return [('delegates to _do_load', z3.BoolVal(False))]
            p, b, s = dl
            want_p = z3.If(builtin, Join(base_b, z3.StringVal('library.yaml')), path)
            want_b = z3.If(builtin, base_b, Dirname(path))
            ps = [('a bare name that is not an existing file selects <data dir>/<name>/library.yaml, anything else is used as a path',
                   z3.And(z3_of(p) == want_p, z3_of(b) == want_b))]
            if which.endswith('.Load'):
                ps.append(('the scheme is the scheme.yaml next to the library', z3_of(calls.get('scheme', '')) == Join(want_b, z3.StringVal('scheme.yaml'))))
                ps.append(('... and is the one the library is loaded with', z3.BoolVal(s == 'SCHEME')))
            else:
                ps.append(('an included file is loaded with the scheme of the including library', z3.BoolVal(s == 'S0')))
            return ps
        check_outcome(I, out, raises={}, returns=posts)
    else:
        cls = source.module(SCH).classes['GroupAdditivityScheme']
        opened = {}

        def open_(I_, a, k):
            opened['path'] = a[0]
            raise I_.exc('OSError', 'stop here: only the resolution is under contract')
        W_.builtins = dict(W_.builtins)
        W_.builtins['open'] = Builtin('open', open_)
        out = run_target(I, SCH, 'GroupAdditivityScheme.Load', [cls, path])
        want = Abspath(z3.If(builtin, Join(base_b, z3.StringVal('scheme.yaml')), path))
        ctx.oblige('scheme: a bare name selects <data dir>/<name>/scheme.yaml, anything else is used as a path',
                   z3_of(opened.get('path', '')) == want)
    return {'inputs': {}}


# ---- data obligations ---------------------------------------------------------------------------------------------
_FP = r'''
import sys, json, io, contextlib, hashlib
import numpy as np
import pgradd.ThermoChem
from pgradd.GroupAdd.Library import GroupLibrary
def fingerprint_of(lib):
    out = {}
    for g in lib:
        ps = lib[g]
        if 'thermochem' in ps:
            out[str(g)] = ps['thermochem'].yaml_format()
    uq = lib.uq_contents
    sch = lib.scheme
    scheme = {'patterns': [[p['center_name'], p['periph_name']] for p in sch.patterns], 'remaps': sch.remaps,
              'other': [d['name'] for d in sch.other_descriptors], 'smiles': [d['name'] for d in sch.smiles_based_descriptors], 'smarts': [d['name'] for d in sch.smarts_based_descriptors]}
    fp = {'groups': out, 'scheme': scheme, 'uq': None if not uq else {'descriptors': [str(d) for d in uq['descriptors']], 'mat': hashlib.sha256(np.array(uq['mat']).tobytes()).hexdigest(), 'dof': uq['dof'],
          'rmse': uq['RMSE'].thermochem.yaml_format()}}
    return hashlib.sha256(json.dumps(fp, sort_keys=True).encode()).hexdigest() + ':%d' % len(out)
if sys.argv[1] == '--relative-paths-one-process':
    # every library through the relative path 'library.yaml' from inside its own directory, one after the other in ONE process
    import os
    for d in sys.argv[2:]:
        os.chdir(d)
        try:
            with contextlib.redirect_stdout(io.StringIO()):
                lib = GroupLibrary.Load('library.yaml')
            sys.stderr.write('FPREL:%s:%s\n' % (os.path.basename(d), fingerprint_of(lib)))
        except Exception as e:
            sys.stderr.write('FPREL:%s:FAILED %s\n' % (os.path.basename(d), type(e).__name__))
else:
    with contextlib.redirect_stdout(io.StringIO()):
        lib = GroupLibrary.Load(sys.argv[1])
    sys.stderr.write('FP:' + fingerprint_of(lib))
'''


def fingerprint(arg, env=None):
    e = dict(os.environ)
    e.pop('pgradd_DATA_DIR', None)
    if env:
        e.update(env)
    r = subprocess.run(['/venv/bin/python', '-c', _FP, arg], capture_output=True, text=True, env=e, cwd='/tmp')
    for line in r.stderr.splitlines()[::-1]:
        if line.startswith('FP:') or 'FP:' in line:
            return line[line.index('FP:') + 3:]
    return 'FAILED: ' + r.stderr.strip().splitlines()[-1][:200] if r.stderr.strip() else 'FAILED'


def data_libraries(tier, seed):
    import math
    import yaml
    import numpy as np
    from . import real
    from pgradd.RINGParser.Reader import Read
    viol, n, samples = [], 0, []
    tmp = tempfile.mkdtemp(prefix='c14_')
    try:
        shutil.copytree(source.DATA_DIR, os.path.join(tmp, 'relocated'))
        from concurrent.futures import ThreadPoolExecutor
        jobs = {}
        with ThreadPoolExecutor(max_workers=9) as ex:
            for name in real.LIBS:
                jobs[(name, 'by name')] = ex.submit(fingerprint, name)
                jobs[(name, 'by path')] = ex.submit(fingerprint, os.path.join(source.DATA_DIR, name, 'library.yaml'))
                jobs[(name, 'relocated (pgradd_DATA_DIR)')] = ex.submit(fingerprint, name, {'pgradd_DATA_DIR': os.path.join(tmp, 'relocated')})
            allfp = {k: f.result() for k, f in jobs.items()}
        e_ = dict(os.environ)
        e_.pop('pgradd_DATA_DIR', None)
        for order in (list(real.LIBS), list(reversed(real.LIBS))):
            r_ = subprocess.run(['/venv/bin/python', '-c', _FP, '--relative-paths-one-process'] + [os.path.join(source.DATA_DIR, nm) for nm in order], capture_output=True, text=True, env=e_, cwd='/tmp')
            got = {ln.split(':', 2)[1]: ln.split(':', 2)[2] for ln in r_.stderr.splitlines() if ln.startswith('FPREL:')}
            for nm in real.LIBS:
                allfp[(nm, "relative path 'library.yaml' from inside the directory, all libraries in one process (%s first)" % order[0])] = got.get(nm, 'FAILED: no output')
        for name in real.LIBS:
            # three ways of locating the library
            n += 1
            fps = {k[1]: v for k, v in allfp.items() if k[0] == name}
            if len(set(fps.values())) != 1 or any(v.startswith('FAILED') for v in fps.values()):
                viol.append({'id': name + '-locations', 'input': name, 'observed': fps, 'expected': 'identical contents (groups, scheme, uncertainty block) for every way of locating the library'})
            lib = real.load(name)
            # every group evaluates to finite plain numbers where it has data
            for g in real.thermo_groups(lib):
                c = lib[g]['thermochem']
                n += 1
                r = c.get_range()
                bad = []
                if r is not None and not (r[0] > 0 and r[0] <= c.T_ref <= r[1]):
                    bad.append('range %r does not contain T_ref %r' % (r, c.T_ref))
                if c.has_ND_Cp() and r is None:
                    bad.append('Cp table without a declared range')
                Ts = [c.T_ref] if r is None else [r[0], r[1], c.T_ref] + [r[0] + (r[1] - r[0]) * f for f in (0.13, 0.31, 0.5, 0.77, 0.93)]
                for T in Ts:
                    for m, has in (('get_CpoR', c.has_ND_Cp()), ('get_HoRT', c.has_ND_H()), ('get_SoR', c.has_ND_S())):
                        if not has:
                            continue
                        k, v = real.outcome(getattr(c, m), T)
                        if k != 'ok' or not isinstance(v, float) or not math.isfinite(v):
                            bad.append('%s(%g) -> %s %r' % (m, T, k, v))
                if bad:
                    viol.append({'id': '%s-%s' % (name, g), 'input': {'library': name, 'group': str(g)}, 'observed': bad[:4], 'expected': 'finite plain numbers over the valid range'})
            # scheme: patterns readable, remaps well-formed and chain-free
            d = yaml.safe_load(open(os.path.join(source.DATA_DIR, name, 'scheme.yaml')))
            for sect in ('patterns', 'other_descriptors'):
                for e in d.get(sect) or []:
                    n += 1
                    k, v = real.outcome(Read, e['connectivity'])
                    if k != 'ok':
                        viol.append({'id': '%s-pattern-%d' % (name, n), 'input': e['connectivity'], 'observed': v, 'expected': 'readable'})
            remaps = d.get('remaps') or {}
            for key, val in remaps.items():
                n += 1
                ok = isinstance(val, list) and val and all(isinstance(x, list) and len(x) == 2 and isinstance(x[0], (int, float)) and isinstance(x[1], str) for x in val)
                chain = ok and any(x[1] in remaps for x in val)
                if not ok or chain:
                    viol.append({'id': '%s-remap-%s' % (name, key), 'input': {key: val}, 'observed': 'malformed' if not ok else 'target is itself remapped', 'expected': 'list of [coefficient, target], targets not remapped'})
            # the table of the LOADED scheme object is the file's table, and stays so while the library is used (a decomposition reads it only)
            import copy
            n += 1
            loaded = getattr(lib.scheme, 'remaps', None)
            norm = lambda t: {str(k_): [[x[0], str(x[1])] for x in v_] for k_, v_ in (t or {}).items()}
            if norm(loaded) != norm(remaps):
                viol.append({'id': name + '-remaps-loaded', 'input': name, 'observed': 'the loaded scheme object carries a remap table that differs from scheme.yaml', 'expected': 'the table of the file'})
            before = copy.deepcopy(norm(loaded))
            for smi in ('CCO', 'CC(C)C', 'C=CC', 'c1ccccc1', 'CC(=O)O', 'C1CCCCC1', '[CH3]', 'CCN'):
                real.outcome(lib.GetDescriptors, smi)
            after = norm(getattr(lib.scheme, 'remaps', None))
            if after != before or any(x[1] in after for v_ in after.values() for x in v_):
                extra = sorted(set(after) - set(before))[:4]
                viol.append({'id': name + '-remaps-after-use', 'input': {'library': name, 'after': 'GetDescriptors of eight small molecules'}, 'observed': 'remap table changed by use (new keys: %s)' % extra,
                             'expected': 'the table as loaded, chain-free'})
            # uncertainty block
            uq = lib.uq_contents
            if uq:
                n += 1
                D, M = list(uq['descriptors']), np.array(uq['mat'], dtype=float)
                bad = []
                if M.ndim != 2 or M.shape[0] != M.shape[1]:
                    bad.append('matrix not square: %r' % (M.shape,))
                elif M.shape[0] != len(D):
                    bad.append('matrix %r not sized to the basis (%d)' % (M.shape, len(D)))
                else:
                    if not np.array_equal(M, M.T):
                        bad.append('matrix not symmetric (max |M - M^T| = %g)' % float(np.abs(M - M.T).max()))
                    ev = np.linalg.eigvalsh((M + M.T) / 2)
                    if ev.min() < -1e-9 * max(1.0, ev.max()):
                        bad.append('matrix not positive semi-definite (min eigenvalue %g)' % ev.min())
                if len(set(str(x) for x in D)) != len(D):
                    bad.append('basis lists a descriptor twice')
                missing = [str(x) for x in D if 'thermochem' not in lib[x]]
                if missing:
                    bad.append('basis descriptors without data: %s' % missing[:5])
                if bad:
                    viol.append({'id': name + '-uq', 'input': name, 'observed': bad, 'expected': 'square symmetric PSD matrix sized to a basis whose descriptors all have data'})
            samples.append({'library': name, 'groups': len(real.thermo_groups(lib)), 'uq': bool(uq), 'fingerprint': fps['by name'][:16]})
    finally:
        shutil.rmtree(tmp, ignore_errors=True)
    return {'name': 'shipped-libraries-wellformed', 'obligations': n, 'violations': viol, 'samples': samples[:4], 'exhaustive': True,
            'bound': 'all nine bundled libraries x three ways of locating them x every group, pattern, remap and uncertainty entry'}


DATA = [data_libraries]
UNITS = [
    Unit('get_data_dir', (DD, 'get_data_dir'), u_get_data_dir),
    Unit('Load/_Load/Scheme.Load (name vs path)', (LIB, 'GroupLibrary.Load'), u_load_resolution),
]
for _u in UNITS:
    _u.branch_timeout_ms = 300
# the remap table stays as loaded: frame obligations of the two functions that read it (units of C02)
from . import C02 as _c02      # noqa: E402
for _u in _c02.UNITS:
    if 'remaps]' in _u.name:
        if getattr(_u, 'world_factory', None) is None:
            _u.world_factory = _c02.world
        UNITS.append(_u)
