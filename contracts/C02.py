"""C02 -- Descriptors equal the scheme file's declared decomposition.

Python glue of pgradd/GroupAdd/Scheme.py under contract, RDKit and the RING matcher (C08) abstract:
  GetDescriptors        : both input forms reach the common part with every variable bound and the same normalisation;
                          result = groups overlaid with the correction descriptors
  _AssignCenterPattern  : every atom is classified by exactly one centre pattern, otherwise PatternMatchError --
                          for any number of patterns/atoms and every iteration order of the match sets
  _AssignDescriptor     : a correction descriptor counts distinct *sets* of matched atoms (any order inside a match)
  _aromatization_Benson : per ring: aromatic <=> six carbons with alternating single/double bonds (either phase);
                          marking writes exactly those six atoms and six bonds
The end-to-end comparison with an independent reading of the scheme files is the bounded stand-in."""
import ast

import copy

import z3

from pyvc import source, loops
from pyvc.engine import (Obj, Builtin, SymSeq, SetVal, FmtStr, Namespace, PyExc, Unsupported, NotImplementedVal, is_z3, z3_of)
from pyvc.source import BuiltinClass
from pyvc.verify import Unit, run_target
from pyvc.world import World
from . import chem, standins
from .chem import NumAtoms, BType, BOND_CODES, atom, bondtype
from .spec import check_outcome

PROPERTY = 'C02'
LEVEL = 'other'
EXPLANATION = ('deductive obligations on the Python glue of Scheme.py relative to an abstract RDKit / RING matcher; the comparison of whole '
               'decompositions with an independent interpreter of the scheme files is a bounded stand-in (listed under bounded)')
SCHEME = 'pgradd/GroupAdd/Scheme.py'
IS, BS, SS = z3.IntSort(), z3.BoolSort(), z3.StringSort()
TRUSTED = [chem.TRUSTED, chem.TRUSTED2,
           'RING matcher: GetQueryMatches(mol) returns tuples of atom indices (contract of C08); a set built from a list holds its distinct '
           'elements and is iterated in an arbitrary order; atom properties set with SetProp are read back by GetProp/HasProp',
           '_AssignGroup (group naming from the centre and the neighbours\' peripheral names, remaps) is covered by the stand-in only']

# ---- abstract state for _AssignCenterPattern ------------------------------------------------------------------------------
InFirst = z3.Function('InFirst', IS, IS, BS)        # atom a is the first atom of some match of pattern k
SetSize = z3.Function('FirstSetSize', IS, IS)
SetElem = z3.Function('FirstSetElem', IS, IS, IS)   # j-th element (arbitrary order) of the set of first atoms of pattern k
PosIn = z3.Function('PosInFirstSet', IS, IS, IS)    # position of atom a in that enumeration
HasC = z3.Function('HasCentre', IS, IS, BS)         # (version, atom)
CIdx = z3.Function('CentrePattern', IS, IS, IS)     # (version, atom) -> index of the pattern that classified it
NPat = z3.Function('NumPatterns', IS, IS)
PatternCls = BuiltinClass('PatternEntry')
QueryCls = BuiltinClass('PatternQuery')
FirstSetCls = BuiltinClass('FirstAtomSet')
AMolCls = BuiltinClass('AnnotatedMol')
AAtomCls = BuiltinClass('AnnotatedAtom')


class W(World):
    def __init__(self):
        World.__init__(self)
        chem.install2(self)
        from .C08 import _defaultdict
        self.externs['collections.defaultdict'] = Builtin('defaultdict', _defaultdict)


def world():
    return W()


def u_assign_center(I):
    ctx = I.ctx
    W_ = I.world
    cls = source.module(SCHEME).classes['GroupAdditivityScheme']
    P = I.fresh('n_patterns', 'int')
    N = I.fresh('n_atoms', 'int')
    ctx.assume(z3.And(P >= 0, N >= 0))
    state = {'ver': I.fresh('props0', 'int')}
    a_, k_, j_ = z3.Int('a!c'), z3.Int('k!c'), z3.Int('j!c')
    ctx.assume_forall([a_], z3.Not(HasC(state['ver'], a_)), 'no atom is classified initially')
    # the set of first atoms of pattern k, enumerated in an arbitrary order
    ctx.assume_forall([k_, j_], z3.Implies(z3.And(0 <= k_, k_ < P, 0 <= j_, j_ < SetSize(k_)),
                                           z3.And(InFirst(k_, SetElem(k_, j_)), PosIn(k_, SetElem(k_, j_)) == j_, 0 <= SetElem(k_, j_), SetElem(k_, j_) < N)), 'elements of a first-atom set')
    ctx.assume_forall([k_, a_], z3.Implies(z3.And(0 <= k_, k_ < P, InFirst(k_, a_)),
                                           z3.And(0 <= PosIn(k_, a_), PosIn(k_, a_) < SetSize(k_), SetElem(k_, PosIn(k_, a_)) == a_)), 'every first atom is enumerated')
    ctx.assume_forall([k_], z3.Implies(z3.And(0 <= k_, k_ < P), SetSize(k_) >= 0), 'sizes')

    def pattern_index(I_, o, key):
        k = o.fields['k']
        if key == 'connectivity':
            return Obj(QueryCls, {'k': k}, 'param')
        if key in ('center_name', 'periph_name'):
            return z3.Function(key, IS, SS)(k)
        raise I_.exc('KeyError', key)
    W_.abstract['PatternEntry'] = {'index': pattern_index}

    def query_attr(I_, o, name):
        if name == 'GetQueryMatches':
            k = o.fields['k']
            def gqm(I2, a, kw):
                # the contract of the matcher (C08) is about GetQueryMatches(mol): a call with further arguments is outside it (undecided, not assumed)
                if len(a) != 1 or kw:
                    raise Unsupported('GetQueryMatches called with arguments the matcher contract does not cover: %r %r' % (a[1:], sorted(kw)))
                return Obj(BuiltinClass('MatchList'), {'k': k}, 'fresh')
            return Builtin('GetQueryMatches', gqm)
        if name == '__str__':
            return Builtin('__str__', lambda I2, a, kw: FmtStr(['<query>']))
        return NotImplementedVal
    W_.abstract['PatternQuery'] = {'attr': query_attr}
    # [match[0] for match in matches] and set(...) of it
    W_.abstract['MatchList'] = {'symseq': lambda I_, o: SymSeq(z3.Int('nmatch'), lambda m: (z3.Function('FirstOfMatch', IS, IS, IS)(o.fields['k'], m), z3.IntVal(0)), 'matches')}
    orig_comp = W_.comp_hook

    def comp_hook(I_, node, seq, env):
        if seq.name == 'matches' and isinstance(node.elt, ast.Subscript):
            k = I_.lookup('matches', env).fields['k']
            return Obj(BuiltinClass('FirstAtomList'), {'k': k}, 'fresh')
        return orig_comp(I_, node, seq, env)
    W_.comp_hook = comp_hook
    W_.types = dict(W_.types)
    orig_set = W_.types['set'].conv

    class _SetType:
        name = 'set'

        def __call__(self, I_, a, kw):
            if a and isinstance(a[0], Obj) and a[0].cls.name == 'FirstAtomList':
                return Obj(FirstSetCls, {'k': a[0].fields['k']}, 'fresh')
            return orig_set(I_, a, kw)
    W_.builtins = dict(W_.builtins)
    st = _SetType()
    W_.types['set'] = st
    W_.abstract['FirstAtomSet'] = {'symseq': lambda I_, o: SymSeq(SetSize(o.fields['k']), lambda j: SetElem(o.fields['k'], j), 'first-atoms', origin='fresh')}

    # molecule with versioned centre annotation
    def amol_attr(I_, o, name):
        if name == 'GetAtomWithIdx':
            return Builtin('GetAtomWithIdx', lambda I2, a, kw: Obj(AAtomCls, {'idx': z3_of(a[0])}, 'param'))
        if name == 'GetAtoms':
            return Builtin('GetAtoms', lambda I2, a, kw: SymSeq(N, lambda i: Obj(AAtomCls, {'idx': i}, 'param'), 'atoms', origin='param'))
        if name == 'GetNumAtoms':
            return Builtin('GetNumAtoms', lambda I2, a, kw: N)
        return NotImplementedVal

    def aatom_attr(I_, o, name):
        idx = o.fields['idx']
        if name == 'HasProp':
            return Builtin('HasProp', lambda I2, a, kw: HasC(state['ver'], idx) if a[0] == 'Group_Center_Name' else _unsup('HasProp(%r)' % a[0]))
        if name == 'GetProp':
            return Builtin('GetProp', lambda I2, a, kw: z3.Function('center_name', IS, SS)(CIdx(state['ver'], idx)))
        if name == 'SetProp':
            def sp(I2, a, kw):
                ctx.effect('setprop', a[0])
                if a[0] == 'Group_Center_Name':
                    old = state['ver']
                    new = ctx.fresh('props', 'int')
                    k = state['cur_k']
                    ctx.assume_forall([a_], z3.And(HasC(new, a_) == z3.Or(a_ == idx, HasC(old, a_)),
                                                  CIdx(new, a_) == z3.If(a_ == idx, k, CIdx(old, a_))), 'centre recorded')
                    ctx.oblige('the recorded centre name is that of the matching pattern', z3_of(a[1]) == z3.Function('center_name', IS, SS)(k))
                    state['ver'] = new
                return None
            return Builtin('SetProp', sp)
        if name in ('GetOwningMol',):
            return Builtin(name, lambda I2, a, kw: mol)
        if name in ('GetSymbol', 'GetNumRadicalElectrons', 'GetIdx'):
            return Builtin(name, lambda I2, a, kw: FmtStr([name]) if name != 'GetIdx' else idx)
        if name == 'GetBonds':
            return Builtin('GetBonds', lambda I2, a, kw: [])
        if name == 'GetAtomicNum':           # an arbitrary element per atom (any order of elements along the atom list: explicit [H][H] comes first)
            return Builtin('GetAtomicNum', lambda I2, a, kw: z3.Function('atomic_number', IS, IS)(idx))
        return NotImplementedVal
    W_.abstract['AnnotatedMol'] = {'attr': amol_attr}
    W_.abstract['AnnotatedAtom'] = {'attr': aatom_attr}
    mol = Obj(AMolCls, {}, 'param')
    W_.externs['rdkit.Chem'].members['MolToSmiles'] = Builtin('MolToSmiles', lambda I2, a, kw: FmtStr(['<smiles>']))
    patterns = SymSeq(P, lambda k: Obj(PatternCls, {'k': k}, 'param'), 'patterns', origin='param')
    o = Obj(cls, {'patterns': patterns}, 'param')

    def classified_by_earlier(ver, a, k, j):
        """invariant: atom a carries a centre  <=>  it was a first atom of a pattern before k, or one of the first j
        enumerated first atoms of pattern k; and it then belongs to no other pattern processed so far"""
        c = CIdx(ver, a)
        done = z3.Or(z3.And(0 <= c, c < k, InFirst(c, a)), z3.And(c == k, k < P, InFirst(k, a), PosIn(k, a) < j))
        return done

    def inv_formulas(ver, k, j, a, kk):
        return [('an annotated atom was the first atom of a processed match (arbitrary atom)',
                 z3.Implies(z3.And(0 <= a, a < N, HasC(ver, a)), classified_by_earlier(ver, a, k, j))),
                ('every first atom of an earlier pattern is annotated with that very pattern -- so no atom belongs to two (arbitrary atom, pattern)',
                 z3.Implies(z3.And(0 <= a, a < N, 0 <= kk, kk < k, InFirst(kk, a)), z3.And(HasC(ver, a), CIdx(ver, a) == kk))),
                ('the first atoms of the current pattern enumerated so far are annotated with it',
                 z3.Implies(z3.And(0 <= a, a < N, InFirst(k, a), PosIn(k, a) < j, k < P), z3.And(HasC(ver, a), CIdx(ver, a) == k)))]

    def assume_inv(k, j):
        ver = ctx.fresh('props_inv', 'int')
        for _, f in inv_formulas(ver, k, j, a_, k_):
            ctx.assume_forall([a_, k_], f, 'classification invariant')
        state['ver'] = ver

    def check(k, j):
        a = ctx.fresh('inv_a', 'int')
        kk = ctx.fresh('inv_k', 'int')
        terms = [a, kk, k, j, j - 1, CIdx(state['ver'], a), PosIn(k, a), PosIn(kk, a), SetElem(k, j - 1), PosIn(CIdx(state['ver'], a), a)]
        ctx.instantiate([t for t in terms if is_z3(t)])
        return inv_formulas(state['ver'], k, j, a, kk)

    def outer_state(I_, k, env, it):
        assume_inv(k, z3.IntVal(0))
        state['cur_k'] = k
        for v in ('pattern', 'matches', 'match', 'atom', 's'):
            env.local.pop(v, None)
        ctx.instantiate([k])

    def outer_inv(I_, k, env, it):
        return check(k, z3.IntVal(0))

    def inner_state(I_, j, env, it):
        assume_inv(state['cur_k'], j)
        for v in ('match', 'atom', 's'):
            env.local.pop(v, None)
        ctx.instantiate([state['cur_k'], j, SetElem(state['cur_k'], j)])

    def inner_inv(I_, j, env, it):
        return check(state['cur_k'], j)

    def outer_post_body(I_, k):
        pass
    I.world.loop_specs[(SCHEME, 'GroupAdditivityScheme._AssignCenterPattern', 0)] = loops.for_rule('patterns', outer_state, outer_inv)
    I.world.loop_specs[(SCHEME, 'GroupAdditivityScheme._AssignCenterPattern', 1)] = loops.for_rule('firsts', inner_state, inner_inv)
    fin = {}

    def final_state(I_, j, env, it):
        # the annotation is not changed by the last loop; atoms before j all carry a centre
        t = z3.Int('t!fin')
        ctx.assume_forall([t], z3.Implies(z3.And(0 <= t, t < j), HasC(state['ver'], t)), 'atoms checked so far carry a centre')
        env.local.pop('atom', None)
        env.local.pop('s', None)
        ctx.instantiate([j])

    def final_inv(I_, j, env, it):
        t = ctx.fresh('inv_t', 'int')
        ctx.instantiate([t, j - 1])
        return [('atoms checked so far carry a centre (arbitrary atom)', z3.Implies(z3.And(0 <= t, t < j), HasC(state['ver'], t)))]
    I.world.loop_specs[(SCHEME, 'GroupAdditivityScheme._AssignCenterPattern', 2)] = loops.for_rule('atoms', final_state, final_inv)
    # the inner message loop over atom.GetBonds() has an empty bond list in this abstraction (message text is not observed)
    _orig = ctx.fresh

    def fresh(name, sort):
        v = _orig(name, sort)
        if name in ('j_patterns', 'j_firsts', 'j_atoms'):
            ctx.instantiate([v])
        return v
    ctx.fresh = fresh
    # the inner loop's exit must re-establish the outer invariant at k+1: done by the outer preservation check, which needs
    # the inner exit state -- for_rule's exit path assumes the inner invariant at j = SetSize(k)
    out = run_target(I, SCHEME, 'GroupAdditivityScheme._AssignCenterPattern', [mol], self_obj=o)
    ver = state['ver']
    a = ctx.fresh('post_a', 'int')
    kk = ctx.fresh('post_k', 'int')
    ctx.instantiate([a, kk, P, N, CIdx(ver, a), PosIn(kk, a), PosIn(CIdx(ver, a), a)])
    if out.kind == 'raise':
        check_outcome(I, out, raises={'PatternMatchError': z3.BoolVal(True)})
        if ctx.counters.get('j_atoms') is not None:
            j = z3.Int('j_atoms')
            kx = ctx.fresh('any_k', 'int')
            ctx.instantiate([kx, j, PosIn(kx, j)])
            ctx.oblige('"not assigned" is reported only for an atom that is the first atom of no match of any pattern (arbitrary pattern)',
                       z3.Implies(z3.And(0 <= kx, kx < P), z3.Not(InFirst(kx, j))))
        else:
            k, j = state['cur_k'], z3.Int('j_firsts')
            am = SetElem(k, j)
            c = CIdx(ver, am)
            ctx.instantiate([k, j, c, am, PosIn(c, am), PosIn(k, am)])
            ctx.oblige('"overwritten" is reported only for an atom that two different patterns claim (witness: the earlier pattern)',
                       z3.And(InFirst(k, am), InFirst(c, am), c != k, 0 <= c, c < P))
        return {'inputs': {}}
    check_outcome(I, out, raises={}, returns=lambda r: [
        ('every atom is classified (arbitrary atom)', z3.Implies(z3.And(0 <= a, a < N), z3.And(HasC(ver, a), 0 <= CIdx(ver, a), CIdx(ver, a) < P, InFirst(CIdx(ver, a), a)))),
        ('... by exactly one centre pattern (arbitrary atom and pattern)',
         z3.Implies(z3.And(0 <= a, a < N, 0 <= kk, kk < P, InFirst(kk, a)), CIdx(ver, a) == kk))])
    return {'inputs': {}}


def _unsup(msg):
    raise Unsupported(msg)


# ---- _AssignDescriptor: de-duplication by atom set ----------------------------------------------------------------------
def u_assign_descriptor(I):
    ctx = I.ctx
    W_ = I.world
    cls = source.module(SCHEME).classes['GroupAdditivityScheme']
    nm = 2 + ctx.choose([True, True], 'number of matches')
    atoms = [[I.fresh('m%d_%d' % (m, q), 'int') for q in range(2)] for m in range(nm)]
    for m in atoms:
        ctx.assume(m[0] != m[1])
    matches = tuple(tuple(m) for m in atoms)
    q = Obj(BuiltinClass('DescQuery'), {}, 'param')
    W_.abstract['DescQuery'] = {'attr': lambda I_, o, n: Builtin('GetQueryMatches', lambda I2, a, k: _only_mol(a, k, matches)) if n == 'GetQueryMatches' else NotImplementedVal}
    o = Obj(cls, {'other_descriptors': [{'name': 'Cis', 'connectivity': q}], 'smiles_based_descriptors': [], 'smarts_based_descriptors': [],
                  'remaps': {}}, 'param')
    mol = Obj(BuiltinClass('AnyMol'), {}, 'param')
    out = run_target(I, SCHEME, 'GroupAdditivityScheme._AssignDescriptor', [mol, mol], self_obj=o)
    # spec: number of distinct atom sets
    def same_set(x, y):
        return z3.Or(z3.And(x[0] == y[0], x[1] == y[1]), z3.And(x[0] == y[1], x[1] == y[0]))
    # distinct-count of nm sets (nm <= 3): count representatives
    rep = [z3.BoolVal(True)]
    for i in range(1, nm):
        rep.append(z3.And([z3.Not(same_set(atoms[i], atoms[j])) for j in range(i)]))
    count = z3.Sum([z3.If(r, 1, 0) for r in rep])

    def posts(r):
        if not isinstance(r, dict):
            return [('returns the descriptor counts', z3.BoolVal(False))]
        v = r.get('Cis', 0)
        return [('the descriptor is counted once per distinct SET of matched atoms, whatever the order inside a match', z3_of(v) == count),
                ('no other descriptor appears', z3.BoolVal(set(r) <= {'Cis'}))]
    check_outcome(I, out, raises={}, returns=posts)
    return {'inputs': {'atoms': atoms}}


def _only_mol(a, k, result):
    if len(a) != 1 or k:
        raise Unsupported('GetQueryMatches called with arguments the matcher contract does not cover: %r %r' % (a[1:], sorted(k)))
    return result


def FRAME_REMAPS(o, before):
    """frame: answering a query does not write the scheme's remap table (C15: computing does not alter library data; C14: the table stays as loaded)"""
    now = o.fields.get('remaps')
    same = isinstance(now, dict) and list(now.keys()) == list(before.keys()) and all([tuple(x) for x in now[k_]] == [tuple(x) for x in before[k_]] for k_ in before)
    return ('frame: the remap table of the scheme is not modified by a decomposition', z3.BoolVal(bool(same)))


def u_assign_descriptor_multi(I):
    """accumulation over entries: several entries of the three kinds may carry the SAME name (BensonGA: Cis, AlkaneGauche ...);
    the count of a name is the sum over its entries; smiles-based entries look at the clean molecule, smarts-based at the
    hydrogen-complete one, each with its own useChirality; remaps multiply"""
    ctx = I.ctx
    W_ = I.world
    cls = source.module(SCHEME).classes['GroupAdditivityScheme']
    names = [('A', 'A', 'A', 'A'), ('A', 'B', 'A', 'B'), ('A', 'B', 'C', 'D'), ('A', 'A', 'B', 'B')][ctx.choose([True] * 4, 'names of the four entries')]
    counts = [[0, 1, 2][ctx.choose([True] * 3, 'distinct matches of entry %d' % e)] for e in range(4)]
    # remaps: none; one name onto two others (one of them a name that also occurs by itself); a CHAIN (the target of one rule is the key of another): a
    # linear substitution replaces every name once, by the rule declared for it -- it does not depend on the order in which the names were met
    remaps = [{}, {'A': [(2, 'Z'), (1, 'B')]}, {'A': [(1, 'B')], 'B': [(1, 'M')]}, {'B': [(1, 'A')], 'A': [(1, 'M')]}][ctx.choose([True] * 4, 'remaps')]
    calls = []

    def matches_of(e):
        return tuple((100 * e + i,) for i in range(counts[e]))
    q = [Obj(BuiltinClass('DescQuery%d' % e), {}, 'param') for e in range(2)]
    for e in range(2):
        W_.abstract['DescQuery%d' % e] = {'attr': (lambda e_: lambda I_, o, n: Builtin('GetQueryMatches', lambda I2, a, k: (calls.append(('ring', e_, a[0])), _only_mol(a, k, matches_of(e_)))[1])
                                                   if n == 'GetQueryMatches' else NotImplementedVal)(e)}
    patt = {2: Obj(BuiltinClass('Patt'), {'e': 2}, 'param'), 3: Obj(BuiltinClass('Patt'), {'e': 3}, 'param')}
    W_.abstract['Patt'] = {}

    def mol_attr(I_, o, n):
        if n == 'GetSubstructMatches':
            def gsm(I2, a, k):
                e = a[0].fields['e']
                calls.append(('substruct', e, o, k.get('useChirality')))
                return matches_of(e)
            return Builtin('GetSubstructMatches', gsm)
        return NotImplementedVal
    W_.abstract['AnyMol'] = {'attr': mol_attr}
    mol = Obj(BuiltinClass('AnyMol'), {'which': 'with hydrogens'}, 'param')
    clean = Obj(BuiltinClass('AnyMol'), {'which': 'clean'}, 'param')
    chir = [[True, False], [False, True]][ctx.choose([True, True], 'useChirality flags')]
    o = Obj(cls, {'other_descriptors': [{'name': names[0], 'connectivity': q[0]}, {'name': names[1], 'connectivity': q[1]}],
                  # entries exactly as GroupAdditivityScheme.Load builds them: the compiled pattern is stored under 'smarts' for both kinds
                  'smiles_based_descriptors': [{'name': names[2], 'smarts': patt[2], 'useChirality': chir[0]}],
                  'smarts_based_descriptors': [{'name': names[3], 'smarts': patt[3], 'useChirality': chir[1]}],
                  'remaps': remaps}, 'param')
    remaps0 = copy.deepcopy(remaps)
    out = run_target(I, SCHEME, 'GroupAdditivityScheme._AssignDescriptor', [mol, clean], self_obj=o)
    want = {}
    for nme, c in zip(names, counts):
        if c:
            want[nme] = want.get(nme, 0) + c
    final = {}
    for nme, c in want.items():
        if nme in remaps:
            for coef, tgt in remaps[nme]:
                final[tgt] = final.get(tgt, 0) + c * coef
        else:
            final[nme] = final.get(nme, 0) + c

    def posts(r):
        if not isinstance(r, dict):
            return [('returns the descriptor counts', z3.BoolVal(False))]
        got = {k: v for k, v in r.items()}
        sub = [c for c in calls if c[0] == 'substruct']
        return [('the count of a name is the sum over all entries carrying that name (entries of the three kinds), remaps applied with their coefficients',
                 z3.BoolVal(got == final)),
                ('smiles-based entries are matched on the clean molecule, smarts-based ones on the hydrogen-complete molecule, each with its own useChirality',
                 z3.BoolVal(sorted((c[1], c[2].fields['which'], c[3]) for c in sub) == [(2, 'clean', chir[0]), (3, 'with hydrogens', chir[1])])),
                ('RING-based entries are matched on the hydrogen-complete molecule', z3.BoolVal(all(c[2] is mol for c in calls if c[0] == 'ring'))),
                FRAME_REMAPS(o, remaps0)]
    check_outcome(I, out, raises={}, returns=posts)
    return {'inputs': {'names': names, 'counts': counts}}


def u_assign_group(I):
    """_AssignGroup on a chain of three atoms a0 - a1 - a2 with arbitrary (chosen) centre / peripheral names: every atom with a named centre contributes ONE
    group named by its centre and the multiset of its neighbours' peripheral names (the name itself is Group.name, C19: stubbed by its contract here);
    remaps are one linear substitution of the counts"""
    ctx = I.ctx
    W_ = I.world
    cls = source.module(SCHEME).classes['GroupAdditivityScheme']
    cen = ['C', ['C', 'none'][ctx.choose([True, True], 'centre name of the middle atom')], ['O', 'C'][ctx.choose([True, True], 'centre name of the last atom')]]
    per = [['C', 'none'][ctx.choose([True, True], 'peripheral name of the first atom')], 'C', cen[2]]
    nbrs = {0: [1], 1: [0, 2], 2: [1]}

    def spec_name(c, ps):
        cnt = {}
        for p_ in ps:
            cnt[p_] = cnt.get(p_, 0) + 1
        return c + ''.join('(%s)%s' % (p_, cnt[p_] if cnt[p_] > 1 else '') for p_ in sorted(cnt))
    gname = {i: spec_name(cen[i], [per[j] for j in nbrs[i] if per[j] != 'none']) for i in range(3) if cen[i] != 'none'}
    first, last = gname[0], gname[2]
    remaps = [{}, {first: [(2, 'Z'), (0.5, last)]}, {first: [(1, last)], last: [(1, 'M')]}, {last: [(1, first)], first: [(1, 'M')]}][ctx.choose([True] * 4, 'remaps: none / one name onto two / chain / chain the other way')]
    props = [dict() for _ in range(3)]
    AtomC = BuiltinClass('GAtom')
    atoms = [Obj(AtomC, {'i': i}, 'param') for i in range(3)]

    def a_attr(I_, o_, n_):
        i = o_.fields['i']
        if n_ == 'GetProp':
            def gp(I2, a, k):
                if a[0] == 'Group_Center_Name':
                    return cen[i]
                if a[0] == 'Group_Periph_Name':
                    return per[i]
                if a[0] in props[i]:
                    return props[i][a[0]]
                raise I2.exc('KeyError', a[0])
            return Builtin('GetProp', gp)
        if n_ == 'SetProp':
            return Builtin('SetProp', lambda I2, a, k: props[i].__setitem__(a[0], a[1]))
        if n_ == 'GetNeighbors':
            return Builtin('GetNeighbors', lambda I2, a, k: tuple(atoms[j] for j in nbrs[i]))
        return NotImplementedVal
    W_.abstract['GAtom'] = {'attr': a_attr}
    W_.abstract['GMol'] = {'attr': lambda I_, o_, n_: Builtin('GetAtoms', lambda I2, a, k: tuple(atoms)) if n_ == 'GetAtoms' else NotImplementedVal}
    made = []
    W_.ctor_hooks['Group'] = lambda I_, c, a, k: (made.append((a[1], list(a[2]))), Obj(c, {'name': spec_name(a[1], list(a[2])), 'scheme': a[0]}, 'fresh'))[1]
    o = Obj(cls, {'remaps': remaps}, 'param')
    remaps0 = copy.deepcopy(remaps)
    out = run_target(I, SCHEME, 'GroupAdditivityScheme._AssignGroup', [Obj(BuiltinClass('GMol'), {}, 'param')], self_obj=o)
    raw = {}
    for i in gname:
        raw[gname[i]] = raw.get(gname[i], 0) + 1
    want = {}
    for nme, c in raw.items():
        if nme in remaps:
            for coef, tgt in remaps[nme]:
                want[tgt] = want.get(tgt, 0) + c * coef
        else:
            want[nme] = want.get(nme, 0) + c

    def posts(r):
        if not isinstance(r, dict):
            return [('returns the group counts', z3.BoolVal(False))]
        return [('one group per atom with a named centre, named by the centre and the multiset of the neighbours\' peripheral names (atoms without a peripheral name do not appear in it)',
                 z3.BoolVal(sorted(made) == sorted((cen[i], sorted(per[j] for j in nbrs[i] if per[j] != 'none')) for i in gname) or
                            sorted((c_, sorted(p_)) for c_, p_ in made) == sorted((cen[i], sorted(per[j] for j in nbrs[i] if per[j] != 'none')) for i in gname))),
                ('the counts are the per-atom groups with the remap rules applied as ONE linear substitution (every name replaced once by the rule declared for it, '
                 'whatever the order in which the names were met)', z3.BoolVal({k_: v_ for k_, v_ in r.items() if v_ != 0} == {k_: v_ for k_, v_ in want.items() if v_ != 0})),
                ('an atom without a named centre is marked as belonging to no group', z3.BoolVal(all(props[i].get('Group_name') == 'none' for i in range(3) if cen[i] == 'none'))),
                FRAME_REMAPS(o, remaps0)]
    check_outcome(I, out, raises={}, returns=posts)
    return {'inputs': {'centre': cen, 'peripheral': per, 'remaps': remaps}}


def replay_chain(model, state, ob):
    """a synthetic scheme with a chained remap, the same molecule written in two atom orders"""
    import os, shutil, tempfile
    from pgradd.GroupAdd.Scheme import GroupAdditivityScheme
    from pgradd import yaml_io
    from . import real
    import yaml
    src = os.path.join(source.DATA_DIR, 'BensonGA', 'scheme.yaml')
    d = yaml.safe_load(open(src))
    d['remaps'] = {'C(H)3(O)': [[1, 'C(C)(H)3']], 'C(C)(H)3': [[1, 'methyl']]}
    tmp = tempfile.mkdtemp(prefix='pyvc_chain_')
    try:
        os.makedirs(os.path.join(tmp, 'S'))
        yaml.safe_dump(d, open(os.path.join(tmp, 'S', 'scheme.yaml'), 'w'))
        with real.quiet():
            sch = GroupAdditivityScheme.Load(os.path.join(tmp, 'S'))
            x, y = dict(sch.GetDescriptors('COCC')), dict(sch.GetDescriptors('CCOC'))
    finally:
        shutil.rmtree(tmp, ignore_errors=True)
    want = {k_: v_ for k_, v_ in x.items()}
    return {'failed': x != y or x.get('C(C)(H)3') != 1 or x.get('methyl') != 1, 'input': "BensonGA scheme with remaps {'C(H)3(O)': [[1, 'C(C)(H)3']], 'C(C)(H)3': [[1, 'methyl']]}: GetDescriptors('COCC') vs GetDescriptors('CCOC')",
            'observed': [str(x), str(y)], 'expected': "the same answer for both spellings, with C(C)(H)3: 1 (from the methoxy carbon) and methyl: 1 (from the ethyl end)"}


replay_chain.model_free = True


def replay_descriptor(model, state, ob):
    import pgradd.ThermoChem  # noqa
    from . import real
    lib = real.load('BensonGA')
    with real.quiet():
        a = dict(lib.GetDescriptors('C/C=C\\CCCCCCC'))
        b = dict(lib.GetDescriptors('[H]/[C](=[C](\\[H])[C]([H])([H])[C]([H])([H])[C]([H])([H])[C]([H])([H])[C]([H])([H])[C]([H])([H])[C]([H])([H])[H])[C]([H])([H])[H]'))
    return {'failed': a.get('Cis') != 1 or b.get('Cis') != 1, 'input': 'cis-2-decene, implicit vs explicit hydrogens', 'observed': [a.get('Cis'), b.get('Cis')], 'expected': [1, 1]}


# ---- GetDescriptors: the two input forms -----------------------------------------------------------------------------------
def u_getdescriptors(I):
    ctx = I.ctx
    W_ = I.world
    cls = source.module(SCHEME).classes['GroupAdditivityScheme']
    form = ['string', 'molecule'][ctx.choose([True, True], 'input form')]
    log = []
    RawMol = chem.MolCls

    btype = {}          # id(molecule object) -> current type code of its (one, arbitrary) bond; copies and AddHs inherit it from their source

    def mk(tag, src=None):
        o_ = Obj(RawMol, {'mid': ctx.fresh('mol_' + tag, 'int'), 'tag': tag, 'from': src}, 'fresh')
        keepalive.append(o_)
        if isinstance(src, Obj) and id(src) in btype:
            btype[id(o_)] = btype[id(src)]
        return o_
    keepalive = []
    ch = W_.externs['rdkit.Chem'].members

    def MolFromSmiles(I_, a, k):
        log.append(('MolFromSmiles', a[0]))
        return mk('parsed', a[0])

    def AddHs(I_, a, k):
        log.append(('AddHs', a[0]))
        return mk('withH', a[0])

    def Kekulize(I_, a, k):
        log.append(('Kekulize', a[0]))

    def Sanitize(I_, a, k):
        log.append(('SanitizeMol', a[0]))
    ch['MolFromSmiles'] = Builtin('MolFromSmiles', MolFromSmiles)
    ch['AddHs'] = Builtin('AddHs', AddHs)
    ch['Kekulize'] = Builtin('Kekulize', Kekulize)
    ch['SanitizeMol'] = Builtin('SanitizeMol', Sanitize)
    ch['Mol'] = RawMol
    RawMol.instancecheck = lambda I_, v: isinstance(v, Obj) and v.cls is RawMol
    flags = Namespace('SanitizeFlags', {n: n for n in ('SANITIZE_ADJUSTHS', 'SANITIZE_CLEANUP', 'SANITIZE_CLEANUPCHIRALITY', 'SANITIZE_FINDRADICALS',
                                                       'SANITIZE_KEKULIZE', 'SANITIZE_PROPERTIES', 'SANITIZE_SETCONJUGATION', 'SANITIZE_SETHYBRIDIZATION', 'SANITIZE_SYMMRINGS')})
    ch['rdmolops'].members['SanitizeFlags'] = flags
    W_.ctor_hooks['Mol'] = lambda I_, c, a, k: (log.append(('Mol-copy', a[0])), mk('copy', a[0]))[1]
    old_attr = W_.abstract['Mol']['attr']
    # the working molecule has one bond of arbitrary type: an UNSPECIFIED bond ('~', a weak bond to the surface) must become a ZERO-order bond,
    # any other bond is left alone -- for BOTH input forms, and before aromatic perception and pattern matching see the molecule
    bcode = I.fresh('bond_type', 'int')
    WB = BuiltinClass('WorkBond')
    setlog = []

    def cur(m_):
        return btype.setdefault(id(m_), bcode)          # a molecule seen for the first time (parsed text, the caller's object) has the input's bond

    def wb_attr(I_, o_, n_):
        m_ = o_.fields['of']
        if n_ == 'GetBondType':
            return Builtin('GetBondType', lambda I2, a, k: chem.bondtype(cur(m_)))
        if n_ == 'SetBondType':
            return Builtin('SetBondType', lambda I2, a, k: (setlog.append((m_, a[0].fields['code'])), btype.__setitem__(id(m_), a[0].fields['code']), log.append(('SetBondType', m_)))[2])
        return NotImplementedVal
    W_.abstract['WorkBond'] = {'attr': wb_attr}
    W_.abstract['Mol'] = {'attr': lambda I_, m, n: Builtin('GetBonds', lambda I2, a, k: [Obj(WB, {'of': m}, 'param')]) if n == 'GetBonds' else old_attr(I_, m, n)}
    seen = {}
    W_.contracts[(SCHEME, '_aromatization_Benson')] = lambda I_, a, k: seen.setdefault('arom', a[0])
    W_.contracts[(SCHEME, 'GroupAdditivityScheme._AssignCenterPattern')] = lambda I_, a, k: seen.setdefault('center', a[1])
    g1, d1 = I.fresh('n_group', 'int'), I.fresh('n_desc', 'int')
    # the two parts are count maps (defaultdict(int), as the real functions build them) over names from ONE name space: a correction descriptor may carry
    # the name of a group (shipped: centre 'CC' and descriptor 'CC' in GRWSurface2018 and four more schemes; a remap may also target a descriptor name)
    from pyvc.engine import DefaultDict
    dname = ['Cis', 'C(C)(H)3', None][ctx.choose([True, True, True], 'descriptor name: its own / that of a group / (no group and no descriptor at all)')]
    nothing = dname is None          # every atom has a centre named 'none' (O=O, a bare metal atom, H on a metal): the decomposition is EMPTY, not an error

    def cmap(items):
        d_ = DefaultDict(items)
        d_.factory = Builtin('int', lambda I2, a2, k2: 0)
        return d_
    W_.contracts[(SCHEME, 'GroupAdditivityScheme._AssignGroup')] = lambda I_, a, k: (seen.setdefault('group', a[1]), cmap({} if nothing else {'C(C)(H)3': g1, 'C(C)2(H)2': 1}))[1]
    W_.contracts[(SCHEME, 'GroupAdditivityScheme._AssignDescriptor')] = lambda I_, a, k: (seen.setdefault('desc', tuple(a[1:])), cmap({} if nothing else {dname: d1}))[1]
    o = Obj(cls, {}, 'param')
    arg = I.fresh('smiles', 'str') if form == 'string' else mk('input')
    out = run_target(I, SCHEME, 'GroupAdditivityScheme.GetDescriptors', [arg], self_obj=o)

    def posts(r):
        ps = []
        addh = [x for x in log if x[0] == 'AddHs']
        kek = [x for x in log if x[0] == 'Kekulize']
        ps.append(('hydrogens are added once and the result is Kekulized (both input forms)', z3.BoolVal(len(addh) == 1 and len(kek) == 1)))
        work = seen.get('center')
        ps.append(('aromatic perception, centre assignment, group naming and descriptors all see the same normalised molecule',
                   z3.BoolVal(work is not None and seen.get('arom') is work and seen.get('group') is work and seen.get('desc', (None,))[0] is work
                              and isinstance(work, Obj) and work.fields.get('tag') == 'withH')))
        clean = seen.get('desc', (None, None))[1]
        ps.append(('the hydrogen-free copy handed to the SMILES-based descriptors is defined and denotes the input molecule',
                   z3.BoolVal(isinstance(clean, Obj) and clean.fields.get('tag') in ('parsed', 'copy') and clean.fields.get('from') is arg)))
        want = {} if nothing else {'C(C)(H)3': g1, 'C(C)2(H)2': z3.IntVal(1)}
        if not nothing:
            want[dname] = (want[dname] + d1) if dname in want else d1
        ps.append(('every name is counted once per group atom of that name plus once per match of the correction descriptor of that name (nothing is lost when a descriptor carries the name of a group)',
                   z3.And([z3.BoolVal(isinstance(r, dict) and set(r) == set(want))] + [z3_of(r[n]) == want[n] for n in want if isinstance(r, dict) and n in r])))
        UNS, ZERO = BOND_CODES['UNSPECIFIED'], BOND_CODES['ZERO']
        final = btype.get(id(work), bcode) if work is not None else bcode
        ps.append(('the molecule that is matched has a ZERO-order bond where the input had an UNSPECIFIED one, and every other bond type as in the input (%s input)' % form,
                   z3_of(final) == z3.If(bcode == UNS, z3.IntVal(ZERO), bcode)))
        if form == 'molecule':
            ps.append(('the caller\'s molecule object is not modified (work on copies)', z3.BoolVal(not [x for x in log if x[0] in ('Kekulize', 'SanitizeMol', 'SetBondType') and x[1] is arg])))
        return ps
    check_outcome(I, out, raises={}, returns=posts)
    return {'inputs': {}}


def replay_getdescriptors(model, state, ob):
    import pgradd.ThermoChem  # noqa
    from rdkit import Chem
    from . import real
    if 'every name is counted' in str(ob.get('name', '')):
        # shipped scheme with a centre pattern and a correction descriptor of one name ('CC'): dicarbon contributes two groups 'CC', ethane one descriptor 'CC'
        from pgradd.GroupAdd.Scheme import GroupAdditivityScheme
        sch = GroupAdditivityScheme.Load('GRWSurface2018')
        with real.quiet():
            a, b, ab = dict(sch.GetDescriptors('[C]$[C]')), dict(sch.GetDescriptors('CC')), dict(sch.GetDescriptors('[C]$[C].CC'))
        want = {n: a.get(n, 0) + b.get(n, 0) for n in set(a) | set(b)}
        return {'failed': ab != want, 'input': "GRWSurface2018: GetDescriptors('[C]$[C].CC')  (parts: %r and %r)" % (a, b), 'observed': str(ab), 'expected': str(want),
                'script': "from pgradd.GroupAdd.Scheme import GroupAdditivityScheme as S\ns = S.Load('GRWSurface2018')\nprint(dict(s.GetDescriptors('[C]$[C]')), dict(s.GetDescriptors('CC')), dict(s.GetDescriptors('[C]$[C].CC')))\n"}
    lib = real.load('BensonGA')
    k1, a = real.outcome(lambda: dict(lib.GetDescriptors('CCO')))
    k2, b = real.outcome(lambda: dict(lib.GetDescriptors(Chem.MolFromSmiles('CCO'))))
    return {'failed': (k1, a) != (k2, b), 'input': "GetDescriptors('CCO') vs GetDescriptors(Chem.MolFromSmiles('CCO'))", 'observed': [k2, str(b)], 'expected': [k1, str(a)]}


# ---- _aromatization_Benson: every ring judged on its own ------------------------------------------------------------------
def _aromatization(I, sizes):
    """rings = disjoint rings of the given sizes with symbolic element symbols and bond orders; each ring must be marked
    exactly when IT is six carbons with alternating bonds -- whatever the other rings are (no early exit, no skipped ring)"""
    W_ = I.world
    rings = [tuple(range(10 * (r + 1), 10 * (r + 1) + size)) for r, size in enumerate(sizes)]
    where = {a: (r, i) for r, ring in enumerate(rings) for i, a in enumerate(ring)}
    sym = {(r, i): I.fresh('sym%d_%d' % (r, i), 'str') for r, ring in enumerate(rings) for i in range(len(ring))}
    bt = {(r, i): I.fresh('bond%d_%d' % (r, i), 'int') for r, ring in enumerate(rings) for i in range(len(ring))}   # bond i joins ring[i], ring[i+1]
    marks = {'atoms': set(), 'bonds_arom': set(), 'bonds_conj': set(), 'bonds_type': {}}
    flag0 = {}
    ch = W_.externs['rdkit.Chem'].members
    ch['GetSymmSSSR'] = Builtin('GetSymmSSSR', lambda I_, a, k: list(rings))
    RAtom, RBond, RMol = BuiltinClass('RAtom'), BuiltinClass('RBond'), BuiltinClass('RMol')

    def ratom_attr(I_, o, name):
        i = o.fields['i']
        if name == 'GetSymbol':
            return Builtin('GetSymbol', lambda I2, a, k: sym[i])
        if name == 'SetIsAromatic':
            return Builtin('SetIsAromatic', lambda I2, a, k: marks['atoms'].add(i) if a[0] is True else _unsup('SetIsAromatic(False)'))
        if name == 'GetIsAromatic':
            # the flag the molecule arrived with (a Mol object may carry RDKit's own aromaticity; a string input has it cleared): arbitrary
            return Builtin('GetIsAromatic', lambda I2, a, k: True if i in marks['atoms'] else flag0.setdefault(('atom', i), I.fresh('arom_in_%d_%d' % i, 'bool')))
        return NotImplementedVal

    def rbond_attr(I_, o, name):
        b = o.fields['b']
        if name == 'GetBondType':
            cur = marks['bonds_type'].get(b, bt[b])
            return Builtin('GetBondType', lambda I2, a, k: bondtype(cur))
        if name == 'SetIsAromatic':
            return Builtin('SetIsAromatic', lambda I2, a, k: marks['bonds_arom'].add(b))
        if name == 'GetIsAromatic':
            return Builtin('GetIsAromatic', lambda I2, a, k: True if b in marks['bonds_arom'] else flag0.setdefault(('bond', b), I.fresh('barom_in_%d_%d' % b, 'bool')))
        if name == 'SetIsConjugated':
            return Builtin('SetIsConjugated', lambda I2, a, k: marks['bonds_conj'].add(b))
        if name == 'SetBondType':
            return Builtin('SetBondType', lambda I2, a, k: marks['bonds_type'].__setitem__(b, a[0].fields['code']))
        return NotImplementedVal

    def rmol_attr(I_, o, name):
        if name == 'GetAtomWithIdx':
            return Builtin('GetAtomWithIdx', lambda I2, a, k: Obj(RAtom, {'i': where[a[0]]}, 'param'))
        if name == 'GetBondBetweenAtoms':
            def gb(I2, a, k):
                (r, i), (r2, j) = where[a[0]], where[a[1]]
                size = len(rings[r])
                if r != r2:
                    return None
                if (i + 1) % size == j:
                    return Obj(RBond, {'b': (r, i)}, 'param')
                if (j + 1) % size == i:
                    return Obj(RBond, {'b': (r, j)}, 'param')
                return None
            return Builtin('GetBondBetweenAtoms', gb)
        return NotImplementedVal
    W_.abstract['RAtom'] = {'attr': ratom_attr}
    W_.abstract['RBond'] = {'attr': rbond_attr}
    W_.abstract['RMol'] = {'attr': rmol_attr}
    mol = Obj(RMol, {}, 'param')
    out = run_target(I, SCHEME, '_aromatization_Benson', [mol])
    S, D, A = BOND_CODES['SINGLE'], BOND_CODES['DOUBLE'], BOND_CODES['AROMATIC']
    obl = []
    for r, ring in enumerate(rings):
        size = len(ring)
        tag = '' if len(rings) == 1 else ' [ring %d of %d]' % (r + 1, len(rings))
        if size == 6:
            allC = z3.And([sym[(r, i)] == z3.StringVal('C') for i in range(6)])
            alt = z3.Or(z3.And([bt[(r, i)] == (S if i % 2 == 0 else D) for i in range(6)]), z3.And([bt[(r, i)] == (D if i % 2 == 0 else S) for i in range(6)]))
            want = z3.And(allC, alt)
        else:
            want = z3.BoolVal(False)
        mine = set((r, i) for i in range(size))
        got = {k: set(x for x in marks[k] if x[0] == r) for k in ('atoms', 'bonds_arom', 'bonds_conj')}
        types = {b: v for b, v in marks['bonds_type'].items() if b[0] == r}
        marked = got['atoms'] == mine and got['bonds_arom'] == mine and got['bonds_conj'] == mine and set(types) == mine
        untouched = not got['atoms'] and not got['bonds_arom'] and not got['bonds_conj'] and not types
        obl += [('a ring is either marked completely (six atoms, six bonds: aromatic flag, conjugation, AROMATIC type) or not touched at all' + tag, z3.BoolVal(marked or untouched)),
                ('marked  <=>  six carbons with alternating single/double bonds in either phase' + tag, z3.BoolVal(marked) == want),
                ('marked bonds get the AROMATIC type' + tag, z3.And([z3_of(types[b]) == A for b in types]) if types else z3.BoolVal(True))]
    check_outcome(I, out, raises={}, returns=lambda res: obl)
    return {'inputs': {}}


def u_aromatization(I):
    return _aromatization(I, [[6], [5]][I.ctx.choose([True, True], 'ring size')])


def u_aromatization_two(I):
    return _aromatization(I, [[6, 6], [5, 6], [6, 5], [7, 6], [6, 8]][I.ctx.choose([True] * 5, 'ring sizes')])


UNITS = [
    Unit('GroupAdditivityScheme.GetDescriptors', (SCHEME, 'GroupAdditivityScheme.GetDescriptors'), u_getdescriptors, replay_getdescriptors),
    Unit('GroupAdditivityScheme._AssignCenterPattern', (SCHEME, 'GroupAdditivityScheme._AssignCenterPattern'), u_assign_center),
    Unit('GroupAdditivityScheme._AssignDescriptor', (SCHEME, 'GroupAdditivityScheme._AssignDescriptor'), u_assign_descriptor, replay_descriptor),
    Unit('GroupAdditivityScheme._AssignDescriptor[several entries, shared names, remaps]', (SCHEME, 'GroupAdditivityScheme._AssignDescriptor'), u_assign_descriptor_multi, replay_chain),
    Unit('GroupAdditivityScheme._AssignGroup[three atoms, remaps]', (SCHEME, 'GroupAdditivityScheme._AssignGroup'), u_assign_group, replay_chain),
    Unit('_aromatization_Benson', (SCHEME, '_aromatization_Benson'), u_aromatization),
    Unit('_aromatization_Benson[two disjoint rings]', (SCHEME, '_aromatization_Benson'), u_aromatization_two),
]
STANDINS = [standins.c02_reference]

PROBES = [chem.probe_bond_codes]
