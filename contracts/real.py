"""Helpers for run-time contract evaluation on the real code (bounded stand-ins, data obligations, replays)."""
import contextlib
import io
import os
import random
import warnings

LIBS = ['BensonGA', 'GRWAqueous2018', 'GRWSurface2018', 'GuSolventGA2017Aq', 'GuSolventGA2017Vac', 'PPY',
        'PtSurface2023', 'SalciccioliGA2012', 'XieGA2022']
_cache = {}
try:
    from rdkit import RDLogger
    RDLogger.DisableLog('rdApp.*')
except Exception:      # noqa
    pass


@contextlib.contextmanager
def quiet():
    with contextlib.redirect_stdout(io.StringIO()):
        with warnings.catch_warnings():
            warnings.simplefilter('ignore')
            yield


def load(name, fresh=False):
    import pgradd.ThermoChem  # noqa: registers the property set
    from pgradd.GroupAdd.Library import GroupLibrary
    if fresh or name not in _cache:
        with quiet():
            lib = GroupLibrary.Load(name)
        if fresh:
            return lib
        _cache[name] = lib
    return _cache[name]


def thermo_groups(lib):
    return [g for g in lib if 'thermochem' in lib[g]]


def common_range(lib, groups):
    lo, hi = None, None
    for g in groups:
        r = lib[g]['thermochem'].get_range()
        if r is not None:
            lo = r[0] if lo is None else max(lo, r[0])
            hi = r[1] if hi is None else min(hi, r[1])
    return lo, hi


def outcome(fn, *a, **k):
    """('ok', value) | ('exc', ExceptionClassName)"""
    keep = k.pop('_keep_warnings', False)
    try:
        if keep:
            with contextlib.redirect_stdout(io.StringIO()):
                return ('ok', fn(*a, **k))
        with quiet():
            return ('ok', fn(*a, **k))
    except Exception as e:     # noqa
        return ('exc', type(e).__name__)


def close(a, b, rel=1e-9, ab=1e-9):
    return abs(a - b) <= ab + rel * max(abs(a), abs(b))
