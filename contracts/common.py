"""Shared extern contracts (assumed; each is listed in the evidence `trusted_base`) and helpers."""
import ast

import z3

from pyvc import source, npmodel
from pyvc.engine import (Obj, Builtin, Namespace, NDArr, SymSeq, FmtStr, Unsupported, PyExc, is_z3, z3_of, num_pair,
                         NotImplementedVal, BUILTIN_CLASSES)
from pyvc.source import BuiltinClass
from pyvc.world import World

RS = z3.RealSort()
IS = z3.IntSort()

# ---- spline / integral abstraction (assumed contract of scipy's InterpolatedUnivariateSpline and quad) ----
SplineVal = z3.Function('SplineVal', IS, RS, RS)      # value of spline #id at t
SplineInt = z3.Function('SplineInt', IS, RS, RS, RS)  # exact integral of the spline from a to b
SplineIntOverT = z3.Function('SplineIntOverT', IS, RS, RS, RS)   # exact integral of spline(t)/t from a to b
Ln = npmodel.Ln
Rconst = z3.Function('Rconst', z3.StringSort(), RS)   # pmutt.constants.R(units): a positive constant per unit string

SplineCls = BuiltinClass('InterpolatedUnivariateSpline')

TRUSTED = {
    'reals': 'machine floating-point arithmetic treated as exact real arithmetic (no rounding, overflow, nan)',
    'numpy': 'numpy element-wise functions (any, all, log, sqrt, square, abs, zeros, select, dot, round) behave as the '
             'corresponding real functions on fixed-shape arrays; np.log(x) = Ln(x) with Ln(a/b)=Ln(a)-Ln(b) for a,b>0',
    'scipy.interpolate.InterpolatedUnivariateSpline': 'spline(t) is a real function SplineVal(id,t) interpolating its knots; '
             '.integral(a,b) is its exact integral SplineInt(id,a,b) (additive, zero on empty interval)',
    'scipy.integrate.quad': 'quad(f,a,b)[0] is the exact integral of f over [a,b] (numerical error ~1e-8 not modelled)',
    'pmutt.constants': 'R(units) is a positive constant depending only on the unit string; T0("K") = 298.15; '
             'S_elements is a fixed table',
    'warnings.warn': 'records a warning (ghost effect), returns None',
    'math.isclose': 'isclose(a,b,rel_tol=r) <=> |a-b| <= r*max(|a|,|b|)',
    'python': 'int = mathematical integer; dict iteration = insertion order; set iteration order arbitrary',
}


def spline_ctor(I, args, kw):
    ctx = I.ctx
    sid = ctx.fresh('spline_id', 'int')
    o = Obj(SplineCls, {'id': sid, 'x': args[0], 'y': args[1], 'k': kw.get('k', args[2] if len(args) > 2 else 3)})
    ctx.effect('spline-built', o)
    return o


def spline_call(I, sp, t):
    if isinstance(t, NDArr):
        return NDArr(t.shape, [spline_call(I, sp, x) for x in t.items])
    t = z3_of(t)
    if z3.is_int(t):
        t = z3.ToReal(t)
    return SplineVal(sp.fields['id'], t)


def spline_integral(I, sp, a, b):
    a, b = z3_of(a), z3_of(b)
    a = z3.ToReal(a) if z3.is_int(a) else a
    b = z3.ToReal(b) if z3.is_int(b) else b
    return SplineInt(sp.fields['id'], a, b)


def quad(I, args, kw):
    """quad(f, a, b): the integrand is evaluated at an arbitrary point t0 between a and b; the obligation
    'integrand' ties it to a known integrand shape, and the result is the corresponding exact integral."""
    f, a, b = args[:3]
    ctx = I.ctx
    t0 = ctx.fresh('quad_t', 'real')
    a, b = z3_of(a), z3_of(b)
    ctx.assume(z3.Or(z3.And(a <= t0, t0 <= b), z3.And(b <= t0, t0 <= a)))
    e = I.call(f, [t0], {})
    # recognise integrand spline(t)/t
    sid = ctx.ghost.get('quad_spline_id')
    if sid is None:
        raise Unsupported('quad: contract does not name the spline the integrand should use')
    ctx.oblige('quad-integrand-is-spline(t)/t', e == SplineVal(sid, t0) / t0, site='integrate(...)')
    return (SplineIntOverT(sid, a, b), z3.RealVal(0))


def extern_call_obj(I, f, args, kw):
    return NotImplementedVal


class ThermoWorld(World):
    """World with the extern models used by the thermochemistry layer."""
    def __init__(self):
        World.__init__(self)
        self.externs['numpy'] = npmodel.namespace()
        self.externs['scipy.interpolate.InterpolatedUnivariateSpline'] = Builtin('InterpolatedUnivariateSpline', spline_ctor)
        self.externs['scipy.integrate.quad'] = Builtin('quad', quad)
        consts = Namespace('pmutt.constants', {
            'R': Builtin('pmutt.constants.R', self._R),
            'T0': Builtin('pmutt.constants.T0', lambda I, a, k: 298.15),
        })
        self.externs['pmutt'] = Namespace('pmutt', {'constants': consts})
        self.externs['pmutt.constants'] = consts
        self.externs['warnings.warn'] = Builtin('warn', self._warn)
        self.externs['math.isclose'] = Builtin('isclose', self._isclose)
        self.externs['abc'] = Namespace('abc', {'ABCMeta': BuiltinClass('ABCMeta'),
                                                'abstractmethod': Builtin('abstractmethod', lambda I, a, k: a[0])})
        mapping = BuiltinClass('Mapping')
        mapping.instancecheck = lambda I, v: isinstance(v, dict) or (isinstance(v, Obj) and (
            v.cls.name in ('GroupsMapping', 'ContentsMap') or any(c.name == 'Mapping' for c in I.world.mro(v.cls))))
        self.externs['collections.abc.Mapping'] = mapping
        self.externs['collections.defaultdict'] = Builtin('defaultdict', lambda I, a, k: {})
        self.attr_hooks.append(self._spline_attr)

    def _R(self, I, a, k):
        u = k.get('units', a[0] if a else None)
        if isinstance(u, FmtStr):
            # '{}/K'.format(units)
            p = u.parts[0]
            if p[0] == 'format' and p[1] == '{}/K':
                u = z3.Concat(z3_of(p[2][0]), z3.StringVal('/K'))
            else:
                raise Unsupported('R(units) with opaque units')
        r = Rconst(z3_of(u))
        I.ctx.assume(r > 0)
        return r

    def _warn(self, I, a, k):
        cat = a[1] if len(a) > 1 else k.get('category')
        I.ctx.effect('warn', getattr(cat, 'name', None))
        return None

    def _isclose(self, I, a, k):
        x, y = num_pair(a[0], a[1])
        x = z3.ToReal(x) if z3.is_int(x) else x
        y = z3.ToReal(y) if z3.is_int(y) else y
        rel = z3_of(k.get('rel_tol', 1e-9))
        ab = lambda t: z3.If(t >= 0, t, -t)
        mx = z3.If(ab(x) >= ab(y), ab(x), ab(y))
        return ab(x - y) <= rel * mx

    def call_obj(self, I, f, args, kwargs):
        if f.cls is SplineCls:
            return spline_call(I, f, args[0])
        return NotImplementedVal

    def _spline_attr(self, I, v, name):
        if isinstance(v, Obj) and v.cls is SplineCls:
            if name == 'integral':
                return Builtin('spline.integral', lambda I, a, k: spline_integral(I, v, a[0], a[1]))
            if name == '__call__':
                return Builtin('spline.__call__', lambda I, a, k: spline_call(I, v, a[0]))
        return NotImplementedVal


def call_extern_obj(I, f, args, kwargs):
    if isinstance(f, Obj) and f.cls is SplineCls:
        return spline_call(I, f, args[0])
    return NotImplementedVal


def error_class(name):
    return source.module('pgradd/Error.py').classes[name]


def fval(x):
    """python value of a model number"""
    from fractions import Fraction
    if isinstance(x, Fraction):
        return float(x)
    return x
