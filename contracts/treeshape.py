"""Shapes of the syntax trees that the RING parser can hand to the tree readers, derived on every run from the REAL grammar
objects (pgradd.RINGParser.Grammar), and symbolic trees of those shapes for the reader units.

A node of rule X is the list [RINGToken(X), child, ...] (ParseState.parse, `rule name` form, proved in C09comb).  The children
sequence is a word of the finite language of the rule body:
    All = concatenation, Optional = empty | body, Either = union, Literals/Literal = one of the strings (a str child),
    Filler / EOS = no child, String = a non-empty str child, Digit = an int child 0..9 (n = 1) , Number = an int child
    0 <= n < 10**18 (the scanner refuses more than 18 digits), rule name = a node child of that rule.
ZeroOrMore (not used by the shipped grammars) or any other combinator makes the derivation Unsupported -> the units are undecided.

Symbolic trees: the node under a reader is a python list; its node children are python lists one level down, whose own node
children are OPAQUE well-formed nodes (class WFNode): any look inside an opaque node is Unsupported (undecided), never an exception
of the program.  Children chosen from a literal set with more than one member are z3 strings constrained to the set (the reader forks
only where it compares them); String children are z3 strings of length >= 1."""
import itertools

import z3

from pyvc import source
from pyvc.engine import Obj, Unsupported, is_z3, z3_of
from pyvc.source import BuiltinClass

PARSER = 'pgradd/RINGParser/Parser.py'
WFNode = BuiltinClass('WFNode')
NUMBER_BOUND = 10 ** 18


def _opaque_len(I, v):
    raise Unsupported('len() of an opaque well-formed %s node (the unit does not expand it)' % v.fields['rule'])


WFNode.len_hook = _opaque_len


class Shapes:
    """expansions[rule] = list of tuples of items; item = ('node', rule) | ('lits', (s, ...)) | ('string',) | ('digit',) | ('number',)"""
    def __init__(self, which='enhanced_grammar'):
        from pgradd.RINGParser import Grammar, Parser as P
        self.which = which
        self.root, self.rules = getattr(Grammar, which)
        self.P = P
        self.exp = {}
        for name, body in self.rules.items():
            self.exp[name] = self._dedup(self._expand(body))

    @staticmethod
    def _dedup(xs):
        out = []
        for x in xs:
            if x not in out:
                out.append(x)
        return out

    def _expand(self, p):
        P = self.P
        if isinstance(p, str):
            return [(('node', p),)]
        if isinstance(p, P.Literals):
            return [(('lits', tuple(sorted(a.tok for a in p.alts))),)]
        t = type(p)
        if t is P.Literal or t is P.DeprecatedLiteral:
            return [(('lits', (p.tok,)),)]
        if t is P.Filler or t is P.EOS:
            return [()]
        if t is P.String:
            return [(('string',),)]
        if t is P.Digit:
            if p.n != 1:
                raise Unsupported('Digit(n=%r) in the grammar' % (p.n,))
            return [(('digit',),)]
        if t is P.Number:
            return [(('number',),)]
        if t is P.Optional:
            return [()] + self._expand(p.opt)
        if t is P.All:
            parts = [self._expand(r) for r in p.reqs]
            return [tuple(itertools.chain(*combo)) for combo in itertools.product(*parts)]
        if t is P.Either:
            out = []
            for a in p.alts:
                out.extend(self._expand(a))
            return out
        raise Unsupported('grammar combinator %s has no tree-shape derivation' % t.__name__)


_cache = {}


def shapes(which='enhanced_grammar'):
    if which not in _cache:
        _cache[which] = Shapes(which)
    return _cache[which]


def tok(name):
    return Obj(source.module(PARSER).classes['RINGToken'], {'name': name}, 'param')


def opaque(rule):
    return Obj(WFNode, {'rule': rule}, 'param')


def gen_item(I, G, it, depth, tag):
    ctx = I.ctx
    kind = it[0]
    if kind == 'node':
        if depth <= 0:
            return opaque(it[1])
        return [tok(it[1])] + gen_children(I, G, it[1], depth - 1, tag + it[1] + '.')
    if kind == 'lits':
        if len(it[1]) == 1:
            return it[1][0]
        s = ctx.fresh(tag + 'lit', 'str')
        ctx.assume(z3.Or([s == z3.StringVal(x) for x in it[1]]))
        return s
    if kind == 'string':
        s = ctx.fresh(tag + 'str', 'str')
        ctx.assume(z3.Length(s) >= 1)
        return s
    if kind == 'digit':
        d = ctx.fresh(tag + 'digit', 'int')
        ctx.assume(z3.And(d >= 0, d <= 9))
        return d
    if kind == 'number':
        d = ctx.fresh(tag + 'number', 'int')
        ctx.assume(z3.And(d >= 0, d < NUMBER_BOUND))
        return d
    raise Unsupported('item kind %r' % (kind,))


def gen_children(I, G, rule, depth, tag=''):
    """children list of a well-formed node of `rule`: one expansion is chosen (all are explored)"""
    exps = G.exp[rule]
    k = I.ctx.choose([True] * len(exps), 'shape of ' + rule) if len(exps) > 1 else 0
    return [gen_item(I, G, it, depth, '%s%d.' % (tag, j)) for j, it in enumerate(exps[k])]


def gen_node(I, G, rule, depth, tag=''):
    return [tok(rule)] + gen_children(I, G, rule, depth, tag)


def _match_item(G, it, v):
    """None if the value cannot be a child of this kind, else a list of z3 side conditions"""
    kind = it[0]
    if kind == 'node':
        if isinstance(v, Obj) and v.cls is WFNode:
            return [] if v.fields['rule'] == it[1] else None
        if isinstance(v, list) and v and isinstance(v[0], Obj) and v[0].cls.name == 'RINGToken' and v[0].fields.get('name') == it[1]:
            return match_children(G, it[1], v[1:])
        return None
    if kind == 'lits':
        if isinstance(v, str):
            return [] if v in it[1] else None
        if is_z3(v) and z3.is_string(v):
            return [z3.Or([v == z3.StringVal(x) for x in it[1]])]
        return None
    if kind == 'string':
        if isinstance(v, str):
            return [] if v else None
        if is_z3(v) and z3.is_string(v):
            return [z3.Length(v) >= 1]
        return None
    if kind in ('digit', 'number'):
        hi = 9 if kind == 'digit' else NUMBER_BOUND - 1
        if isinstance(v, bool):
            return None
        if isinstance(v, int):
            return [] if 0 <= v <= hi else None
        if is_z3(v) and z3.is_int(v):
            return [z3.And(v >= 0, v <= hi)]
        return None
    return None


def match_children(G, rule, lst):
    """None if `lst` is structurally not the children list of a `rule` node; else list of z3 formulas (their disjunction over the
    structurally matching expansions is returned as one formula in a 1-element list)"""
    if not isinstance(lst, list):
        return None
    alts = []
    for e in G.exp.get(rule, []):
        if len(e) != len(lst):
            continue
        cs, ok = [], True
        for it, v in zip(e, lst):
            m = _match_item(G, it, v)
            if m is None:
                ok = False
                break
            cs.extend(m)
        if ok:
            alts.append(z3.And(cs) if cs else z3.BoolVal(True))
    if not alts:
        return None
    return [z3.Or(alts)]


def oblige_children(I, G, rule, lst, site):
    """precondition of a reader: its tree argument is the children list of a well-formed node of `rule`"""
    m = match_children(G, rule, lst)
    goal = z3.BoolVal(False) if m is None else z3.And(m)
    I.ctx.oblige('callee receives the children of a well-formed %s node' % rule, goal, site=site)
