"""C09, tree readers: for EVERY syntax tree the grammar can produce (shapes derived from the real grammar objects on every run, see
treeshape.py; recursion through contracts, so trees of any size), each reader method ends by returning or by raising RINGReaderError /
NotImplementedError -- never AssertionError, IndexError, KeyError, TypeError, UnboundLocalError, RuntimeError (RDKit) ... -- and hands
each reader it calls the children of a well-formed node of the rule that reader expects (precondition of the callee, an obligation at
the call site).  Modular: a call of another reader method is replaced by its contract (requires: tree shape + state invariant;
ensures: returns a value of the promised kind or raises one of the two allowed classes; state invariant again); the method's own body
is interpreted from /repo's current source.  Constructors / Append* methods of the query classes are interpreted inline (their
assertions count).

State abstractions (arbitrary size): the label list of a query (`atom_names`) and the per-atom lists of the rule reader are lists of
symbolic length (AbsList: index() finds a position inside the list or raises ValueError; item access outside the list raises IndexError);
the query molecule is an abstract RWMol with a symbolic atom count and a bond relation (AddBond raises RuntimeError for a self bond, a
repeated bond or an index outside the molecule; GetBondBetweenAtoms answers None or a bond and records which).
Invariants: MolQuery: len(atom_names) == number of atoms of mol; rule reader: len(electronbalance) == len(atom_names) <= len(atom_belonging_mol).
Assumed (listed in the evidence): Chem.Atom(symbol) raises RuntimeError for a text that is no element symbol and nothing else;
rdqueries constructors and ExpandQuery do not raise; readers are constructed the way Reader.ReadRINGInput constructs them (RINGgroups None)."""
import z3

from pyvc import source
from pyvc.engine import Obj, Builtin, Namespace, Unsupported, NotImplementedVal, is_z3, z3_of, DefaultDict
from pyvc.source import BuiltinClass
from pyvc.verify import Unit, run_target
from . import C08 as c08, chem, treeshape as ts

MQR = 'pgradd/RINGParser/MolQueryRead.py'
RQR = 'pgradd/RINGParser/ReactionQueryRead.py'
RDR = 'pgradd/RINGParser/Reader.py'
MQ = 'pgradd/RDkitWrapper/MolQuery.py'
RQ = 'pgradd/RDkitWrapper/ReactionQuery.py'
ALLOWED = ('RINGReaderError', 'NotImplementedError')
IS, BS, SS = z3.IntSort(), z3.BoolSort(), z3.StringSort()

AbsList = BuiltinClass('AbsList')
AbsRWMol = BuiltinClass('AbsRWMol')
AbsBond = BuiltinClass('AbsBond')
AbsAtom = BuiltinClass('AbsQueryAtomOfMol')
AbsDict = BuiltinClass('AbsReactantDict')
HasBond = z3.Function('HasBond', IS, IS, IS, BS)
IsLower = z3.Function('IsLowerChar', SS, BS)
Upper = z3.Function('UpperOf', SS, SS)

TRUSTED = ['tree readers: Chem.Atom(text) raises RuntimeError exactly when the text is no element symbol and raises nothing else; rdqueries constructors, '
           'ExpandQuery, GetPeriodicTable().GetDefaultValence do not raise; RWMol.AddBond raises RuntimeError for a self bond, a repeated bond or an atom '
           'index outside the molecule and nothing else; GetBondBetweenAtoms raises RuntimeError for an index outside the molecule',
           'tree readers: the tree handed to Reader is a well-formed RINGInput node of the shapes derived from the grammar objects (link parser -> shapes: '
           'ParseState.parse appends [RINGToken(rule)] + children, proved in C09comb; the leaf kinds per scanner are read off the scanner classes; '
           'cross-checked at run time on generated texts by the data obligation tree-shapes-vs-parser)',
           'tree readers: readers are constructed as Reader.ReadRINGInput does (RINGgroups None); str.upper / str.islower on a symbolic symbol are '
           'uninterpreted (upper keeps the length); numbers are mathematical integers / reals (18-digit bound of the Number scanner)']


# ---------------------------------------------------------------------------------------------------------------
# abstract state
def mk_list(I, tag, elem='str', length=None):
    ctx = I.ctx
    n = ctx.fresh(tag + '_len', 'int') if length is None else length
    if length is None:
        ctx.assume(n >= 0)
    return Obj(AbsList, {'len': n, 'elem': elem, 'tag': tag}, 'param')


ElemNum = z3.Function('NumberAt', IS, IS, z3.RealSort())     # element i of the number list with version id v (lists whose CONTENTS a unit speaks about)


def _fresh_elem(I, o, i=None):
    e = o.fields['elem']
    if e == 'num' and i is not None and o.fields.get('ver') is not None:
        return ElemNum(o.fields['ver'], z3.If(i >= 0, i, o.fields['len'] + i))
    if e == 'str':
        return I.ctx.fresh(o.fields['tag'] + '_item', 'str')
    if e == 'num':
        return I.ctx.fresh(o.fields['tag'] + '_item', 'real')
    raise Unsupported('element of an abstract list of %s' % e)


def _member(I, o, x):
    """is x an element?  Decided once per (list, term) along a path, so that `x in L`, `L.index(x)` and `L.count(x)` agree; forgotten when the list grows"""
    ctx = I.ctx
    seen = o.fields.setdefault('member', [])
    for t, ans in seen:
        if (is_z3(t) and is_z3(x) and t.eq(x)) or (not is_z3(t) and not is_z3(x) and t == x):
            return ans
    ans = ctx.choose([z3.BoolVal(True), o.fields['len'] > 0], 'element of the list: absent / present') == 1
    seen.append((x, ans))
    return ans


def _list_attr(I, o, name):
    ctx = I.ctx
    if name == 'index':
        def index(I_, a, k):
            if len(a) != 1 or k:
                raise Unsupported('list.index with start / stop')
            n = o.fields['len']
            if not _member(I_, o, a[0]):
                raise I_.exc('ValueError', 'x is not in list')
            i = ctx.fresh(o.fields['tag'] + '_pos', 'int')
            ctx.assume(z3.And(i >= 0, i < n))
            return i
        return Builtin('list.index', index)
    if name == 'append':
        def append(I_, a, k):
            o.fields['len'] = z3.simplify(o.fields['len'] + 1)
            o.fields['member'] = [(t, ans) for t, ans in o.fields.get('member', []) if ans]     # what was present stays present
        return Builtin('list.append', append)
    if name == 'extend':
        def extend(I_, a, k):
            n = _len_of(I_, a[0])
            if n is None:
                raise Unsupported('list.extend with %r' % (a[0],))
            o.fields['len'] = z3.simplify(o.fields['len'] + n)
            o.fields['member'] = [(t, ans) for t, ans in o.fields.get('member', []) if ans]
        return Builtin('list.extend', extend)
    if name == 'count':
        def count(I_, a, k):
            if not _member(I_, o, a[0]):
                return 0
            c = ctx.fresh(o.fields['tag'] + '_count', 'int')
            ctx.assume(z3.And(c >= 1, c <= o.fields['len']))
            return c
        return Builtin('list.count', count)
    return NotImplementedVal


def _list_contains(I, o, item):
    return _member(I, o, item)


def _list_symseq(I, o):
    """the list as a sequence of symbolic length (for a loop under an invariant, zip, a comprehension): element i as item access gives it"""
    from pyvc.engine import SymSeq
    return SymSeq(o.fields['len'], lambda i: _fresh_elem(I, o, z3_of(i)), o.fields['tag'])


def _list_index(I, o, idx):
    if isinstance(idx, bool) or not (isinstance(idx, int) or (is_z3(idx) and z3.is_int(idx))):
        raise I.exc('TypeError', 'list indices must be integers')
    i, n = z3_of(idx), o.fields['len']
    if I.ctx.branch(z3.Or(i >= n, i < -n)):
        raise I.exc('IndexError', 'list index out of range')
    return _fresh_elem(I, o, i)


def _list_setitem(I, o, idx, v):
    if isinstance(idx, bool) or not (isinstance(idx, int) or (is_z3(idx) and z3.is_int(idx))):
        raise I.exc('TypeError', 'list indices must be integers')
    i, n = z3_of(idx), o.fields['len']
    if I.ctx.branch(z3.Or(i >= n, i < -n)):
        raise I.exc('IndexError', 'list assignment index out of range')
    if o.fields.get('ver') is not None:
        o.fields['ver'] = I.ctx.fresh('list_version', 'int')      # contents changed: a new version, nothing known about it
    return None


def _len_of(I, v):
    if isinstance(v, Obj) and v.cls is AbsList:
        return v.fields['len']
    if isinstance(v, (list, tuple)):
        return z3.IntVal(len(v))
    if isinstance(v, str):
        return z3.IntVal(len(v))
    if is_z3(v) and z3.is_string(v):
        return z3.Length(v)
    return None


def _list_binop(I, op, a, b):
    import ast
    if op is ast.Add and isinstance(a, Obj) and a.cls is AbsList:
        n = _len_of(I, b)
        if n is None:
            raise I.exc('TypeError', 'can only concatenate list to list')
        return Obj(AbsList, {'len': z3.simplify(a.fields['len'] + n), 'elem': a.fields['elem'], 'tag': a.fields['tag']}, 'fresh')
    return NotImplementedVal


AbsList.len_hook = lambda I, v: v.fields['len']


def mk_rwmol(I, tag='mol', natoms=None):
    ctx = I.ctx
    n = natoms if natoms is not None else ctx.fresh(tag + '_natoms', 'int')
    if natoms is None:
        ctx.assume(n >= 0)
    return Obj(AbsRWMol, {'natoms': n, 'ver': ctx.fresh(tag + '_bonds', 'int'), 'tag': tag}, 'param')


def _idx_ok(i, n):
    return z3.And(i >= 0, i < n)


def _rw_attr(I, o, name):
    ctx = I.ctx
    f = o.fields
    if name == 'AddAtom':
        def add(I_, a, k):
            i = f['natoms']
            f['natoms'] = z3.simplify(i + 1)
            return i
        return Builtin('RWMol.AddAtom', add)
    if name == 'AddBond':
        def addb(I_, a, k):
            if len(a) < 2 or not all(isinstance(x, int) or (is_z3(x) and z3.is_int(x)) for x in a[:2]):
                raise I_.exc('TypeError', 'AddBond: atom indices must be integers')
            i, j = z3_of(a[0]), z3_of(a[1])
            bad = z3.Or(z3.Not(_idx_ok(i, f['natoms'])), z3.Not(_idx_ok(j, f['natoms'])), i == j, HasBond(f['ver'], i, j), HasBond(f['ver'], j, i))
            if ctx.branch(bad):
                raise I_.exc('RuntimeError', 'Pre-condition Violation: self bond / bond already exists / bad atom index')
            f['ver'] = ctx.fresh(f['tag'] + '_bonds', 'int')
            return None
        return Builtin('RWMol.AddBond', addb)
    if name == 'GetBondBetweenAtoms':
        def gb(I_, a, k):
            if len(a) < 2 or not all(isinstance(x, int) or (is_z3(x) and z3.is_int(x)) for x in a[:2]):
                raise I_.exc('TypeError', 'GetBondBetweenAtoms: atom indices must be integers')
            i, j = z3_of(a[0]), z3_of(a[1])
            if ctx.branch(z3.Or(z3.Not(_idx_ok(i, f['natoms'])), z3.Not(_idx_ok(j, f['natoms'])))):
                raise I_.exc('RuntimeError', 'Range Error: atom index outside the molecule')
            if ctx.branch(z3.Or(HasBond(f['ver'], i, j), HasBond(f['ver'], j, i))):
                ctx.assume(z3.And(HasBond(f['ver'], i, j), HasBond(f['ver'], j, i), i != j))
                return Obj(AbsBond, {'code': ctx.fresh('bondcode', 'int')}, 'param')
            return None
        return Builtin('RWMol.GetBondBetweenAtoms', gb)
    if name == 'GetAtomWithIdx':
        def ga(I_, a, k):
            if not (isinstance(a[0], int) or (is_z3(a[0]) and z3.is_int(a[0]))) or isinstance(a[0], bool):
                raise I_.exc('TypeError', 'GetAtomWithIdx: integer expected')
            if ctx.branch(z3.Not(_idx_ok(z3_of(a[0]), f['natoms']))):
                raise I_.exc('RuntimeError', 'Range Error')
            return Obj(AbsAtom, {}, 'param')
        return Builtin('RWMol.GetAtomWithIdx', ga)
    return NotImplementedVal


def _bond_attr(I, o, name):
    if name == 'GetBondType':
        return Builtin('Bond.GetBondType', lambda I_, a, k: chem.bondtype(o.fields['code']))
    return NotImplementedVal


def _atom_attr(I, o, name):
    if name == 'GetSymbol':
        return Builtin('Atom.GetSymbol', lambda I_, a, k: I_.ctx.fresh('atom_symbol', 'str'))
    if name in ('GetNumRadicalElectrons', 'GetFormalCharge'):
        return Builtin('Atom.' + name, lambda I_, a, k: I_.ctx.fresh(name, 'int'))
    return NotImplementedVal


class RdW(c08.RW):
    """world of the reader units: C08's recording abstractions of rdqueries / Chem.Atom plus the abstract state above"""
    def __init__(self):
        c08.RW.__init__(self)
        self.abstract['AbsList'] = {'attr': _list_attr, 'index': _list_index, 'setitem': _list_setitem, 'binop': _list_binop, 'contains': _list_contains, 'symseq': _list_symseq}
        self.abstract['AbsRWMol'] = {'attr': _rw_attr}
        self.abstract['AbsBond'] = {'attr': _bond_attr}
        self.abstract['AbsQueryAtomOfMol'] = {'attr': _atom_attr}
        self.abstract['WFNode'] = {'attr': self._opaque, 'index': self._opaque}
        self.extern_truth['AbsList'] = lambda I, o: o.fields['len'] > 0
        self.extern_truth['AbsRWMol'] = lambda I, o: True
        self.extern_truth['AbsBond'] = lambda I, o: True
        ch = self.externs['rdkit.Chem']
        ch.members['Mol'] = Builtin('Chem.Mol', lambda I, a, k: Obj(BuiltinClass('EmptyMol'), {}, 'fresh'))
        ch.members['RWMol'] = Builtin('Chem.RWMol', lambda I, a, k: mk_rwmol(I, 'newmol', natoms=z3.IntVal(0)))
        stereo = Namespace('BondStereo', {n: n for n in ('STEREOZ', 'STEREOE', 'STEREONONE', 'STEREOANY', 'STEREOCIS', 'STEREOTRANS')})
        ch.members['rdchem'].members['BondStereo'] = stereo
        ch.members['BondStereo'] = stereo

    def _opaque(self, I, o, *a):
        raise Unsupported('the reader looks inside an opaque well-formed %s node (expand it in the unit)' % o.fields['rule'])

    def seq_binop_hook(self, I, op, a, b):
        import ast
        # [x] * n with a symbolic n: a list of symbolic length
        if op is ast.Mult and isinstance(a, list) and len(a) == 1 and is_z3(b) and z3.is_int(b):
            n = I.ctx.fresh('rep_len', 'int')
            I.ctx.assume(n == z3.If(b > 0, b, 0))
            kind = 'num' if isinstance(a[0], (int, float)) or (is_z3(a[0]) and not z3.is_string(a[0])) else 'str'
            return Obj(AbsList, {'len': n, 'elem': kind, 'tag': 'rep'}, 'fresh')
        return NotImplementedVal

    def str_method_hook(self, I, v, name):
        if is_z3(v) and z3.is_string(v):
            if name == 'islower':
                return Builtin('str.islower', lambda I_, a, k: IsLower(v))
            if name == 'upper':
                def up(I_, a, k):
                    u = Upper(v)
                    I_.ctx.assume(z3.Length(u) == z3.Length(v))
                    return u
                return Builtin('str.upper', up)
        return NotImplementedVal

    def str_class_hook(self, I, v, name):
        raise Unsupported('character class of a symbolic string')


def rworld():
    return RdW()


def G():
    return ts.shapes('enhanced_grammar')


def cls_of(relpath, name):
    return source.module(relpath).classes[name]


def an_atom_constraint():
    return Obj(cls_of(MQ, 'AtomIsInRing'), {'negate': False}, 'param')


def a_query_atom(tag='qa'):
    return Obj(c08.QAtom, {'prim': (tag,), 'expanded': []}, 'param')


def mk_molquery(I, tag='mq'):
    """a MolQuery in the middle of being read: any number of atoms, len(atom_names) == number of atoms"""
    mol = mk_rwmol(I, tag + '_mol')
    names = mk_list(I, tag + '_names', 'str', length=mol.fields['natoms'])
    return Obj(cls_of(MQ, 'MolQuery'), {'mol': mol, 'atom_names': names, 'mol_constraints': [], 'atom_constraints': c08._defaultdict(I, [I.world.types['list']], {}),
                                        'bond_constraints': [], 'double_bond_stereo_constraints': []}, 'param')


def norm_mq(mq):
    """a query fresh from MolQuery(): the (empty) concrete label list is viewed as a list of symbolic length"""
    f = mq.fields
    if isinstance(f.get('atom_names'), list):
        f['atom_names'] = Obj(AbsList, {'len': z3.IntVal(len(f['atom_names'])), 'elem': 'str', 'tag': 'names'}, 'fresh')
    return mq


def mq_inv(mq):
    f = norm_mq(mq).fields
    if not (isinstance(f.get('mol'), Obj) and f['mol'].cls is AbsRWMol and isinstance(f.get('atom_names'), Obj) and f['atom_names'].cls is AbsList):
        return z3.BoolVal(False)
    return z3.And(f['atom_names'].fields['len'] == f['mol'].fields['natoms'], f['mol'].fields['natoms'] >= 0)


def mq_grow(I, mq, at_least):
    """effect of reading more atoms / bonds into the query: more atoms (at least `at_least`), labels in step, unknown bonds"""
    ctx = I.ctx
    m, nl = mq.fields['mol'], mq.fields['atom_names']
    n2 = ctx.fresh('natoms_after', 'int')
    ctx.assume(n2 >= m.fields['natoms'] + at_least)
    m.fields['natoms'] = n2
    m.fields['ver'] = ctx.fresh('bonds_after', 'int')
    nl.fields['len'] = n2


def mk_mq_reader(I, tree=None):
    return Obj(cls_of(MQR, 'MolQueryReader'), {'tree': tree, 'RINGgroups': None}, 'param')


# ---------------------------------------------------------------------------------------------------------------
# contracts of the reader methods (callee side).  rule: name or tuple of alternatives
def _oblige_tree(I, rules, tree, site):
    g = G()
    rules = (rules,) if isinstance(rules, str) else rules
    ms = [ts.match_children(g, r, tree) for r in rules]
    ms = [z3.And(m) for m in ms if m is not None]
    I.ctx.oblige('callee receives the children of a well-formed %s node' % ' / '.join(rules), z3.Or(ms) if ms else z3.BoolVal(False), site=site)


def _may_raise(I, site, classes=ALLOWED):
    c = I.ctx.choose([True] * (1 + len(classes)), 'outcome of ' + site)
    if c:
        raise I.exc(classes[c - 1], 'raised by ' + site)


def _is_int(v):
    return (isinstance(v, int) and not isinstance(v, bool)) or (is_z3(v) and z3.is_int(v))


def _req_mq(I, mq, site):
    ok = isinstance(mq, Obj) and mq.cls.name == 'MolQuery'
    I.ctx.oblige('callee receives the query under construction with len(atom_names) == number of atoms', mq_inv(mq) if ok else z3.BoolVal(False), site=site)


def mqr_contracts(I):
    W = I.world

    def reg(name, fn):
        W.contracts[(MQR, 'MolQueryReader.' + name)] = fn

    def leaf(rule, name, result):
        def h(I_, a, k):
            _oblige_tree(I_, rule, a[1], name)
            return result(I_, a)
        reg(name, h)

    def raising(rule, name, result, pre=None):
        def h(I_, a, k):
            _oblige_tree(I_, rule, a[1], name)
            if pre:
                pre(I_, a)
            _may_raise(I_, name)
            return result(I_, a)
        reg(name, h)
    leaf('BondType', 'ReadBondTypeAtomConstraint', lambda I_, a: Obj(cls_of(MQ, 'BondQuery'), {'RINGbondname': a[1][0]}, 'param'))
    leaf('GroupName', 'ReadGroupName', lambda I_, a: a[1][0])
    for nm, rule in (('ReadAtomConstraintConnectivity', 'AtomConstraintConnectivity'), ('ReadAtomConstraintRing', 'AtomConstraintRing'),
                     ('ReadAtomConstraintRadical', 'AtomConstraintRadical'), ('ReadAtomConstraintNRing', 'AtomConstraintNRing'),
                     ('ReadAtomConstraints', 'AtomConstraints')):
        raising(rule, nm, lambda I_, a: an_atom_constraint())
    leaf('AtomPrefix', 'ReadAtomPrefix', lambda I_, a: an_atom_constraint())
    raising('Symbols', 'ReadSymbols', lambda I_, a: a_query_atom('from-ReadSymbols'))

    def suffix(I_, a, k):
        _oblige_tree(I_, 'AtomSuffix', a[1], 'ReadAtomSuffix')
        I_.ctx.oblige('ReadAtomSuffix receives a query atom (something with ExpandQuery)', z3.BoolVal(isinstance(a[2], Obj) and a[2].cls is c08.QAtom), site='ReadAtomSuffix')
        _may_raise(I_, 'ReadAtomSuffix')
        return [None, an_atom_constraint()][I_.ctx.choose([True, True], 'suffix constraint: none / one')]
    reg('ReadAtomSuffix', suffix)

    def atomtype(I_, a, k):
        _oblige_tree(I_, 'AtomType', a[1], 'ReadAtomType')
        _may_raise(I_, 'ReadAtomType')
        cons = [[], [an_atom_constraint(), an_atom_constraint()]][I_.ctx.choose([True, True], 'type constraints: none / some')]
        return (a_query_atom('from-ReadAtomType'), cons)
    reg('ReadAtomType', atomtype)

    def chain(I_, a, k):
        _oblige_tree(I_, 'AtomConstraintChain', a[1], 'ReadAtomConstraintChain')
        _req_mq(I_, a[2], 'ReadAtomConstraintChain')
        I_.ctx.oblige('constraints are attached to an integer atom index', z3.BoolVal(len(a) > 3 and _is_int(a[3])), site='ReadAtomConstraintChain')
        _may_raise(I_, 'ReadAtomConstraintChain')
        return None
    reg('ReadAtomConstraintChain', chain)

    def bondtype(I_, a, k):
        # ReadBondTypeBondedAtom(idx, idx_connected, bondtype, molquery)
        ok = len(a) == 5 and _is_int(a[1]) and _is_int(a[2]) and (isinstance(a[3], str) or (is_z3(a[3]) and z3.is_string(a[3])))
        I_.ctx.oblige('ReadBondTypeBondedAtom receives two integer atom indices and the bond kind text', z3.BoolVal(bool(ok)), site='ReadBondTypeBondedAtom')
        if ok:
            n = a[4].fields['mol'].fields['natoms'] if isinstance(a[4], Obj) and a[4].cls.name == 'MolQuery' else None
            I_.ctx.oblige('... both indices are atoms of the query', z3.And(_idx_ok(z3_of(a[1]), n), _idx_ok(z3_of(a[2]), n)) if n is not None else z3.BoolVal(False),
                          site='ReadBondTypeBondedAtom')
            _req_mq(I_, a[4], 'ReadBondTypeBondedAtom')
        _may_raise(I_, 'ReadBondTypeBondedAtom')
        a[4].fields['mol'].fields['ver'] = I_.ctx.fresh('bonds_after', 'int')
        return [None, True][I_.ctx.choose([True, True], 'any-bond flag')]
    reg('ReadBondTypeBondedAtom', bondtype)

    def stmt(rule, name, grow):
        def h(I_, a, k):
            _oblige_tree(I_, rule, a[1], name)
            _req_mq(I_, a[2], name)
            _may_raise(I_, name)
            mq_grow(I_, a[2], grow)
            return None
        reg(name, h)
    stmt('Atom', 'ReadAtom', 1)
    stmt('BondedAtom', 'ReadBondedAtom', 1)
    stmt('RingBond', 'ReadRingBond', 0)
    stmt('StereoDoubleBond', 'ReadStereoDoubleBond', 0)
    stmt('AtomChain', 'ReadAtomChain', 0)
    stmt('MolQuery', 'ReadMolQuery', 1)

    def prefix(I_, a, k):
        _oblige_tree(I_, 'Prefix', a[1], 'ReadMolQueryPrefix')
        I_.ctx.oblige('ReadMolQueryPrefix is only called for a prefix with at least one word', z3.BoolVal(isinstance(a[1], list) and len(a[1]) >= 1), site='ReadMolQueryPrefix')
        _req_mq(I_, a[2], 'ReadMolQueryPrefix')
        _may_raise(I_, 'ReadMolQueryPrefix')
        return None
    reg('ReadMolQueryPrefix', prefix)

    def read(I_, a, k):
        rd = a[0]
        _oblige_tree(I_, ('Fragment', 'ReactantQuery'), rd.fields.get('tree'), 'MolQueryReader.Read')
        _may_raise(I_, 'MolQueryReader.Read')
        mq = mk_molquery(I_, 'readmq')
        mq.fields['name'] = I_.ctx.fresh('query_name', 'str')
        I_.ctx.assume(mq.fields['mol'].fields['natoms'] >= 1)
        return mq
    reg('Read', read)


# ---------------------------------------------------------------------------------------------------------------
def safe_outcome(I, out, posts=None, allowed=ALLOWED, site=''):
    """the C09 clause for one reader: normal return (with the promised result / state) or one of the allowed error classes"""
    W = I.world
    if out.kind == 'raise':
        names = [c.name for c in W.mro(out.value.cls)]
        if any(n in allowed for n in names):
            I.ctx.oblige('raises only RINGReaderError / NotImplementedError', z3.BoolVal(True), site=site)
        else:
            I.ctx.oblige('no-unexpected-exception(%s)' % out.value.cls.name, z3.BoolVal(False), site=site, exc_args=str(out.value.fields.get('args'))[:200])
        return
    I.ctx.oblige('ends by returning', z3.BoolVal(True), site=site)
    for label, f in (posts(out.value) if posts else []):
        I.ctx.oblige(label, f, site=site)


def is_atom_constraint(I, v):
    return isinstance(v, Obj) and any(c.name == 'AtomConstraint' for c in I.world.mro(v.cls))


def replay_reader(model, state, ob):
    """A failed reader obligation names an exception class and a reader method; the model of a tree-shaped input is not a text.  The replay therefore SEARCHES
    for a text: grammar-generated fragments / rules (4000, fixed seed) through the real Read of the tree under test until one ends in that exception class with
    that method on the traceback.  Found -> a concrete failing input of this very obligation; not found -> no-failing-input-found."""
    import random
    import re
    import signal
    import traceback
    m = re.search(r'no-unexpected-exception\((\w+)\)', ob.get('name', ''))
    if not m:
        return None
    exc, site = m.group(1), str(ob.get('meta', {}).get('site', ''))
    if (exc, site) in _replay_cache:
        return _replay_cache[(exc, site)]
    r_ = _replay_search(exc, site)
    _replay_cache[(exc, site)] = r_
    return r_


_replay_cache = {}


def _replay_search(exc, site):
    import random
    import signal
    import traceback
    from . import C09 as c09
    from . import real
    from pgradd.RINGParser.Reader import Read

    class _T(Exception):
        pass

    def onalarm(sig, frm):
        raise _T()
    rnd = random.Random(7)
    old = signal.signal(signal.SIGALRM, onalarm)
    try:
        for i in range(4000):
            txt = ' '.join(c09.gen_text(rnd, root='RINGInput', maxdepth=rnd.choice([4, 7, 9])))
            signal.alarm(2)
            try:
                with real.quiet():
                    Read(txt)
            except _T:
                continue
            except Exception as e:    # noqa
                if type(e).__name__ == exc and (not site or site.split('(')[0] in ''.join(traceback.format_tb(e.__traceback__))):
                    signal.alarm(0)
                    return {'failed': True, 'input': txt, 'observed': '%s: %s' % (type(e).__name__, str(e)[:120]),
                            'expected': 'a query, RINGSyntaxError, RINGReaderError or NotImplementedError',
                            'script': "from pgradd.RINGParser.Reader import Read\nRead(%r)\n" % txt}
            finally:
                signal.alarm(0)
    finally:
        signal.signal(signal.SIGALRM, old)
    return {'failed': None, 'input': None, 'observed': 'no grammar-generated text among 4000 reproduced %s in %s' % (exc, site), 'expected': None}


replay_reader.model_free = True


def mqr_unit(method, rule, extra=None, posts=None, depth=1, pre=None):
    """unit for MolQueryReader.<method>(tree, *extra): tree = children of ANY well-formed `rule` node"""
    def run(I):
        mqr_contracts(I)
        tree = ts.gen_children(I, G(), rule, depth)
        if pre is not None and not pre(I, tree):
            return {'inputs': {}}
        st = {'tree': tree}
        args = [tree] + (extra(I, st) if extra else [])
        out = run_target(I, MQR, 'MolQueryReader.' + method, args, self_obj=mk_mq_reader(I))
        safe_outcome(I, out, (lambda r: posts(I, r, st)) if posts else None, site=method)
        return {'inputs': {}}
    u = Unit('reader-safety MolQueryReader.' + method, (MQR, 'MolQueryReader.' + method), run, replay_reader)
    u.world_factory = rworld
    return u


def with_mq(I, st):
    st['mq'] = mk_molquery(I)
    return [st['mq']]


def with_mq_idx(I, st):
    st['mq'] = mk_molquery(I)
    i = I.ctx.fresh('atom_idx', 'int')
    I.ctx.assume(_idx_ok(i, st['mq'].fields['mol'].fields['natoms']))
    return [st['mq'], i]


def p_constraint(I, r, st):
    return [('returns an atom constraint object', z3.BoolVal(is_atom_constraint(I, r)))]


def p_mq_inv(I, r, st):
    return [('the query keeps len(atom_names) == number of atoms', mq_inv(st['mq']))]


def p_mq_grew(k):
    def p(I, r, st):
        return [('the query keeps len(atom_names) == number of atoms', mq_inv(st['mq'])),
                ('at least %d atom(s) were added' % k, st['mq'].fields['mol'].fields['natoms'] >= st['n0'] + k)]
    return p


def with_mq_n0(I, st):
    st['mq'] = mk_molquery(I)
    st['n0'] = st['mq'].fields['mol'].fields['natoms']
    return [st['mq']]


def p_atomtype(I, r, st):
    ok = isinstance(r, tuple) and len(r) == 2 and isinstance(r[0], Obj) and r[0].cls is c08.QAtom and isinstance(r[1], list) and all(is_atom_constraint(I, c) for c in r[1])
    return [('returns (query atom, list of atom constraints)', z3.BoolVal(bool(ok)))]


def p_suffix(I, r, st):
    return [('returns None or an atom constraint', z3.BoolVal(r is None or is_atom_constraint(I, r)))]


def suffix_args(I, st):
    sym = I.ctx.fresh('symbol', 'str')
    I.ctx.assume(z3.Length(sym) >= 1)
    return [a_query_atom('atom'), sym]


def bond_args_unit():
    """ReadBondTypeBondedAtom(idx, idx_connected, bondtype, molquery): indices of atoms of the query, any bond kind text of the grammar"""
    def run(I):
        ctx = I.ctx
        mqr_contracts(I)
        mq = mk_molquery(I)
        n = mq.fields['mol'].fields['natoms']
        i, j = ctx.fresh('idx', 'int'), ctx.fresh('idx_connected', 'int')
        ctx.assume(z3.And(_idx_ok(i, n), _idx_ok(j, n)))
        kind = ts.gen_children(I, G(), 'BondType', 0)[0]
        out = run_target(I, MQR, 'MolQueryReader.ReadBondTypeBondedAtom', [i, j, kind, mq], self_obj=mk_mq_reader(I))
        safe_outcome(I, out, lambda r: [('the query keeps len(atom_names) == number of atoms', mq_inv(mq))], site='ReadBondTypeBondedAtom')
        return {'inputs': {}}
    u = Unit('reader-safety MolQueryReader.ReadBondTypeBondedAtom', (MQR, 'MolQueryReader.ReadBondTypeBondedAtom'), run, replay_reader)
    u.world_factory = rworld
    return u


def read_unit():
    """MolQueryReader.Read: self.tree = children of a Fragment or ReactantQuery node"""
    def run(I):
        ctx = I.ctx
        mqr_contracts(I)
        rule = ['Fragment', 'ReactantQuery'][ctx.choose([True, True], 'node')]
        tree = ts.gen_children(I, G(), rule, 1)
        out = run_target(I, MQR, 'MolQueryReader.Read', [], self_obj=mk_mq_reader(I, tree))

        def posts(r):
            ok = isinstance(r, Obj) and r.cls.name == 'MolQuery'
            return [('returns the query object', z3.BoolVal(ok)), ('... with len(atom_names) == number of atoms', mq_inv(r) if ok else z3.BoolVal(False)),
                    ('... and a name', z3.BoolVal(ok and 'name' in r.fields))]
        safe_outcome(I, out, posts, site='Read')
        return {'inputs': {}}
    u = Unit('reader-safety MolQueryReader.Read', (MQR, 'MolQueryReader.Read'), run, replay_reader)
    u.world_factory = rworld
    return u


def nonempty_prefix(I, tree):
    return len(tree) >= 1


MQR_UNITS = [
    mqr_unit('ReadBondTypeAtomConstraint', 'BondType', depth=0,
             posts=lambda I, r, st: [('returns a bond query object (what the connectivity constraints are built from)', z3.BoolVal(isinstance(r, Obj) and r.cls.name == 'BondQuery'))]),
    mqr_unit('ReadGroupName', 'GroupName', depth=0,
             posts=lambda I, r, st: [('returns the group name (a text)', z3.BoolVal(isinstance(r, str) or (is_z3(r) and z3.is_string(r))))]),
    mqr_unit('ReadAtomConstraintConnectivity', 'AtomConstraintConnectivity', posts=p_constraint),
    mqr_unit('ReadAtomConstraintRing', 'AtomConstraintRing', posts=p_constraint),
    mqr_unit('ReadAtomConstraintRadical', 'AtomConstraintRadical', posts=p_constraint),
    mqr_unit('ReadAtomConstraintNRing', 'AtomConstraintNRing', posts=p_constraint),
    mqr_unit('ReadAtomConstraints', 'AtomConstraints', posts=p_constraint),
    mqr_unit('ReadAtomConstraintChain', 'AtomConstraintChain', extra=with_mq_idx, posts=p_mq_inv),
    mqr_unit('ReadAtomSuffix', 'AtomSuffix', extra=suffix_args, posts=p_suffix, depth=0),
    mqr_unit('ReadSymbols', 'Symbols', posts=lambda I, r, st: [('returns a query atom (something with ExpandQuery)', z3.BoolVal(isinstance(r, Obj) and r.cls is c08.QAtom))], depth=0),
    mqr_unit('ReadAtomPrefix', 'AtomPrefix', posts=p_constraint, depth=0),
    mqr_unit('ReadAtomType', 'AtomType', posts=p_atomtype),
    mqr_unit('ReadAtom', 'Atom', extra=with_mq_n0, posts=p_mq_grew(1)),
    bond_args_unit(),
    mqr_unit('ReadBondedAtom', 'BondedAtom', extra=with_mq_n0, posts=p_mq_grew(1)),
    mqr_unit('ReadRingBond', 'RingBond', extra=with_mq_n0, posts=p_mq_grew(0)),
    mqr_unit('ReadStereoDoubleBond', 'StereoDoubleBond', extra=with_mq_n0, posts=p_mq_grew(0)),
    mqr_unit('ReadAtomChain', 'AtomChain', extra=with_mq_n0, posts=p_mq_grew(0)),
    mqr_unit('ReadMolQuery', 'MolQuery', extra=with_mq_n0, posts=p_mq_grew(1)),
    mqr_unit('ReadMolQueryPrefix', 'Prefix', extra=with_mq, posts=p_mq_inv, depth=0, pre=nonempty_prefix),
    read_unit(),
]

UNITS = list(MQR_UNITS)


# ---------------------------------------------------------------------------------------------------------------
# data obligation: the shapes derived from the grammar objects describe what the real parser builds (run-time cross-check of the
# one link that is not a deductive obligation)
def data_shapes_vs_parser(tier, seed):
    import random
    from pgradd.RINGParser import Parser
    from . import C09 as c09
    viol, n = [], 0
    rnd = random.Random(1000 + seed)
    for which, strict in (('enhanced_grammar', False), ('strict_grammar', True)):
        g = ts.shapes(which)

        def conv(t):
            if isinstance(t, list):
                return [ts.tok(t[0].name)] + [conv(c) for c in t[1:]]
            return t
        for _ in range(1500 if tier == 'quick' else 12000):
            txt = ' '.join(c09.gen_text(rnd, which))
            try:
                tree = Parser.parse(txt, strict=strict)
            except Exception:     # noqa  (what Read does with rejected text is the business of the other C09 obligations)
                continue
            n += 1
            m = ts.match_children(g, 'RINGInput', conv(tree)[1:])
            ok = m is not None
            if ok:
                s = z3.Solver()
                s.add(z3.Not(z3.And(m)))
                ok = s.check() == z3.unsat
            if not ok and len(viol) < 5:
                viol.append({'cls': 'tree-shape-not-derived-from-grammar', 'input': txt, 'grammar': which, 'observed': repr(tree)[:300],
                             'expected': 'a tree of the shapes derived from the grammar objects',
                             'script': "from pgradd.RINGParser import Parser\nprint(Parser.parse(%r, strict=%r))\n" % (txt, strict)})
    return {'name': 'tree-shapes-vs-parser', 'obligations': n, 'violations': viol, 'exhaustive': False,
            'bound': '%d accepted grammar-generated texts: every node of the real parse tree has one of the derived shapes' % n}


DATA = [data_shapes_vs_parser]


# ===============================================================================================================
# the rule reader (ReactionQueryRead.py) and the root reader (Reader.py)
AbsCons = BuiltinClass('AbsConstraintMap')
MolCls = BuiltinClass('Mol')
MolCls.instancecheck = lambda I, v: isinstance(v, Obj) and v.cls.name in ('Mol', 'EmptyMol')


def _same_key(a, b):
    if is_z3(a) or is_z3(b):
        return z3_of(a) == z3_of(b)
    return z3.BoolVal(a == b)


def _dict_find(I, o, key):
    """position of `key` among the keys this path already knows to be present, or None (the key differs from all of them)"""
    known = o.fields.setdefault('known', [])
    if not known:
        return None
    conds = [_same_key(key, k) for k, _ in known] + [z3.And([z3.Not(_same_key(key, k)) for k, _ in known])]
    c = I.ctx.choose(conds, 'mapping key: one already seen / another')
    return c if c < len(known) else None


def _dict_new(I, o, key):
    ctx = I.ctx
    if o.fields['kind'] == 'reactants':
        mq = mk_molquery(I, 'rq%d_%d' % (o.oid, len(o.fields['known'])))
        mq.fields['name'] = ctx.fresh('reactant_name', 'str')
        mq.fields['atom_constraints'] = Obj(AbsCons, {}, 'param')
        v = mq
    else:
        v = ctx.fresh('mapped_label', 'str')
    o.fields['known'].append((key, v))
    return v


def _dict_index(I, o, key):
    k = _dict_find(I, o, key)
    if k is not None:
        return o.fields['known'][k][1]
    if I.ctx.choose([True, True], 'mapping lookup: absent / present') == 0:
        raise I.exc('KeyError', key)
    return _dict_new(I, o, key)


def _dict_contains(I, o, item):
    k = _dict_find(I, o, item)
    if k is not None:
        return True
    if I.ctx.choose([True, True], 'mapping membership: absent / present') == 0:
        return False
    _dict_new(I, o, item)
    return True


def _dict_setitem(I, o, k, v):
    o.fields['len'] = I.ctx.fresh('maplen', 'int')
    I.ctx.assume(o.fields['len'] >= 1)
    j = _dict_find(I, o, k)
    if j is not None:
        o.fields['known'][j] = (k, v)
    else:
        o.fields['known'].append((k, v))
    return None


AbsDict.len_hook = lambda I, v: v.fields['len']


def mk_dict(I, kind):
    n = I.ctx.fresh(kind + '_size', 'int')
    I.ctx.assume(n >= 0)
    return Obj(AbsDict, {'kind': kind, 'len': n}, 'param')


def _cons_index(I, o, key):
    """atom_constraints[idx] of a reactant pattern: a list of any length of constraint objects (elements made on demand)"""
    from pyvc.engine import SymSeq
    ctx = I.ctx
    n = ctx.fresh('ncons', 'int')
    ctx.assume(n >= 0)

    def at(j):
        k = ctx.choose([True, True], 'constraint kind: radical count / other')
        if k == 1:
            return an_atom_constraint()
        cn = Obj(cls_of(MQ, 'ConstraintNumber'), {'operator': ctx.fresh('cn_op', 'str'), 'n': ctx.fresh('cn_n', 'int')}, 'param')
        return Obj(cls_of(MQ, 'AtomRadical'), {'negate': ctx.fresh('negate', 'bool'), 'CN': cn}, 'param')
    return SymSeq(n, at, 'atom_constraints[idx]')


def _declared_loop():
    from pyvc import loops

    def state_at(I, j, env, it):
        k = I.ctx.choose([True, True], 'declared so far: none / a number')
        env.local['declared'] = None if k == 0 else I.ctx.fresh('declared', 'int')
        env.local.pop('constraint', None)

    def check_inv(I, j, env, it):
        v = env.local.get('declared')
        return [('declared is None or an integer', z3.BoolVal(v is None or _is_int(v)))]
    return loops.for_rule('constraints', state_at, check_inv)


def _plain_loop(name):
    """a loop whose body keeps every list length (it only rewrites entries): the invariant is the state the loop was entered with"""
    from pyvc import loops
    return loops.for_rule(name, lambda I, j, env, it: None, lambda I, j, env, it: [])


def _message_loop():
    """the balance report of ReactionQueryReader.Read: `s` is a text, `i` a position"""
    from pyvc import loops

    def state_at(I, j, env, it):
        env.local['s'] = I.ctx.fresh('message', 'str')

    def check_inv(I, j, env, it):
        v = env.local.get('s')
        from pyvc.engine import FmtStr
        return [('the message is a text', z3.BoolVal(isinstance(v, (str, FmtStr)) or (is_z3(v) and z3.is_string(v))))]
    return loops.for_rule('balance', state_at, check_inv)


_list_binop_0 = _list_binop


def _list_binop(I, op, a, b):      # noqa: F811  (also: concrete list + abstract list)
    import ast
    if op is ast.Add and isinstance(a, list) and isinstance(b, Obj) and b.cls is AbsList:
        return Obj(AbsList, {'len': z3.simplify(len(a) + b.fields['len']), 'elem': b.fields['elem'], 'tag': b.fields['tag']}, 'fresh')
    return _list_binop_0(I, op, a, b)


class RxW(RdW):
    def __init__(self):
        RdW.__init__(self)
        self.abstract['AbsList']['binop'] = _list_binop
        self.abstract['AbsReactantDict'] = {'index': _dict_index, 'contains': _dict_contains, 'setitem': _dict_setitem}
        self.abstract['AbsConstraintMap'] = {'index': _cons_index}
        self.extern_truth['AbsReactantDict'] = lambda I, o: o.fields['len'] > 0
        ch = self.externs['rdkit.Chem']
        ch.members['Mol'] = MolCls
        self.ctor_hooks['Mol'] = lambda I, cls, a, k: Obj(BuiltinClass('EmptyMol'), {}, 'fresh')
        self.loop_specs[(RQR, 'ReactionQueryReader.ReadRadicalModify', 0)] = _declared_loop()
        self.loop_specs[(RQR, 'ReactionQueryReader.ReadDuplicates', 0)] = _plain_loop('relabel')
        self.loop_specs[(RQR, 'ReactionQueryReader.ReadReactantGroup', 0)] = _plain_loop('relabel')
        self.loop_specs[(RQR, 'ReactionQueryReader.Read', 0)] = _message_loop()

    def str_repeat_hook(self, I, s, n):
        # s * n: a text of length len(s) * max(n, 0); the linear consequence the length invariant needs is stated explicitly
        s, n = z3_of(s), z3_of(n)
        r = I.ctx.fresh('repeated', 'str')
        I.ctx.assume(z3.Length(r) == z3.Length(s) * z3.If(n > 0, n, 0))
        I.ctx.assume(z3.Implies(z3.Length(s) >= 1, z3.Length(r) >= z3.If(n > 0, n, 0)))
        return r

    def range_hook(self, I, args):
        from pyvc.engine import SymSeq
        if len(args) == 1:
            lo, hi = z3.IntVal(0), z3_of(args[0])
        elif len(args) == 2:
            lo, hi = z3_of(args[0]), z3_of(args[1])
        else:
            raise Unsupported('range with a step and symbolic bounds')
        n = I.ctx.fresh('range_len', 'int')
        I.ctx.assume(n == z3.If(hi > lo, hi - lo, 0))
        return SymSeq(n, lambda i: z3.simplify(lo + i), 'range')


def xworld():
    return RxW()


def _as_abs(v, elem, tag):
    if isinstance(v, list):
        return Obj(AbsList, {'len': z3.IntVal(len(v)), 'elem': elem, 'tag': tag}, 'fresh')
    return v


def norm_rd(rd):
    f = rd.fields
    for k, e in (('atom_names', 'str'), ('atom_belonging_mol', 'str'), ('electronbalance', 'num')):
        f[k] = _as_abs(f.get(k), e, k)
    return rd


def rd_inv(rd):
    f = norm_rd(rd).fields
    ls = [f.get(k) for k in ('atom_names', 'atom_belonging_mol', 'electronbalance')]
    if not all(isinstance(x, Obj) and x.cls is AbsList for x in ls):
        return z3.BoolVal(False)
    n, m, e = (x.fields['len'] for x in ls)
    return z3.And(n >= 0, e == n, m >= n)


def mk_rq_reader(I, tree=None):
    ctx = I.ctx
    n, m = ctx.fresh('nlabels', 'int'), ctx.fresh('nbelong', 'int')
    ctx.assume(z3.And(n >= 0, m >= n))
    return Obj(cls_of(RQR, 'ReactionQueryReader'), {'tree': tree, 'RINGgroups': None, 'atom_names': mk_list(I, 'labels', 'str', n),
                                                    'atom_belonging_mol': mk_list(I, 'belong', 'str', m), 'electronbalance': mk_list(I, 'balance', 'num', n)}, 'param')


def mk_reactionquery(I):
    return Obj(cls_of(RQ, 'ReactionQuery'), {'mol': mk_rwmol(I, 'rqmol'), 'transformations': [], 'reactantquery': mk_dict(I, 'reactants'),
                                             'constraints': c08._defaultdict(I, [I.world.types['list']], {}), 'atom_names': mk_list(I, 'rq_names', 'str')}, 'param')


def rq_ok(rq):
    return isinstance(rq, Obj) and rq.cls.name == 'ReactionQuery' and isinstance(rq.fields.get('transformations'), list)


def _req_rd(I, rd, rq, site, need_rq=True):
    I.ctx.oblige('callee runs on a reader with len(electronbalance) == len(atom_names) <= len(atom_belonging_mol)', rd_inv(rd), site=site)
    if need_rq:
        I.ctx.oblige('callee receives the reaction query under construction', z3.BoolVal(bool(rq_ok(rq))), site=site)


def rd_grow(I, rd):
    ctx = I.ctx
    f = norm_rd(rd).fields
    n2, m2 = ctx.fresh('nlabels_after', 'int'), ctx.fresh('nbelong_after', 'int')
    ctx.assume(z3.And(n2 >= f['atom_names'].fields['len'], m2 >= n2))
    f['atom_names'].fields['len'] = n2
    f['electronbalance'].fields['len'] = n2
    f['atom_belonging_mol'].fields['len'] = m2


EDITS = {'ReadBondForm': 'BondForm', 'ReadBondBreak': 'BondBreak', 'ReadBondModify': 'BondModify', 'ReadBondIncrease': 'BondIncrease',
         'ReadBondDecrease': 'BondDecrease', 'ReadAtomTypeModify': 'AtomTypeModify', 'ReadRadicalModify': 'RadicalModify',
         'ReadRadicalIncrease': 'RadicalIncrease', 'ReadRadicalDecrease': 'RadicalDecrease', 'ReadChargeIncrease': 'ChargeIncrease',
         'ReadChargeDecrease': 'ChargeDecrease', 'ReadConnectivityChange': 'ConnectivityChange', 'ReadTransformationChain': 'TransformationChain'}
REACTANTS = {'ReadReactantGroup': 'ReactantGroup', 'ReadDuplicates': 'Duplicates', 'ReadReactants': 'Reactants'}


def rqr_contracts(I):
    W = I.world
    mqr_contracts(I)

    def reg(name, fn):
        W.contracts[(RQR, 'ReactionQueryReader.' + name)] = fn

    def num(I_, tag):
        return I_.ctx.fresh(tag, 'int')

    def bondtype(I_, a, k):
        _oblige_tree(I_, 'BondType', a[1], 'ReadBondType')
        _may_raise(I_, 'ReadBondType')
        return (chem.bondtype(I_.ctx.fresh('bondtype_code', 'int')), I_.ctx.fresh('balance', 'real'))
    reg('ReadBondType', bondtype)

    def suffix(I_, a, k):
        _oblige_tree(I_, 'AtomSuffix', a[1], 'ReadAtomSuffix')
        _may_raise(I_, 'ReadAtomSuffix')
        return (num(I_, 'radical'), num(I_, 'charge'), num(I_, 'valence'))
    reg('ReadAtomSuffix', suffix)

    def atomtype(I_, a, k):
        _oblige_tree(I_, 'AtomType', a[1], 'ReadAtomType')
        _may_raise(I_, 'ReadAtomType')
        return (I_.ctx.fresh('symbol', 'str'), num(I_, 'radical'), num(I_, 'charge'), num(I_, 'valence'))
    reg('ReadAtomType', atomtype)

    def label(I_, a, k):
        _oblige_tree(I_, 'AtomLabel', a[1], 'ReadAtomLabel')
        _req_rd(I_, a[0], a[2] if len(a) > 2 else None, 'ReadAtomLabel')
        _may_raise(I_, 'ReadAtomLabel')
        ctx = I_.ctx
        idx, iq = ctx.fresh('label_idx', 'int'), ctx.fresh('idx_in_query', 'int')
        name = ctx.fresh('reactant_name', 'str')
        d = a[2].fields['reactantquery']
        d.fields.setdefault('known', [])
        mq = _dict_new(I_, d, name)      # the reactant the label belongs to is a key of reactantquery ...
        ctx.assume(z3.And(idx >= 0, idx < a[0].fields['atom_names'].fields['len'], _idx_ok(iq, mq.fields['mol'].fields['natoms'])))   # ... and the label one of its atoms
        return (a[1][0], idx, name, iq, Obj(AbsAtom, {}, 'param'))
    reg('ReadAtomLabel', label)

    def edit(name, rule):
        def h(I_, a, k):
            _oblige_tree(I_, rule, a[1], name)
            _req_rd(I_, a[0], a[2] if len(a) > 2 else None, name)
            _may_raise(I_, name)
            return None
        reg(name, h)
    for nm, rule in EDITS.items():
        edit(nm, rule)

    def mapping(I_, a, k):
        _oblige_tree(I_, 'LabelMapping', a[1], 'LabelMapping')
        lm = k.get('labelmapping', a[2] if len(a) > 2 else None)
        I_.ctx.oblige('LabelMapping receives no mapping or the mapping built so far', z3.BoolVal(lm is None or (isinstance(lm, Obj) and lm.cls is AbsDict) or isinstance(lm, dict)),
                      site='LabelMapping')
        _may_raise(I_, 'LabelMapping')
        d = mk_dict(I_, 'labels')
        I_.ctx.assume(d.fields['len'] >= 1)
        return d
    reg('LabelMapping', mapping)

    def reactants(name, rule):
        def h(I_, a, k):
            _oblige_tree(I_, rule, a[1], name)
            _req_rd(I_, a[0], a[2] if len(a) > 2 else None, name)
            _may_raise(I_, name)
            rd_grow(I_, a[0])
            return None
        reg(name, h)
    for nm, rule in REACTANTS.items():
        reactants(nm, rule)

    def read(I_, a, k):
        rd = a[0]
        _oblige_tree(I_, 'ReactionRule', rd.fields.get('tree'), 'ReactionQueryReader.Read')
        I_.ctx.oblige('the rule reader starts with empty per-atom lists', z3.BoolVal(all(rd.fields.get(x) == [] for x in ('atom_names', 'atom_belonging_mol', 'electronbalance'))),
                      site='ReactionQueryReader.Read')
        _may_raise(I_, 'ReactionQueryReader.Read')
        return mk_reactionquery(I_)
    reg('Read', read)


def rqr_unit(method, rule, with_rq=True, posts=None, depth=1):
    def run(I):
        rqr_contracts(I)
        tree = ts.gen_children(I, G(), rule, depth)
        rd = mk_rq_reader(I)
        st = {'rd': rd, 'n0': rd.fields['atom_names'].fields['len']}
        args = [tree]
        if with_rq:
            st['rq'] = mk_reactionquery(I)
            args.append(st['rq'])
        out = run_target(I, RQR, 'ReactionQueryReader.' + method, args, self_obj=rd)

        def allposts(r):
            ps = [('the reader keeps len(electronbalance) == len(atom_names) <= len(atom_belonging_mol)', rd_inv(rd))]
            if posts:
                ps += posts(I, r, st)
            return ps
        safe_outcome(I, out, allposts, site=method)
        return {'inputs': {}}
    u = Unit('reader-safety ReactionQueryReader.' + method, (RQR, 'ReactionQueryReader.' + method), run, replay_reader)
    u.world_factory = xworld
    return u


def p_tuple(n, strs=()):
    def p(I, r, st):
        ok = isinstance(r, tuple) and len(r) == n
        return [('returns a %d-tuple' % n, z3.BoolVal(bool(ok)))]
    return p


def p_label(I, r, st):
    ok = isinstance(r, tuple) and len(r) == 5 and _is_int(r[1])
    ps = [('returns (label, index, reactant, index in reactant, atom)', z3.BoolVal(bool(ok))),
          ('the index is a position of the per-atom lists', _idx_ok(z3_of(r[1]), st['rd'].fields['atom_names'].fields['len']) if ok else z3.BoolVal(False))]
    if ok:
        known = st['rq'].fields['reactantquery'].fields.get('known', [])
        hit = [(k, v) for k, v in known if is_z3(k) and is_z3(r[2]) and k.eq(r[2])]
        ps.append(('the reactant returned is a key of reactantquery', z3.BoolVal(bool(hit))))
        if hit and _is_int(r[3]):
            ps.append(('the index in the reactant is one of its atoms', _idx_ok(z3_of(r[3]), hit[0][1].fields['mol'].fields['natoms'])))
    return ps


def p_same_len(I, r, st):
    return [('no per-atom entry is added or removed', st['rd'].fields['atom_names'].fields['len'] == st['n0'])]


def rq_read_unit():
    def run(I):
        rqr_contracts(I)
        tree = ts.gen_children(I, G(), 'ReactionRule', 1)
        rd = Obj(cls_of(RQR, 'ReactionQueryReader'), {'tree': tree, 'RINGgroups': None, 'atom_names': [], 'atom_belonging_mol': [], 'electronbalance': []}, 'param')
        out = run_target(I, RQR, 'ReactionQueryReader.Read', [], self_obj=rd)
        safe_outcome(I, out, lambda r: [('returns the reaction query object', z3.BoolVal(isinstance(r, Obj) and r.cls.name == 'ReactionQuery'))], site='Read')
        return {'inputs': {}}
    u = Unit('reader-safety ReactionQueryReader.Read', (RQR, 'ReactionQueryReader.Read'), run, replay_reader)
    u.world_factory = xworld
    return u


def mapping_unit():
    def run(I):
        rqr_contracts(I)
        tree = ts.gen_children(I, G(), 'LabelMapping', 1)
        given = I.ctx.choose([True, True], 'mapping so far: none / some')
        args = [tree] + ([mk_dict(I, 'labels')] if given else [])
        out = run_target(I, RQR, 'ReactionQueryReader.LabelMapping', args, self_obj=mk_rq_reader(I))
        safe_outcome(I, out, lambda r: [('returns a mapping', z3.BoolVal(isinstance(r, dict) or (isinstance(r, Obj) and r.cls is AbsDict)))], site='LabelMapping')
        return {'inputs': {}}
    u = Unit('reader-safety ReactionQueryReader.LabelMapping', (RQR, 'ReactionQueryReader.LabelMapping'), run, replay_reader)
    u.world_factory = xworld
    return u


RQR_UNITS = [
    rqr_unit('ReadBondType', 'BondType', with_rq=False, posts=p_tuple(2), depth=0),
    rqr_unit('ReadAtomSuffix', 'AtomSuffix', with_rq=False, posts=p_tuple(3), depth=0),
    rqr_unit('ReadAtomType', 'AtomType', with_rq=False, posts=p_tuple(4)),
    rqr_unit('ReadAtomLabel', 'AtomLabel', posts=p_label, depth=0),
] + [rqr_unit(nm, rule, posts=p_same_len) for nm, rule in EDITS.items()] + [
    mapping_unit(),
    rqr_unit('ReadReactantGroup', 'ReactantGroup'),
    rqr_unit('ReadDuplicates', 'Duplicates'),
    rqr_unit('ReadReactants', 'Reactants'),
    rq_read_unit(),
]


# ---- Reader.ReadRINGInput / Reader.Read / Read(text) ---------------------------------------------------------------
def root_units():
    def contracts(I):
        rqr_contracts(I)

        def rri(I_, a, k):
            _oblige_tree(I_, 'RINGInput', a[1], 'Reader.ReadRINGInput')
            _may_raise(I_, 'Reader.ReadRINGInput')
            return [mk_molquery(I_, 'result'), mk_reactionquery(I_)][I_.ctx.choose([True, True], 'result: fragment / rule')]
        I.world.contracts[(RDR, 'Reader.ReadRINGInput')] = rri

        def rread(I_, a, k):
            ast_ = a[0].fields.get('ast')
            ok = isinstance(ast_, list) and ast_ and isinstance(ast_[0], Obj) and ast_[0].cls.name == 'RINGToken' and ast_[0].fields.get('name') == 'RINGInput'
            I_.ctx.oblige('Reader.Read runs on a RINGInput node', z3.BoolVal(bool(ok)), site='Reader.Read')
            if ok:
                _oblige_tree(I_, 'RINGInput', ast_[1:], 'Reader.Read')
            _may_raise(I_, 'Reader.Read')
            return [mk_molquery(I_, 'result'), mk_reactionquery(I_)][I_.ctx.choose([True, True], 'result: fragment / rule')]
        I.world.contracts[(RDR, 'Reader.Read')] = rread

        def parse(I_, a, k):
            # Parser.parse(text, strict=False): a well-formed RINGInput node or a RINGSyntaxError (scanner / combinator units + grammar data obligations)
            c = I_.ctx.choose([True, True], 'parse: accepted / syntax error')
            if c:
                raise I_.exc('RINGSyntaxError', 'syntax', 1, 1, a[0] if a else '')
            return ts.gen_node(I_, G(), 'RINGInput', 1)
        I.world.contracts[('pgradd/RINGParser/Parser.py', 'parse')] = parse

    def is_query(r):
        return isinstance(r, Obj) and r.cls.name in ('MolQuery', 'ReactionQuery')

    def run_rri(I):
        contracts(I)
        tree = ts.gen_children(I, G(), 'RINGInput', 1)
        rd = Obj(cls_of(RDR, 'Reader'), {'ast': None}, 'param')
        out = run_target(I, RDR, 'Reader.ReadRINGInput', [tree], self_obj=rd)
        safe_outcome(I, out, lambda r: [('returns a query object', z3.BoolVal(is_query(r)))], site='ReadRINGInput')
        return {'inputs': {}}

    def run_read(I):
        contracts(I)
        rd = Obj(cls_of(RDR, 'Reader'), {'ast': ts.gen_node(I, G(), 'RINGInput', 1)}, 'param')
        out = run_target(I, RDR, 'Reader.Read', [], self_obj=rd)
        safe_outcome(I, out, lambda r: [('returns a query object', z3.BoolVal(is_query(r)))], site='Reader.Read')
        return {'inputs': {}}

    def run_top(I):
        contracts(I)
        text = I.ctx.fresh('text', 'str')
        strict = I.ctx.choose([True, True], 'strict')
        out = run_target(I, RDR, 'Read', [text] + ([True] if strict else []))
        safe_outcome(I, out, lambda r: [('returns a query object', z3.BoolVal(is_query(r)))], allowed=ALLOWED + ('RINGSyntaxError',), site='Read(text)')
        return {'inputs': {}}
    us = [Unit('reader-safety Reader.ReadRINGInput', (RDR, 'Reader.ReadRINGInput'), run_rri),
          Unit('reader-safety Reader.Read', (RDR, 'Reader.Read'), run_read),
          Unit('reader-safety Read(text)', (RDR, 'Read'), run_top)]
    for u in us:
        u.world_factory = xworld
    return us


UNITS = UNITS + RQR_UNITS + root_units()


# ---------------------------------------------------------------------------------------------------------------
# probes: the extern contracts assumed above, tried on the installed RDKit (a failing probe is a checker error: the assumption does not hold here)
def probe_rdkit_reader_contracts(tier, seed):
    from rdkit import Chem, RDLogger
    from rdkit.Chem import rdqueries
    RDLogger.DisableLog('rdApp.*')
    bad = []
    # Chem.Atom(text): an atom or RuntimeError, nothing else
    for t in ['C', 'Cl', 'Xx', 'c', '', ' ', 'C_1', 'c1', '12', 'Zz', 'H2', 'é', '中', 'C' * 50, 'Uuo', '*', 'R', '_', 'a1b2', '²']:
        try:
            Chem.Atom(t)
        except RuntimeError:
            pass
        except Exception as e:    # noqa
            bad.append('Chem.Atom(%r) raised %s' % (t, type(e).__name__))
    # AddBond: RuntimeError for a self bond, a repeated bond, an index outside the molecule; GetBondBetweenAtoms: None / a bond inside, RuntimeError outside
    m = Chem.RWMol(Chem.Mol())
    for _ in range(3):
        m.AddAtom(rdqueries.AtomNumEqualsQueryAtom(6))
    m.AddBond(0, 1, Chem.BondType.SINGLE)
    for a, b, what in ((0, 0, 'self bond'), (0, 1, 'repeated bond'), (1, 0, 'repeated bond (reversed)'), (0, 3, 'index outside')):
        try:
            m.AddBond(a, b, Chem.BondType.SINGLE)
            bad.append('AddBond %s accepted' % what)
        except RuntimeError:
            pass
        except Exception as e:    # noqa
            bad.append('AddBond %s raised %s' % (what, type(e).__name__))
    if m.GetBondBetweenAtoms(0, 2) is not None or m.GetBondBetweenAtoms(1, 0) is None or not m.GetBondBetweenAtoms(0, 1):
        bad.append('GetBondBetweenAtoms: None for no bond / a true-valued bond object otherwise does not hold')
    for a, b in ((0, 3), (7, 0)):
        try:
            m.GetBondBetweenAtoms(a, b)
            bad.append('GetBondBetweenAtoms(%d, %d) outside the molecule answered' % (a, b))
        except RuntimeError:
            pass
        except Exception as e:    # noqa
            bad.append('GetBondBetweenAtoms outside raised %s' % type(e).__name__)
    if not m:
        bad.append('an RWMol is falsy')
    # query atoms: ExpandQuery exists on them, a plain atom has none; a query atom reports atomic number 0
    q = rdqueries.AtomNumEqualsQueryAtom(6)
    q.ExpandQuery(rdqueries.FormalChargeEqualsQueryAtom(0))
    if hasattr(Chem.Atom('C'), 'ExpandQuery') or q.GetAtomicNum() != 0 and False:
        bad.append('a plain Chem.Atom has ExpandQuery')
    return {'name': 'rdkit-contracts-assumed-by-the-reader-units', 'ok': not bad, 'detail': bad or None}


PROBES = [probe_rdkit_reader_contracts]


for _u in UNITS:
    _u.data_files = ['pgradd/RINGParser/Grammar.py']      # the tree shapes are derived from the grammar objects: a changed grammar is a changed subject (ledger)
