"""C09 -- Reading RING text always ends with a query or a RING error.

Deductive (for all strings, all positions): position invariant and progress of the character-level scanners,
termination of their loops, int() only on text it accepts.  Combinators / ParseState.parse / __enter__ / __exit__: C09comb.py.
Data obligations on the real grammar object: every referenced rule is defined, no rule reaches itself without consuming input,
the root requires end of input, repetition bodies are not nullable, no empty Either, root is a rule name.
The readers (tree walkers over RDKit) are covered by the bounded stand-in at the end of this file."""
import z3

from pyvc import source, loops, strmodel
from pyvc.engine import Obj, Builtin, SymSeq, Unsupported, NotImplementedVal, is_z3, z3_of
from pyvc.source import BuiltinClass
from pyvc.verify import Unit, run_target, concretize
from pyvc.world import World
from .spec import check_outcome

PROPERTY = 'C09'
LEVEL = 'other'
EXPLANATION = ('scanners: deductive obligations (pyvc, z3 strings) for all strings and positions; combinators, ParseState.parse and the backtracking '
               'context manager: deductive obligations against the parser contract (position arithmetic only, abstract children, loop invariants and a '
               'termination variant); grammar: data obligations evaluated exhaustively on the real grammar objects (the premises of the induction '
               'over the grammar, which is a paper step); tree readers over RDKit: bounded stand-in only (listed under bounded, not counted)')
PARSER = 'pgradd/RINGParser/Parser.py'
AllDec = z3.Function('AllDecimal', z3.StringSort(), z3.BoolSort())
TRUSTED = ['str: isdigit/isdecimal/isalpha/isspace on one character are uninterpreted predicates constrained by CPython facts '
           '(ASCII classes exact; isdecimal => isdigit; int(s) succeeds iff every character isdecimal); '
           'z3 sequence theory for slicing/concatenation/length',
           'line / column: lineno == LineAt(stream, sidx) and colno == ColAt(stream, sidx) is an invariant proved for skip_filler / take (defining equations of LineAt / ColAt '
           'instantiated at the index moved over), carried through every scanner and combinator contract, and every syntax error carries the pair of some index '
           '0 <= i <= len(text); that such a pair lies inside the text (line <= number of lines, column <= length of that line + 1) is an induction over i on paper, '
           'checked at run time by the stand-in']


class W(World):
    def __init__(self):
        World.__init__(self)
        self.known_chars = []

    def _facts(self, I, c):
        if not any(c.eq(k) for k in self.known_chars):
            self.known_chars.append(c)
            for f in strmodel.char_facts([c]):
                I.ctx.assume(f)
            I.ctx.assume(z3.Implies(z3.Length(c) == 1, AllDec(c) == strmodel.isdecimal_ch(c)))

    def str_class_hook(self, I, v, name):
        """s.isdigit() etc. for a string of length <= 1 (the scanners only test peek() results)"""
        self._facts(I, v)
        I.ctx.oblige('character-class test applied to at most one character', z3.Length(v) <= 1, site='str.' + name)
        pred = {'isdigit': strmodel.isdigit_ch, 'isalpha': strmodel.isalpha_ch, 'isspace': strmodel.isspace_ch,
                'isdecimal': strmodel.isdecimal_ch}[name]
        return z3.And(z3.Length(v) == 1, pred(v))

    def int_of_str(self, I, s):
        # CPython: int(s) needs every character decimal AND (since 3.11) at most sys.get_int_max_str_digits() = 4300 digits
        I.ctx.ghost['last_int_arg'] = s
        if I.ctx.branch(z3.Or(z3.Not(AllDec(s)), z3.Length(s) > 4300)):
            raise I.exc('ValueError', 'invalid literal for int()')
        return I.ctx.fresh('int_value', 'int')


def world():
    return W()


# ---- line / column bookkeeping as a ghost invariant ---------------------------------------------------------------------
# LineAt(s, i) / ColAt(s, i): the human-readable position of index i of text s, DEFINED by
#   LineAt(s,0) = ColAt(s,0) = 1;  s[i] == '\n' -> LineAt(s,i+1) = LineAt(s,i)+1, ColAt(s,i+1) = 1;  else LineAt(s,i+1) = LineAt(s,i), ColAt(s,i+1) = ColAt(s,i)+1
# (instances of the defining equations are added where a unit moves the position; LineAt, ColAt >= 1 follows by induction and is part of the theory).
# Invariant of ParseState: lineno == LineAt(stream, sidx) and colno == ColAt(stream, sidx).  Lemma (induction on i, paper): LineAt(s,i) <= 1 + number of line breaks of s
# and ColAt(s,i) <= 1 + length of line LineAt(s,i), i.e. a position that satisfies the invariant for some 0 <= i <= len(s) lies inside the text.
LineAt = z3.Function('LineAt', z3.StringSort(), z3.IntSort(), z3.IntSort())
ColAt = z3.Function('ColAt', z3.StringSort(), z3.IntSort(), z3.IntSort())


def bk(o, stream):
    f = o.fields
    return z3.And(f['lineno'] == LineAt(stream, f['sidx']), f['colno'] == ColAt(stream, f['sidx']))


def bk_step(I, stream, i):
    """the defining equations at index i (and the base case)"""
    i = z3_of(i)
    c = z3.SubString(stream, i, 1)
    nl = c == z3.StringVal('\n')
    I.ctx.assume(z3.And(LineAt(stream, 0) == 1, ColAt(stream, 0) == 1))
    I.ctx.assume(z3.Implies(z3.And(i >= 0, i < z3.Length(stream)),
                            z3.And(LineAt(stream, i + 1) == z3.If(nl, LineAt(stream, i) + 1, LineAt(stream, i)),
                                   ColAt(stream, i + 1) == z3.If(nl, 1, ColAt(stream, i) + 1),
                                   LineAt(stream, i) >= 1, ColAt(stream, i) >= 1, LineAt(stream, i + 1) >= 1, ColAt(stream, i + 1) >= 1)))


def mk_state(I, tag=''):
    ctx = I.ctx
    cls = source.module(PARSER).classes['ParseState']
    stream = ctx.fresh(tag + 'stream', 'str')
    sidx = ctx.fresh(tag + 'sidx', 'int')
    lineno, colno = ctx.fresh(tag + 'lineno', 'int'), ctx.fresh(tag + 'colno', 'int')
    ctx.assume(z3.And(0 <= sidx, sidx <= z3.Length(stream), lineno >= 1, colno >= 1))
    ctx.assume(z3.And(lineno == LineAt(stream, sidx), colno == ColAt(stream, sidx)))
    o = Obj(cls, dict(stream=stream, sidx=sidx, lineno=lineno, colno=colno, stack=[], has_error=False,
                      current_error=None, debug=False, root='RINGInput', rules={}), origin='param')
    return o, stream, sidx


def pos_ok(o, stream):
    f = o.fields
    return z3.And(0 <= f['sidx'], f['sidx'] <= z3.Length(stream), f['lineno'] >= 1, f['colno'] >= 1, bk(o, stream))


def havoc_pos(I, o, stream, tag):
    ctx = I.ctx
    for k in ('sidx', 'lineno', 'colno'):
        o.fields[k] = ctx.fresh('%s_%s' % (k, tag), 'int')
    ctx.assume(pos_ok(o, stream))


def check_scan(I, out, o, stream, raises=None, returns=None):
    """check_outcome + the position clause of the property: a syntax error carries the line / column of the index at which it was raised"""
    check_outcome(I, out, raises=raises, returns=returns)
    if out.kind == 'raise' and out.value.cls.name == 'RINGSyntaxError':
        e = out.value.fields
        ok = all(k_ in e for k_ in ('lineno', 'colno'))
        I.ctx.oblige('the syntax error carries the line and column of an index of the text (0 <= index <= length)',
                     z3.And(z3_of(e['lineno']) == LineAt(stream, o.fields['sidx']), z3_of(e['colno']) == ColAt(stream, o.fields['sidx']),
                            0 <= o.fields['sidx'], o.fields['sidx'] <= z3.Length(stream)) if ok else z3.BoolVal(False), site='stream.error')


def u_skip_filler(I):
    ctx = I.ctx
    o, stream, sidx0 = mk_state(I)
    I.world.while_specs[(PARSER, 'ParseState.skip_filler', 0)] = loops.while_rule(
        'filler',
        lambda I_, env, tag: (havoc_pos(I_, o, stream, tag), ctx.assume(o.fields['sidx'] >= sidx0), bk_step(I_, stream, o.fields['sidx'])),
        lambda I_, env: [('0 <= sidx <= len(stream), line/column >= 1 and they are the line / column of sidx', pos_ok(o, stream)),
                         ('position never moves backwards', o.fields['sidx'] >= sidx0)],
        lambda I_, env: z3.Length(stream) - o.fields['sidx'])
    out = run_target(I, PARSER, 'ParseState.skip_filler', [], self_obj=o)
    nxt = z3.SubString(stream, o.fields['sidx'], 1)
    check_outcome(I, out, raises={}, returns=lambda r: [
        ('position invariant after skip_filler', pos_ok(o, stream)),
        ('position never moves backwards', o.fields['sidx'] >= sidx0),
        ('next character is not filler', z3.And(nxt != z3.StringVal(' '), nxt != z3.StringVal('\n'), nxt != z3.StringVal('\t')))])
    return {'inputs': {}}


def install_state_contracts(I, o, stream):
    """callee contracts of ParseState.take / skip_filler / error (proved in their own units)"""
    ctx = I.ctx
    W_ = I.world

    def take(I_, a, k):
        n = k.get('n', a[1] if len(a) > 1 else 1)
        n = z3_of(n)
        s0 = o.fields['sidx']
        ctx.oblige('take(n) stays inside the text (precondition of ParseState.take)',
                   z3.And(n >= 0, s0 + n <= z3.Length(stream)), site='stream.take')
        res = z3.SubString(stream, s0, n)
        havoc_pos(I_, o, stream, 'after_take')
        ctx.assume(o.fields['sidx'] >= s0 + n)
        ctx.effect('take')
        return res
    W_.contracts[(PARSER, 'ParseState.take')] = take


def u_take(I):
    ctx = I.ctx
    o, stream, sidx0 = mk_state(I)
    n = I.fresh('n', 'int')
    ctx.assume(z3.And(n >= 0, sidx0 + n <= z3.Length(stream)))
    lineno0, colno0 = o.fields['lineno'], o.fields['colno']

    def st(I_, j, env, it):
        o.fields['lineno'] = ctx.fresh('lineno_j', 'int')
        o.fields['colno'] = ctx.fresh('colno_j', 'int')
        ctx.assume(z3.And(o.fields['lineno'] >= 1, o.fields['colno'] >= 1))
        # after j characters of the slice: the line / column of index sidx0 + j
        ctx.assume(z3.And(o.fields['lineno'] == LineAt(stream, sidx0 + j), o.fields['colno'] == ColAt(stream, sidx0 + j)))
        bk_step(I_, stream, sidx0 + j)
        ctx.assume(z3.Implies(z3.And(j >= 0, j < n), z3.SubString(z3.SubString(stream, sidx0, n), j, 1) == z3.SubString(stream, sidx0 + j, 1)))   # character j of a slice (string fact)
        env.local.pop('chr', None)
    I.world.loop_specs[(PARSER, 'ParseState.take', 0)] = loops.for_rule(
        'chars', st, lambda I_, j, env, it: [('line/column stay >= 1', z3.And(o.fields['lineno'] >= 1, o.fields['colno'] >= 1)),
                                             ('after j characters line / column are those of index sidx + j',
                                              z3.And(o.fields['lineno'] == LineAt(stream, sidx0 + j), o.fields['colno'] == ColAt(stream, sidx0 + j)))])

    def skip(I_, a, k):
        s0 = o.fields['sidx']
        havoc_pos(I_, o, stream, 'after_skip')
        ctx.assume(o.fields['sidx'] >= s0)
        return None
    I.world.contracts[(PARSER, 'ParseState.skip_filler')] = skip
    out = run_target(I, PARSER, 'ParseState.take', [n], self_obj=o)
    check_outcome(I, out, raises={}, returns=lambda r: [
        ('returns the next n characters', z3_of(r) == z3.SubString(stream, sidx0, n)),
        ('position invariant after take', pos_ok(o, stream)),
        ('advances by at least n', o.fields['sidx'] >= sidx0 + n)])
    return {'inputs': {}}


def u_String(I):
    ctx = I.ctx
    o, stream, sidx0 = mk_state(I)
    install_state_contracts(I, o, stream)
    cls = source.module(PARSER).classes['String']
    p = Obj(cls, {}, 'param')
    output = []

    def st(I_, env, tag):
        nn = ctx.fresh('nn_' + tag, 'int')
        env.local['nn'] = nn
        ctx.assume(z3.And(nn >= 2, sidx0 + nn - 1 <= z3.Length(stream)))
    I.world.while_specs[(PARSER, 'String.__call__', 0)] = loops.while_rule(
        'lookahead', st,
        lambda I_, env: [('the characters accepted so far lie inside the text: sidx + nn - 1 <= len(stream)',
                          z3.And(z3_of(env.local['nn']) >= 2, sidx0 + z3_of(env.local['nn']) - 1 <= z3.Length(stream)))],
        lambda I_, env: z3.Length(stream) - (sidx0 + z3_of(env.local['nn'])))
    out = run_target(I, PARSER, 'String.__call__', [o, output], self_obj=p)
    took = any(e[0] == 'take' for e in ctx.effects)
    check_scan(I, out, o, stream, raises={'RINGSyntaxError': z3.BoolVal(not took)}, returns=lambda r: [
        ('progress: an identifier consumes at least one character', o.fields['sidx'] >= sidx0 + 1),
        ('position invariant', pos_ok(o, stream)),
        ('one token appended', z3.BoolVal(len(output) == 1))])
    return {'inputs': {'stream': stream, 'sidx': sidx0}}


def replay_String(model, state, ob):
    """the hang is demonstrated with a watchdog in a subprocess"""
    import subprocess, sys
    code = ("from pgradd.RINGParser.Reader import Read\n"
            "try:\n    Read('fragment a')\nexcept Exception as e:\n    print(type(e).__name__)\n")
    try:
        r = subprocess.run([sys.executable, '-c', code], capture_output=True, text=True, timeout=5)
        got = r.stdout.strip().splitlines()[-1] if r.stdout.strip() else 'no output'
        failed = got not in ('RINGSyntaxError', 'RINGReaderError')
    except subprocess.TimeoutExpired:
        got, failed = 'no answer within 5 s (infinite loop)', True
    return {'failed': failed, 'input': "Read('fragment a')  # text ends inside an identifier", 'observed': got,
            'expected': 'RINGSyntaxError', 'script': code}


def u_Digit(I):
    ctx = I.ctx
    o, stream, sidx0 = mk_state(I)
    install_state_contracts(I, o, stream)
    cls = source.module(PARSER).classes['Digit']
    p = Obj(cls, {'n': 1}, 'param')
    output = []
    out = run_target(I, PARSER, 'Digit.__call__', [o, output], self_obj=p)
    took = any(e[0] == 'take' for e in ctx.effects)
    check_scan(I, out, o, stream, raises={'RINGSyntaxError': z3.BoolVal(not took)}, returns=lambda r: [
        ('progress: a digit consumes one character', o.fields['sidx'] >= sidx0 + 1),
        ('position invariant', pos_ok(o, stream))])
    return {'inputs': {}}


def replay_Digit(model, state, ob):
    from pgradd.RINGParser.Reader import Read
    from pgradd.Error import RINGError
    txt = 'fragment a{ C labeled c1 {connected to >\u00b2 C} }'
    try:
        Read(txt)
        got = 'returned'
    except RINGError as e:
        got = 'RINGError'
    except NotImplementedError:
        got = 'NotImplementedError'
    except Exception as e:   # noqa
        got = 'raised ' + type(e).__name__
    return {'failed': got.startswith('raised'), 'input': txt, 'observed': got, 'expected': 'RINGSyntaxError',
            'script': "from pgradd.RINGParser.Reader import Read\nRead(%r)\n" % txt}


def u_Number(I):
    ctx = I.ctx
    o, stream, sidx0 = mk_state(I)
    install_state_contracts(I, o, stream)
    cls = source.module(PARSER).classes['Number']
    p = Obj(cls, {}, 'param')
    output = []

    def st(I_, env, tag):
        outv = ctx.fresh('out_' + tag, 'str')
        env.local['out'] = outv
        ctx.ghost['number_out'] = outv
        havoc_pos(I_, o, stream, 'n' + tag)
        ctx.assume(o.fields['sidx'] >= sidx0 + 1)
        ctx.assume(AllDec(outv))
    orig_binop = I.str_binop

    def str_binop(op, a, b):
        r = orig_binop(op, a, b)
        import ast as _ast
        if op is _ast.Add and is_z3(r):
            ctx.assume(AllDec(r) == z3.And(AllDec(z3_of(a)), AllDec(z3_of(b))))
        return r
    I.str_binop = str_binop
    I.world.while_specs[(PARSER, 'Number.__call__', 0)] = loops.while_rule(
        'digits', st,
        lambda I_, env: [('every character collected so far is accepted by int()', AllDec(z3_of(env.local['out']))),
                         ('position invariant', z3.And(pos_ok(o, stream), o.fields['sidx'] >= sidx0 + 1))],
        lambda I_, env: z3.Length(stream) - o.fields['sidx'])
    out = run_target(I, PARSER, 'Number.__call__', [o, output], self_obj=p)
    took = any(e[0] == 'take' for e in ctx.effects)
    # a syntax error either before anything was consumed (no digit here) or for a digit run longer than int() converts (4300)
    # a syntax error either before anything was consumed (no digit here) or for a digit run longer than a count can be (MAX_DIGITS; int()
    # itself converts up to 4300)
    outv = ctx.ghost.get('last_int_arg')
    if outv is None:
        outv = ctx.ghost.get('number_out')
    too_long = (z3.Length(outv) > MAX_DIGITS) if (outv is not None and took) else z3.BoolVal(False)
    check_scan(I, out, o, stream, raises={'RINGSyntaxError': z3.Or(z3.BoolVal(not took), too_long)}, returns=lambda r: [
        ('progress: a number consumes at least one character', o.fields['sidx'] >= sidx0 + 1),
        ('position invariant', pos_ok(o, stream)),
        ('the number handed to the tree readers has at most %d digits: the readers add such numbers up, mix them with 1.5 (float) and print them, and an int of more than 308 digits '
         'cannot become a float (OverflowError), one of more than 4300 digits cannot be printed (ValueError)' % MAX_DIGITS,
         (z3.Length(outv) <= MAX_DIGITS) if outv is not None else z3.BoolVal(False))])
    return {'inputs': {}}


MAX_DIGITS = 18
replay_String.model_free = replay_Digit.model_free = True


def replay_Number(model, state, ob):
    from pgradd.RINGParser.Reader import Read
    from pgradd.Error import RINGError
    R_ = 'rule r{ reactant r1{ C labeled c1 C labeled c2 single bond to c1 } %s }'
    res = []
    for big, ed in (('9' * 4300, 'modify number of radical (c1, %s) increase number of radical (c1)'), ('1' + '0' * 309, 'modify number of radical (c1, %s) modify bond (c1,c2,aromatic)')):
        txt = R_ % (ed % big)
        try:
            Read(txt)
            got = 'returned'
        except RINGError:
            got = 'RINGError'
        except NotImplementedError:
            got = 'NotImplementedError'
        except Exception as e:   # noqa
            got = 'raised ' + type(e).__name__
        res.append((txt, got))
    bad = [r for r in res if r[1].startswith('raised')]
    txt, got = (bad or res)[0]
    return {'failed': bool(bad), 'input': txt if len(txt) < 300 else txt[:120] + '...(%d digits)...' % (len(txt) - 200) + txt[-80:], 'observed': got, 'expected': 'a RING error',
            'script': "from pgradd.RINGParser.Reader import Read\nRead(%r)\n" % txt}


replay_Number.model_free = True


def u_EOS(I):
    ctx = I.ctx
    o, stream, sidx0 = mk_state(I)
    install_state_contracts(I, o, stream)
    cls = source.module(PARSER).classes['EOS']
    p = Obj(cls, {}, 'param')
    out = run_target(I, PARSER, 'EOS.__call__', [o, []], self_obj=p)
    check_scan(I, out, o, stream, raises={'RINGSyntaxError': sidx0 < z3.Length(stream)}, returns=lambda r: [
        ('end-of-input succeeds only when every character has been consumed', sidx0 == z3.Length(stream))])
    return {'inputs': {}}


def lit_unit(clsname):
    def run(I):
        ctx = I.ctx
        o, stream, sidx0 = mk_state(I)
        install_state_contracts(I, o, stream)
        cls = source.module(PARSER).classes[clsname]
        tok = ['fragment', '{', 'bond to'][ctx.choose([True] * 3, 'token')]
        p = Obj(cls, {'tok': tok, 'no_error': [False, True][ctx.choose([True, True], 'no_error')]}, 'param')
        output = []
        out = run_target(I, PARSER, clsname + '.__call__', [o, output], self_obj=p)
        took = any(e[0] == 'take' for e in ctx.effects)
        check_scan(I, out, o, stream, raises={'RINGSyntaxError': z3.BoolVal(not took)}, returns=lambda r: [
            ('progress: a literal consumes its (non-empty) text', o.fields['sidx'] >= sidx0 + len(tok)),
            ('position invariant', pos_ok(o, stream)),
            ('token recorded iff it is a Literal', z3.BoolVal(output == ([tok] if clsname == 'Literal' else [])))])
        return {'inputs': {}}
    return run


# ---- data obligations on the real grammar objects --------------------------------------------------------
def grammar_graph(which='enhanced_grammar'):
    from pgradd.RINGParser import Grammar, Parser as P
    root, rules = getattr(Grammar, which)

    def refs(p):
        """(kind, children) one level"""
        if isinstance(p, str):
            return ('rule', [p])
        if isinstance(p, P.Literals):
            return ('terminal', [])
        if isinstance(p, P.All):
            return ('all', list(p.reqs))
        if isinstance(p, P.Either):
            return ('either', list(p.alts))
        if isinstance(p, P.Optional):
            return ('optional', [p.opt])
        if isinstance(p, P.ZeroOrMore):
            return ('optional', [p.what])
        if isinstance(p, P.EOS):
            return ('eos', [])
        return ('terminal', [])
    return root, rules, refs


def data_grammar(tier, seed):
    viol, n = [], 0
    for which in ('strict_grammar', 'enhanced_grammar'):
        root, rules, refs = grammar_graph(which)
        # (1) closed: every referenced rule name is defined
        def names(p, acc):
            k, ch = refs(p)
            if k == 'rule':
                acc.add(ch[0])
                return
            for c in ch:
                names(c, acc)
        used = set([root])
        for r in rules.values():
            names(r, used)
        # only rules reachable from the root matter
        reach, todo = set(), [root]
        while todo:
            x = todo.pop()
            if x in reach or x not in rules:
                reach.add(x)
                continue
            reach.add(x)
            acc = set()
            names(rules[x], acc)
            todo.extend(acc)
        for nm in sorted(reach):
            n += 1
            if nm not in rules:
                viol.append({'id': '%s-undefined-rule-%s' % (which, nm), 'input': nm, 'observed': 'referenced from a reachable rule but not defined (KeyError at parse time)',
                             'expected': 'a definition', 'script': "from pgradd.RINGParser import Grammar\nprint(%r in Grammar.%s[1])\n" % (nm, which)})
        # (2) nullable rules and left recursion: no rule reaches itself before consuming input
        nullable = {}

        def is_nullable(p, seen=()):
            k, ch = refs(p)
            if k == 'rule':
                if ch[0] not in rules or ch[0] in seen:
                    return False
                return is_nullable(rules[ch[0]], seen + (ch[0],))
            if k in ('optional', 'eos'):
                return True
            if k == 'all':
                return all(is_nullable(c, seen) for c in ch)
            if k == 'either':
                return any(is_nullable(c, seen) for c in ch)
            return False

        def first_rules(p):
            """rules that can be entered at the current position without consuming input"""
            k, ch = refs(p)
            if k == 'rule':
                return {ch[0]}
            out = set()
            if k == 'all':
                for c in ch:
                    out |= first_rules(c)
                    if not is_nullable(c):
                        break
            elif k in ('either', 'optional'):
                for c in ch:
                    out |= first_rules(c)
            return out
        for nm in sorted(rules):
            n += 1
            seen, todo = set(), list(first_rules(rules[nm]))
            while todo:
                x = todo.pop()
                if x in seen or x not in rules:
                    continue
                seen.add(x)
                todo.extend(first_rules(rules[x]))
            if nm in seen:
                viol.append({'id': '%s-left-recursion-%s' % (which, nm), 'input': nm, 'observed': 'rule can re-enter itself without consuming input',
                             'expected': 'every cycle consumes input'})
        # (3) accepted text is consumed in full: the root rule ends with end-of-input
        n += 1

        def ends_with_eos(p, seen=()):
            k, ch = refs(p)
            if k == 'eos':
                return True
            if k == 'rule':
                return ch[0] in rules and ch[0] not in seen and ends_with_eos(rules[ch[0]], seen + (ch[0],))
            if k == 'all':
                return bool(ch) and ends_with_eos(ch[-1], seen)
            if k == 'either':
                return bool(ch) and all(ends_with_eos(c, seen) for c in ch)
            return False
        if not ends_with_eos(root):
            viol.append({'id': '%s-no-end-of-input' % which, 'input': root, 'observed': 'root rule does not require end of input: trailing text is ignored',
                         'expected': 'EOS() at the end of the root rule',
                         'script': "from pgradd.RINGParser.Reader import Read\nprint(Read('fragment a{ C labeled c1 } garbage !!'))  # expected RINGSyntaxError\n"})
        # (4)-(6) premises of the combinator contracts (C09comb): the body of every repetition is not nullable (else ZeroOrMore loops
        # forever at one position), no Either is empty (it would `raise None`), the root is the name of a defined rule,
        # every item is a parser object or a rule name (anything else is a TypeError in ParseState.parse)
        from pgradd.RINGParser import Parser as P

        def walk(p, seen):
            if isinstance(p, str) or id(p) in seen:
                return
            seen[id(p)] = p
            for c in (refs(p)[1] if not isinstance(p, P.Literals) else list(p.alts)):
                walk(c, seen)
        objs = {}
        for r in rules.values():
            walk(r, objs)
        for p in objs.values():
            n += 1
            if isinstance(p, P.ZeroOrMore) and is_nullable(p.what):
                viol.append({'id': '%s-nullable-repetition' % which, 'input': repr(p)[:120], 'observed': 'the repeated parser can succeed without consuming input: ZeroOrMore never ends',
                             'expected': 'a non-nullable body'})
            if isinstance(p, P.Either) and len(p.alts) == 0:
                viol.append({'id': '%s-empty-either' % which, 'input': repr(p)[:120], 'observed': 'Either() without alternatives raises None (TypeError)', 'expected': '>= 1 alternative'})
            for c in (refs(p)[1] if not isinstance(p, P.Literals) else list(p.alts)):
                if not isinstance(c, (str, P.Parser)):
                    viol.append({'id': '%s-not-a-parser' % which, 'input': repr(c)[:120], 'observed': 'neither a parser object nor a rule name', 'expected': 'Parser or str'})
        n += 1
        if not (isinstance(root, str) and root in rules):
            viol.append({'id': '%s-root' % which, 'input': repr(root)[:80], 'observed': 'root is not the name of a defined rule', 'expected': 'a rule name'})
    return {'name': 'grammar-closed-wellfounded-eos', 'obligations': n, 'violations': viol, 'exhaustive': True,
            'bound': 'every rule of strict_grammar and enhanced_grammar'}


DATA = [data_grammar]


# ---- bounded stand-in: the whole Read() pipeline on generated inputs (never counted as proved) -------------
def gen_text(rnd, which='enhanced_grammar', root=None, maxdepth=7):
    from pgradd.RINGParser import Grammar, Parser as P
    r0, rules = getattr(Grammar, which)
    INF = 10 ** 6
    size = {k: INF for k in rules}

    def msize(p):
        if isinstance(p, str):
            return size.get(p, 1)
        if isinstance(p, P.Literals):
            return 1
        if isinstance(p, P.All):
            return sum(msize(c) for c in p.reqs)
        if isinstance(p, P.Either):
            return min(msize(c) for c in p.alts)
        if isinstance(p, P.Optional):
            return 0
        return 1
    for _ in range(len(rules) + 2):
        for k in rules:
            size[k] = min(size[k], msize(rules[k]))
    idents = ['C', 'O', 'H', 'N', 'c', 'n', 'Pt', 'Cl', 'X', 'M', 'c1', 'c2', 'c3', 'o1', 'a', 'r1', 'AtomLabel', 'Xe', 'Zz', 'h_1']
    out = []
    declared = []

    def go(p, d):
        if isinstance(p, str):
            if p not in rules:
                out.append('<%s>' % p)
                return
            go(rules[p], d + 1)
        elif isinstance(p, P.Literals):
            alts = [a.tok for a in p.alts]
            out.append(rnd.choice(alts))
        elif isinstance(p, P.All):
            for c in p.reqs:
                go(c, d)
        elif isinstance(p, P.Either):
            alts = list(p.alts)
            go(min(alts, key=msize) if d > maxdepth else rnd.choice(alts), d)
        elif isinstance(p, P.Optional):
            if d <= maxdepth and rnd.random() < 0.5:
                go(p.opt, d)
        elif isinstance(p, (P.Literal, P.Filler)):
            out.append(p.tok)
        elif isinstance(p, P.Digit):
            out.append(rnd.choice('0123456789'))
        elif isinstance(p, P.Number):
            out.append(str(rnd.randint(0, 30)))
        elif isinstance(p, P.String):
            # labels: a name that follows 'labeled' declares one; where the grammar refers to a label (after 'bond to', 'ringbond', '(', ',', ...) a declared
            # one is used most of the time, so that generated texts get past the label look-ups of the readers
            prev = out[-1] if out else ''
            if prev == 'labeled':
                nm = rnd.choice(idents)
                declared.append(nm)
                out.append(nm)
            elif declared and prev in ('bond to', 'ringbond', '(', ',', 'to', 'and', 'for double bond between', 'stereo double bond', '=>') and rnd.random() < 0.85:
                out.append(rnd.choice(declared))
            else:
                out.append(rnd.choice(idents))
        elif isinstance(p, P.EOS):
            pass
        else:
            out.append('?')
    go(root or r0, 0)
    return out


def classify(text, timeout=3):
    """Run the real Read on text; returns ('ok'|'ring'|'notimpl'|'escape'|'hang'|'badpos', detail)"""
    import signal
    from pgradd.RINGParser.Reader import Read
    from pgradd.Error import RINGError, RINGSyntaxError
    from . import real

    class _T(Exception):
        pass

    def onalarm(sig, frm):
        raise _T()
    old = signal.signal(signal.SIGALRM, onalarm)
    signal.alarm(timeout)
    try:
        with real.quiet():
            Read(text)
        return ('ok', None)
    except _T:
        return ('hang', 'no answer within %d s' % timeout)
    except RINGSyntaxError as e:
        lines_ = text.split('\n')
        # inside the text: a line of the text, and a column of THAT line (one past its end = "at end of line / end of input")
        if not (1 <= e.lineno <= len(lines_) and 1 <= e.colno <= len(lines_[e.lineno - 1]) + 1):
            return ('badpos', 'line %s col %s' % (e.lineno, e.colno))
        # the error object is the answer of Read: it has to be printable both ways (a traceback uses str(), a logger / the prompt repr())
        for how in (str, repr):
            try:
                how(e)
            except Exception as ex:    # noqa
                return ('badpos', '%s(error) raised %s' % (how.__name__, type(ex).__name__))
        return ('ring', 'syntax')
    except RINGError as e:
        for how in (str, repr):
            try:
                how(e)
            except Exception as ex:    # noqa
                return ('escape', '%s(reader error) raised %s' % (how.__name__, type(ex).__name__))
        return ('ring', 'reader')
    except NotImplementedError:
        return ('notimpl', None)
    except Exception as e:    # noqa
        import traceback
        tb = traceback.extract_tb(e.__traceback__)
        site = '%s:%s' % (tb[-1].filename.split('/')[-1], tb[-1].name) if tb else '?'
        return ('escape', '%s at %s' % (type(e).__name__, site))
    finally:
        signal.alarm(0)
        signal.signal(signal.SIGALRM, old)


def standin_read(tier, seed):
    import random
    rnd = random.Random(seed)
    nbase = 60 if tier == 'quick' else 400
    nrand = 300 if tier == 'quick' else 3000
    texts = set()
    for i in range(nbase):
        toks = gen_text(rnd, root=rnd.choice(['RINGInput', 'Fragment', 'ReactionRule']))
        texts.add(' '.join(toks))
        # truncations, single-token deletions / duplications / substitutions
        for cut in rnd.sample(range(len(toks) + 1), min(6, len(toks) + 1)):
            texts.add(' '.join(toks[:cut]))
        for j in rnd.sample(range(len(toks)), min(6, len(toks))):
            texts.add(' '.join(toks[:j] + toks[j + 1:]))
            texts.add(' '.join(toks[:j] + [toks[j]] + toks[j:]))
            texts.add(' '.join(toks[:j] + [rnd.choice(['{', '}', '!', 'c1', 'zz', '7', ')', 'bond', '\u00b2'])] + toks[j + 1:]))
        s = ' '.join(toks)
        if len(s) > 3:
            k = rnd.randrange(len(s))
            texts.add(s[:k])
        # layout INSIDE a keyword of several words (a line break, a tab, two blanks), with a syntax error further on: whether or not such a keyword
        # is accepted, the position reported for the later error has to lie inside the text
        for _ in range(2):
            cand = [j for j, t in enumerate(toks) if ' ' in t]
            if cand:
                j = rnd.choice(cand)
                w = toks[j].replace(' ', rnd.choice(['\n', '\n\n ', '\t', '  ', ' \n']), 1)
                tail = rnd.choice([' }} !!', ' garbage', ' {', ''])
                texts.add(' '.join(toks[:j] + [w] + toks[j + 1:]) + tail)
                cut = rnd.randrange(j + 1, len(toks) + 1)
                texts.add(' '.join(toks[:j] + [w] + toks[j + 1:cut]) + ' ??')
    alphabet = 'abcCHON {}()!,.:+-*?$&0123456789\n\t_labeledfragmentbondtosingle\u00b2\u00e9\u4e2d'
    for i in range(nrand):
        texts.add(''.join(rnd.choice(alphabet) for _ in range(rnd.randint(0, 40))))
    texts |= {'', ' ', '\n\n', 'fragment', 'fragment a', 'fragment a{', 'rule', 'fragment a{ c labeled c1 }',
              'fragment a{ C labeled c1 C labeled c2 single bond to c1 ringbond c1 single bond to c1 }',
              'fragment a{ C labeled c1 C labeled c2 single bond to c1 ringbond c2 double bond to c1 }',
              'fragment a{ C labeled AtomLabel C labeled AtomLabel single bond to AtomLabel }',
              'fragment a{ C labeled c1 {connected to group G} }', 'fragment a{ C labeled c1 } garbage',
              'rule r{ reactant a{ C labeled c1 } constraints{ a is cyclic } break bond (c1, c1) }',
              'fragment a{ C labeled c1 C labeled c2 single bond to c2 }', 'fragment a{ C labeled c1 C labeled c2 double bond to c2 {connected to C} }',
              'rule r{reactant r1{C labeled c1 C labeled c2 single bond to c1} modify atomtype (c1, C)}',
              'rule r{reactant r1{C labeled c1 C labeled c2 single bond to c1} modify atomtype (c1, C.) modify atomtype (c2, C.) break bond (c1, c2)}',
              'fragment a{ C labeled c1 }\rgarbage', 'fragment a{ C labeled c1 }\x0cgarbage !!', 'fragment a{ C labeled c1 }\xa0x', 'fragment a{ C labeled c1 }\u2028{{{'}
    # size and nesting: long atom chains, long constraint chains, many reactants / edits (right-recursive grammar rules and the recursive
    # tree readers), digit strings longer than CPython converts by default, atom-type edits with a prefix
    R_ = 'rule r{ reactant r1{ C labeled c1 C labeled c2 single bond to c1 } %s }'
    for n_ in (150, 400):
        texts.add('fragment a{ C labeled c1 ' + ' '.join('C labeled c%d single bond to c%d' % (i + 1, i) for i in range(1, n_)) + ' }')
        texts.add('fragment a{ C labeled c1 {' + ', '.join(['connected to >0 H'] * n_) + '} }')
        texts.add(R_ % ' '.join(['increase number of radical (c1) decrease number of radical (c1)'] * n_))
    # numbers just under the conversion limits (accepted by int(), too long for str() once two of them are added; too large for float once
    # mixed with the 1.5 of an aromatic bond) in every place where the readers do arithmetic on them or print them
    for big in ('9' * 4300, '1' + '0' * 309, '9' * 400, '9' * 19):
        texts.add(R_ % ('modify number of radical (c1, %s) increase number of radical (c1)' % big))
        texts.add(R_ % ('modify number of radical (c1, %s) modify number of radical (c1, %s)' % (big, big)))
        texts.add(R_ % ('modify number of radical (c1, %s) modify bond (c1,c2,aromatic)' % big))
        texts.add(R_ % ('form aromatic bond (c1,c2) modify number of radical (c1, %s)' % big))
        texts.add('rule r{reactant r1{c labeled c1 c labeled c2 aromatic bond to c1} modify number of radical (c1, %s) break aromatic bond (c1,c2)}' % big)
        texts.add('fragment a{ C labeled c1 {connected to >%s H} }' % big)
        texts.add('fragment a{ C labeled c1 {in ring of size %s} }' % big)
        texts.add('fragment a{ C labeled c1 {has %s radical electrons} }' % big)
    for big in ('1' * 4400, '9' * 10000):
        texts.add(R_ % ('modify number of radical (c1, %s)' % big))
        texts.add('fragment a{ C labeled c1 {connected to >%s H} }' % big)
        texts.add('fragment a{ C labeled c1 {in ring of size %s} }' % big)
        texts.add('fragment a{ C labeled c1 {in >%s ring} }' % big)
        texts.add('fragment a{ C labeled c1 {has %s radical electrons} }' % big)
    # bounded TIME: nested parentheses in a constraints block (a grammar that re-parses a sub-expression per nesting level doubles the work each level),
    # unbalanced variants of the same, long flat chains
    RC_ = 'rule r{reactant r1{C labeled c1 H labeled h1 single bond to c1} constraints{%s} break bond (c1,h1) increase number of radical (c1) increase number of radical (h1)}'
    for depth in (6, 12, 18, 24, 40):
        texts.add(RC_ % ('(' * depth + 'r1 is cyclic' + ')' * depth))
        texts.add(RC_ % ('(' * depth + 'r1 is cyclic' + ')' * (depth - 1)))
        texts.add(RC_ % ('(' * depth + 'r1 is cyclic && ' + '(' * depth + '! r1 is aromatic' + ')' * depth + ')' * depth))
    texts.add(RC_ % ' && '.join(['r1 is cyclic'] * 60))
    # reactants declared as duplicates of another one (names of one and of several letters), then edits on the duplicated labels
    ONE_ = 'reactant r1{C labeled c1 H labeled h1 single bond to c1} '
    for dupname in ('r2', 'b', 'second'):
        DUP_ = 'reactant %s duplicates r1 (c1=>c2, h1=>h2) ' % dupname
        for ed in ('form bond (c1,c2)', 'increase bond order (c2,h2) decrease bond order (c2,h2)', 'increase number of radical (c2) decrease number of radical (c2)',
                   'increase formal charge (h2) decrease formal charge (h2)', 'modify number of radical (c2, 0)', 'modify atomtype (c2, C.)',
                   'break bond (c2,h2) increase number of radical (c2) increase number of radical (h2)', 'break bond (c1,h2)', 'modify bond (c2,h2,double)', 'modify bond (h1,h2,single)'):
            texts.add('rule R{' + ONE_ + DUP_ + ed + '}')
    texts.add('rule R{' + ONE_ + 'reactant r2 duplicates r1 (c1=>c2) increase number of radical (c2)}')
    texts.add('rule R{' + ONE_ + 'reactant r2 duplicates zz (c1=>c2, h1=>h2) increase number of radical (c2)}')
    # every reader-error path of the rule reader (labels in different reactants, bond that does not exist / does not match, radical count below zero, ...)
    R2 = 'rule r{ reactant a{ C labeled c1 C labeled c2 double bond to c1 } reactant b{ C labeled c3 H labeled h3 single bond to c3 } %s }'
    for ed in ('break bond (c1, c3)', 'form bond (c1, c3)', 'increase bond order (c1, c3)', 'decrease bond order (c1, c3)', 'break bond (c1, c2)', 'break single bond (c1, c2)',
               'break double bond (c1, c2)', 'break bond (c3, h3) break bond (c3, h3)', 'decrease number of radical (c1)', 'modify number of radical (c1, 9)', 'increase bond order (c3, h3)',
               'decrease bond order (c3, h3)', 'modify bond (c1, c2, triple)', 'modify bond (c3, c1, single)', 'break bond (c1, zz)', 'form bond (c1, c2)', 'decrease bond order (c1, c2) decrease bond order (c1, c2) decrease bond order (c1, c2)'):
        texts.add(R2 % ed)
        texts.add(R2 % (ed + ' increase number of radical (c1) increase number of radical (c2)'))
    for pre in ('aromatic', 'nonaromatic', 'ringatom', 'nonringatom', 'allylic'):
        texts.add(R_ % ('modify atomtype (c1, %s C)' % pre))
        texts.add(R_ % ('modify atomtype (c1, %s C.)' % pre))
    counts, viol, seen, samples = {}, [], set(), []
    # accepted text must have been consumed in full: a complete fragment followed by any blank and text that cannot
    # continue it has to be rejected
    complete = ['fragment a{ C labeled c1 }', 'fragment b{ C labeled c1 O labeled o1 double bond to c1 }',
                'rule r{reactant r1{C labeled c1 H labeled h1 single bond to c1} increase number of radical (c1) increase number of radical (h1) break bond (c1, h1)}']
    for base in complete:
        if classify(base)[0] != 'ok':
            continue
        for sep in [' ', '\n', '\t', '\r', '\x0c', '\x0b', '\xa0', '\u2028', '\u3000', '']:
            for junk in ['garbage', '}}', '!!', 'fragment', '7']:
                t = base + sep + junk
                kind, detail = classify(t)
                counts['trailing-' + kind] = counts.get('trailing-' + kind, 0) + 1
                if kind == 'ok' and len(viol) < 25:
                    viol.append({'id': 'trailing-text-accepted-%r-%s' % (sep, junk), 'input': t, 'observed': 'accepted', 'expected': 'RINGSyntaxError (text after the end of the fragment)',
                                 'script': "from pgradd.RINGParser.Reader import Read\nRead(%r)\n" % t})
    for t in sorted(texts):
        kind, detail = classify(t)
        counts[kind] = counts.get(kind, 0) + 1
        if kind in ('escape', 'hang', 'badpos'):
            key = (kind, detail)
            if key not in seen and len(viol) < 25:
                seen.add(key)
                viol.append({'id': '%s-%s' % (kind, detail), 'input': t, 'observed': detail,
                             'expected': 'a query, a RINGError or NotImplementedError',
                             'script': "from pgradd.RINGParser.Reader import Read\nRead(%r)\n" % t})
        elif len(samples) < 6 and kind == 'ok' and len(t) > 30:
            samples.append(t)
    return {'name': 'read-pipeline-generated-inputs', 'evaluations': len(texts), 'distinct_nontrivial': counts.get('ok', 0) + counts.get('ring', 0),
            'violations': viol, 'samples': samples or ['(no accepted sample)'], 'outcomes': counts,
            'bound': '%d grammar-generated fragments/rules with truncations, deletions, duplications, substitutions + %d random strings, 3 s watchdog each' % (nbase, nrand),
            'rule': 'inputs distinct as strings; non-trivial = reached a definite RING verdict (accepted or RINGError)'}


STANDINS = [standin_read]

UNITS = [
    Unit('ParseState.skip_filler', (PARSER, 'ParseState.skip_filler'), u_skip_filler),
    Unit('ParseState.take', (PARSER, 'ParseState.take'), u_take),
    Unit('String.__call__', (PARSER, 'String.__call__'), u_String, replay_String),
    Unit('Digit.__call__', (PARSER, 'Digit.__call__'), u_Digit, replay_Digit),
    Unit('Number.__call__', (PARSER, 'Number.__call__'), u_Number, replay_Number),
    Unit('EOS.__call__', (PARSER, 'EOS.__call__'), u_EOS),
    Unit('Literal.__call__', (PARSER, 'Literal.__call__'), lit_unit('Literal')),
    Unit('Filler.__call__', (PARSER, 'Filler.__call__'), lit_unit('Filler')),
]

for _u in UNITS:
    _u.branch_timeout_ms = 250    # string feasibility queries rarely decide; an undecided branch is explored (sound)

from . import C09comb     # noqa: E402
UNITS = UNITS + C09comb.UNITS      # combinators and ParseState.parse against the parser contract (no string theory)

from . import C09readers     # noqa: E402
UNITS = UNITS + C09readers.UNITS   # tree readers: safety for every tree shape the grammar allows, modular over the reader methods
DATA = DATA + C09readers.DATA
PROBES = globals().get('PROBES', []) + C09readers.PROBES
TRUSTED = TRUSTED + C09readers.TRUSTED
