"""C13 (part 2) -- the library level of a merge: GroupLibrary.Update and the group-reading loop of GroupLibrary._do_load.

Update: shared with C15 (u_update_frame: first sight = fresh copy, existing = ThermochemIncomplete.update with the caller's overwrite
flag -- whose own contract is C13 part 1 --, source library untouched, uncertainty data taken over once) + the "two uncertainty
blocks" case.  _do_load: the loop that reads the `groups:` block of one file is extracted mechanically (statement `for name in
group_properties:`) and verified with an abstract Group.parse: two names that denote the SAME group (different spellings) raise
KeyError, names of different groups are both stored with the data read from their own entry."""
import ast

import z3

from pyvc import source
from pyvc.engine import Obj, Builtin, Env, Func, PyExc, Namespace, Unsupported, NotImplementedVal, z3_of
from pyvc.source import BuiltinClass
from pyvc.verify import Unit, run_target, Outcome
from pyvc.world import World
from .spec import check_outcome
from . import C15

LIB = 'pgradd/GroupAdd/Library.py'
GROUP = 'pgradd/GroupAdd/Group.py'


def world():
    return C15.world() if hasattr(C15, 'world') else World()


def find_loop(target_name, iter_name):
    m, c, fn = source.find_function(LIB, 'GroupLibrary._do_load')
    hits = [n for n in ast.walk(fn) if isinstance(n, ast.For) and isinstance(n.target, ast.Name) and n.target.id == target_name
            and isinstance(n.iter, ast.Name) and n.iter.id == iter_name]
    if len(hits) != 1:
        raise Unsupported('_do_load: the statement `for %s in %s:` was not found exactly once (contract out of date)' % (target_name, iter_name))
    return m, c, fn, hits[0]


def _keyerr(I_, k_):
    raise I_.exc('KeyError', k_)


def _sets(I, v):
    """the property sets held by a stored entry, whether it is the loader's mapping or a dict made from it"""
    if isinstance(v, dict):
        return dict(v)
    if isinstance(v, Obj) and v.cls.name == 'LoadedSets':
        return {'thermochem': ('corr', v.fields['entry'][1])}
    return {}


def replay_empty_entry(model, state, ob):
    """a group listed without any property set in the including file, its data in the included file"""
    import os, shutil, tempfile
    import pgradd.ThermoChem  # noqa
    from pgradd.GroupAdd.Library import GroupLibrary
    from . import real
    tmp = tempfile.mkdtemp(prefix='pyvc_c13_')
    res = {}
    try:
        data = "groups:\n    'C(C)(H)3':\n        thermochem: !ThermochemGroup\n            T_ref: 298.15 K\n            ND_H_ref: -17.25\n"
        open(os.path.join(tmp, 'data.yaml'), 'w').write(data)
        open(os.path.join(tmp, 'empty.yaml'), 'w').write("groups:\n    'C(C)(H)3': {}\n")
        open(os.path.join(tmp, 'nested.yaml'), 'w').write("include: [data.yaml]\ngroups:\n    'C(C)(H)3': {}\n")
        open(os.path.join(tmp, 'flat.yaml'), 'w').write("include: [empty.yaml, data.yaml]\n")
        sch = real.load('BensonGA').scheme
        for nm in ('nested', 'flat'):
            try:
                with real.quiet():
                    lib = GroupLibrary._Load(os.path.join(tmp, nm + '.yaml'), sch)
                res[nm] = 'H=%r' % lib['C(C)(H)3']['thermochem'].ND_H_ref
            except Exception as e:    # noqa
                res[nm] = 'raised %s: %s' % (type(e).__name__, str(e)[:80])
    finally:
        shutil.rmtree(tmp, ignore_errors=True)
    return {'failed': res.get('nested') != res.get('flat') or 'raised' in str(res.get('nested')),
            'input': "library.yaml = {include: [data.yaml], groups: {'C(C)(H)3': {}}} (data.yaml gives H for that group) vs the same two pieces as siblings under an index file",
            'observed': res, 'expected': 'the same library for both nestings'}


replay_empty_entry.model_free = True


def u_read_groups(which):
    def run(I):
        ctx = I.ctx
        W_ = I.world
        tgt, itn, ctor = {'groups': ('name', 'group_properties', 'parse'), 'descriptors': ('name', 'other_descriptor_properties', 'Descriptor')}[which]
        m, c, fn, stmt = find_loop(tgt, itn)
        same = ctx.choose([True, True], 'the two names denote the same group') == 0
        W_.hash_keys['GroupKey'] = lambda I_, ob: ('gid', ob.fields['gid'])
        GK = BuiltinClass('GroupKey')
        W_.abstract['GroupKey'] = {'compare': lambda I_, op, a, b: (a.fields['gid'] == b.fields['gid']) == (op is ast.Eq) if isinstance(a, Obj) and isinstance(b, Obj) and a.cls is GK and b.cls is GK else NotImplementedVal,
                                   'attr': lambda I_, o, n: Builtin('__str__', lambda I2, a, k: 'group-%d' % o.fields['gid']) if n == '__str__' else NotImplementedVal}
        gid = {'spelling one': 1, 'spelling two': 1 if same else 2}
        parsed = []

        def mkgroup(I_, a, k):
            name = a[-1]
            parsed.append(name)
            return Obj(GK, {'gid': gid[name]}, 'fresh')
        W_.contracts[(GROUP, 'Group.parse')] = mkgroup
        W_.ctor_hooks['Descriptor'] = lambda I_, cls_, a, k: mkgroup(I_, a, k)
        loads = []

        # what the property-set loader returns is the schema loader's READ-ONLY mapping (yaml_io.schema.AnonymousClass: a collections.abc.Mapping with
        # __contains__ / __iter__ / __getitem__ / __len__ and no __setitem__) -- not a dict
        LS = BuiltinClass('LoadedSets')

        def ls_setitem(I_, o_, k_, v_):
            raise I_.exc('TypeError', "'AnonymousClass' object does not support item assignment")
        W_.abstract['LoadedSets'] = {'contains': lambda I_, o_, k_: k_ == 'thermochem', 'index': lambda I_, o_, k_: ('corr', o_.fields['entry'][1]) if k_ == 'thermochem' else _keyerr(I_, k_),
                                     'iter': lambda I_, o_: ['thermochem'], 'setitem': ls_setitem, 'mapping_keys': lambda I_, o_: ['thermochem']}

        def yload(I_, a, k):
            loads.append((a[0], k.get('loader')))
            return Obj(LS, {'entry': a[0]}, 'fresh')
        yio = Namespace('yaml_io', {'load': Builtin('yaml_io.load', yload)})
        data = {'spelling one': ('entry', 1), 'spelling two': ('entry', 2)}
        lib_contents = {}
        env = Env({itn: data, 'scheme': Obj(BuiltinClass('AnyScheme'), {}, 'param'), 'context': {'base_path': 'x'}, 'property_sets_loader': ('the-loader',),
                   'lib_contents': lib_contents, 'yaml_io': yio, 'cls': c}, Func(fn, m, c, None, 'GroupLibrary._do_load'), None, m, set())
        try:
            I.exec(stmt, env)
            out = Outcome('return', None)
        except PyExc as e:
            if e.obj.cls.name in ('NameError', 'UnboundLocalError'):
                raise Unsupported('extracted statement reads a variable defined outside it (%s)' % (e.obj.fields.get('args'),))
            out = Outcome('raise', e.obj)
        check_outcome(I, out, raises={'*': z3.BoolVal(same)}, returns=lambda r: [
            ('every entry is stored under the group its name denotes, with the data read from that entry by the property-set loader',
             z3.BoolVal(len(lib_contents) == 2 and sorted(_sets(I, v).get('thermochem', (None, None))[1] for v in lib_contents.values()) == [1, 2]
                        and all(ld == ('the-loader',) for _, ld in loads) and [d for d, _ in loads] == [('entry', 1), ('entry', 2)])),
            ('the property sets of a group are held in a mutable mapping of the library\'s own (Update adds the property sets of an included file to it: the loader\'s '
             'read-only mapping cannot take them)', z3.BoolVal(all(isinstance(v, dict) for v in lib_contents.values())))])
        if out.kind == 'raise':
            ctx.oblige('the duplicate is rejected before its data replace the first definition', z3.BoolVal(len(lib_contents) == 1 and [_sets(I, v) for v in lib_contents.values()] == [{'thermochem': ('corr', 1)}]))
        return {'inputs': {}}
    return run


def u_update_two_uq(I):
    """both libraries carry uncertainty data: ValueError (after the group data were merged -- stated, not demanded otherwise)"""
    return C15.u_update_frame(I, both_uq=True)


def u_copy(I):
    """copy(): a new object of the SAME class (a group correlation stays a group correlation -- update() refuses to merge across classes) built
    from this object's own five data fields"""
    ctx = I.ctx
    W_ = I.world
    INC = 'pgradd/ThermoChem/incomplete.py'
    which = ['ThermochemIncomplete', 'ThermochemGroup'][ctx.choose([True, True], 'class of the object')]
    cls = source.module(INC).classes['ThermochemIncomplete'] if which == 'ThermochemIncomplete' else source.module('pgradd/ThermoChem/group_data.py').classes['ThermochemGroup']
    built = []
    for cn in ('ThermochemIncomplete', 'ThermochemGroup'):
        W_.ctor_hooks[cn] = (lambda cn_: lambda I_, c, a, k: (built.append((c.name, list(a), dict(k))), Obj(c, {'made': len(built)}, 'fresh'))[1])(cn)
    H, S, T = ctx.fresh('H', 'real'), ctx.fresh('S', 'real'), ctx.fresh('T_ref', 'real')
    table = {300.0: 4.0}
    rng = (ctx.fresh('lo', 'real'), ctx.fresh('hi', 'real'))
    o = Obj(cls, {'ND_H_ref': H, 'ND_S_ref': S, 'ND_Cp_data': table, 'T_ref': T, 'range': rng}, 'param')
    o.complete = True
    out = run_target(I, INC, 'ThermochemIncomplete.copy', [], self_obj=o)

    def posts(r):
        ok = len(built) == 1 and isinstance(r, Obj) and r.fields.get('made') == 1
        ps = [('exactly one new object is built and returned', z3.BoolVal(ok))]
        if ok:
            cn, a, k = built[0]
            names = ['ND_H_ref', 'ND_S_ref', 'ND_Cp_data', 'T_ref', 'range']
            args = dict(zip(names, a))
            args.update(k)
            ps.append(('the copy has the class of the original (%s)' % which, z3.BoolVal(cn == which)))
            ps.append(('it is built from the original\'s own reference values, table, reference temperature and range',
                       z3.BoolVal(args.get('ND_H_ref') is H and args.get('ND_S_ref') is S and args.get('ND_Cp_data') is table and args.get('T_ref') is T
                                  and (args.get('range') is rng or args.get('range') == rng))))
        return ps
    check_outcome(I, out, raises={}, returns=posts)
    return {'inputs': {}}


def u_order_lemma(I):
    """include order / nesting does not matter (without overwrite): over the postcondition of ThermochemIncomplete.update (C13 part 1:
    table = own table overlaid with the other's, conflict = a key in both with two different values, range = hull, reference value =
    whichever is present), pointwise at an arbitrary key k, for three files a, b, c:
      commutative where no conflict, associative always, and the merge is rejected in one order iff it is rejected in every order."""
    ctx = I.ctx
    D = {x: ctx.fresh('dom_' + x, 'bool') for x in 'abc'}           # key k present in the table of file x
    V = {x: ctx.fresh('val_' + x, 'real') for x in 'abc'}           # its value there

    def merge(p, q):
        (dp, vp), (dq, vq) = p, q
        return (z3.Or(dp, dq), z3.If(dq, vq, vp))

    def conf(p, q):
        (dp, vp), (dq, vq) = p, q
        return z3.And(dp, dq, vp != vq)
    a, b, c = [(D[x], V[x]) for x in 'abc']
    ab, ba = merge(a, b), merge(b, a)
    ctx.oblige('merging two files is commutative at every key where they do not conflict', z3.Implies(z3.Not(conf(a, b)), z3.And(ab[0] == ba[0], z3.Implies(ab[0], ab[1] == ba[1]))))
    l, r = merge(ab, c), merge(a, merge(b, c))
    ctx.oblige('nesting does not matter: (a + b) + c = a + (b + c) at every key', z3.And(l[0] == r[0], z3.Implies(l[0], l[1] == r[1])))
    anypair = z3.Or(conf(a, b), conf(a, c), conf(b, c))
    import itertools
    for order in itertools.permutations('abc'):
        x, y, z_ = [(D[t], V[t]) for t in order]
        left = z3.Or(conf(x, y), z3.And(z3.Not(conf(x, y)), conf(merge(x, y), z_)))
        right = z3.Or(conf(y, z_), z3.And(z3.Not(conf(y, z_)), conf(x, merge(y, z_))))
        ctx.oblige('a conflict at this key is detected in include order %s, flat or nested, iff some two files disagree' % ''.join(order),
                   z3.And(left == anypair, right == anypair))
    # ranges (hull) and reference values (present in either; equal when present in both, else conflict)
    lo = {x: ctx.fresh('lo_' + x, 'real') for x in 'abc'}
    mn = lambda p, q: z3.If(p <= q, p, q)
    ctx.oblige('the hull of the ranges is order-free', z3.And(mn(mn(lo['a'], lo['b']), lo['c']) == mn(lo['a'], mn(lo['b'], lo['c'])), mn(lo['a'], lo['b']) == mn(lo['b'], lo['a'])))
    return {'inputs': {}}


def u_include_loop(I):
    """the include statement of GroupLibrary._do_load (extracted mechanically: `for include_path in lib_data.include:`), for ANY number of includes:
    every listed file is loaded exactly once, in file order, relative to the directory of the including file and with the scheme of the including
    library, and merged into the new library by Update WITHOUT overwrite (callee contracts: GroupLibrary._Load - which is _do_load again, its own
    contract - and GroupLibrary.Update, proved above).  With the order lemma this is the order-free, nesting-free union."""
    from pyvc.engine import SymSeq
    from pyvc import loops
    ctx = I.ctx
    W_ = I.world
    m, c, fn = source.find_function(LIB, 'GroupLibrary._do_load')
    hits = [n_ for n_ in ast.walk(fn) if isinstance(n_, ast.For) and isinstance(n_.target, ast.Name) and n_.target.id == 'include_path'
            and isinstance(n_.iter, ast.Attribute) and n_.iter.attr == 'include']
    if len(hits) != 1:
        raise Unsupported('_do_load: the statement `for include_path in <data>.include:` was not found exactly once (contract out of date)')
    stmt = hits[0]
    SS, IS_ = z3.StringSort(), z3.IntSort()
    Inc = z3.Function('IncludeName', IS_, SS)
    Join = z3.Function('PathJoin', SS, SS, SS)
    LoadId = z3.Function('LibraryLoadedFrom', SS, IS_)
    n = ctx.fresh('n_includes', 'int')
    ctx.assume(n >= 0)
    includes = SymSeq(n, lambda i: Inc(i), 'lib_data.include')
    base = ctx.fresh('base_path', 'str')
    scheme = Obj(BuiltinClass('AnyScheme'), {}, 'param')
    LibC = BuiltinClass('AbsLibrary')
    new_lib = Obj(LibC, {'id': ctx.fresh('new_lib', 'int'), 'merged': z3.IntVal(0)}, 'param')
    state = {'merged': z3.IntVal(0), 'load_failed': False}

    def load(I_, a, k):
        # cls._Load(path, scheme)
        if len(a) != 3 or k:
            raise Unsupported('_Load called with other arguments than (path, scheme)')
        ctx.oblige('an included file is loaded with the scheme of the including library', z3.BoolVal(a[2] is scheme), site='_Load')
        # loading the included file (which is _do_load again) may itself be rejected: a group under two spellings (KeyError), two different values for one
        # datum somewhere below it (ReadOnlyDataError).  Such a rejection is the rejection of the whole library - it must not be swallowed by the include loop.
        c_ = ctx.choose([True, True, True], 'included file: loads / duplicate spelling inside / conflict inside')
        if c_:
            state['load_failed'] = True
            raise I_.exc(['KeyError', 'ReadOnlyDataError'][c_ - 1], 'rejected inside an included file')
        return Obj(LibC, {'id': LoadId(z3_of(a[1])), 'path': z3_of(a[1])}, 'fresh')
    W_.contracts[(LIB, 'GroupLibrary._Load')] = load

    def upd(I_, o_, name):
        if name != 'Update':
            return NotImplementedVal

        def f(I2, a, k):
            j = state['merged']
            ok = len(a) == 1 and isinstance(a[0], Obj) and a[0].cls is LibC and 'path' in a[0].fields
            ctx.oblige('the new library is updated with a library loaded from an include', z3.BoolVal(bool(ok and o_ is new_lib)), site='Update')
            if ok:
                ctx.oblige('... the next one in file order, found relative to the directory of the including file', a[0].fields['path'] == Join(base, Inc(j)), site='Update')
            ow = k.get('overwrite', False)
            ctx.oblige('an include is merged WITHOUT overwrite (two different values for one datum are rejected)', z3.BoolVal(ow is False and not [x for x in k if x != 'overwrite']), site='Update')
            if ctx.choose([True, True], 'Update: merged / conflict') == 1:
                raise I2.exc('ReadOnlyDataError', 'two different values for one datum')
            state['merged'] = z3.simplify(j + 1)
            return None
        return Builtin('Update', f)
    W_.abstract['AbsLibrary'] = {'attr': upd}
    W_.abstract['LibData'] = {'attr': lambda I_, o_, nm: includes if nm == 'include' else NotImplementedVal}
    osns = Namespace('os', {'path': Namespace('os.path', {'join': Builtin('os.path.join', lambda I_, a, k: Join(z3_of(a[0]), z3_of(a[1])) if len(a) == 2 else _unsupported_join())})})
    ordinal = W_.loop_ordinal(fn, stmt)
    W_.loop_specs[(LIB, 'GroupLibrary._do_load', ordinal)] = loops.for_rule(
        'includes',
        lambda I_, j, env_, it: (state.__setitem__('merged', j), env_.local.pop('include_path', None)),
        lambda I_, j, env_, it: [('after j includes exactly j libraries have been merged', state['merged'] == j)])
    env = Env({'lib_data': Obj(BuiltinClass('LibData'), {}, 'param'), 'new_lib': new_lib, 'cls': c, 'base_path': base, 'scheme': scheme, 'os': osns},
              Func(fn, m, c, None, 'GroupLibrary._do_load'), None, m, set())
    try:
        I.exec(stmt, env)
        out = Outcome('return', None)
    except PyExc as e:
        if e.obj.cls.name in ('NameError', 'UnboundLocalError'):
            raise Unsupported('extracted statement reads a variable defined outside it (%s)' % (e.obj.fields.get('args'),))
        out = Outcome('raise', e.obj)
    if out.kind == 'raise':
        check_outcome(I, out, raises={'ReadOnlyDataError': z3.BoolVal(True), 'KeyError': z3.BoolVal(True)})
    else:
        check_outcome(I, out, raises={}, returns=lambda r: [('every include has been merged, each exactly once', state['merged'] == n),
                                                            ('a file that was rejected while it was being included makes the whole load fail (the include loop swallows nothing)', z3.BoolVal(not state['load_failed']))])
    return {'inputs': {}}


def _unsupported_join():
    raise Unsupported('os.path.join with other than two parts')


UNITS = [
    Unit('GroupLibrary._do_load[include loop, any number of includes]', (LIB, 'GroupLibrary._do_load'), u_include_loop),
    Unit('GroupLibrary.Update', (LIB, 'GroupLibrary.Update'), C15.u_update_frame),
    Unit('GroupLibrary.Update[two uncertainty blocks]', (LIB, 'GroupLibrary.Update'), u_update_two_uq),
    Unit('GroupLibrary._do_load[groups loop: duplicate spellings]', (LIB, 'GroupLibrary._do_load'), u_read_groups('groups'), replay_empty_entry),
    Unit('GroupLibrary._do_load[other_descriptors loop: duplicates]', (LIB, 'GroupLibrary._do_load'), u_read_groups('descriptors'), replay_empty_entry),
    Unit('ThermochemIncomplete.copy', ('pgradd/ThermoChem/incomplete.py', 'ThermochemIncomplete.copy'), u_copy),
    Unit('lemma:include-order-and-nesting', None, u_order_lemma, kind='lemma'),
]
for _u in UNITS:
    _u.world_factory = world
