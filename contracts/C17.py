"""C17 -- A generated network is the duplicate-free closure of its seeds.

GenerateRxnNet is one long function dominated by RDKit calls; it is not brought under contract as a whole.  What is
discharged deductively is the work-list update -- the real statement `for mol1 in products: ...` is extracted from the
function's AST on every run and executed on symbolic lists (at most two entries each) with an abstract isomorphism test:
it must keep `unprocessed ++ processed` pairwise non-isomorphic and add exactly the products that are new.  The closure
property (every seed, every reachable species, nothing else, termination on a finite closure) is compared with an
independent breadth-first closure by the bounded stand-in."""
import ast

import z3

from pyvc import source
from pyvc.engine import Obj, Builtin, Env, Func, Unsupported, NotImplementedVal, PyExc, is_z3, z3_of
from pyvc.source import BuiltinClass
from pyvc.verify import Unit, Outcome
from pyvc.world import World
from . import chem
from .spec import check_outcome

PROPERTY = 'C17'
LEVEL = 'other'
EXPLANATION = ('three statements of GenerateRxnNet are extracted mechanically and verified with an abstract species comparison for lists of up to two or three entries: '
               'putting the seeds on the work list (establishes "no species twice" for any seed list), taking the next species (nothing lost, waiting list '
               'shorter), the work-list update (invariant preserved, every new product queued once); a lemma derives the clauses of the property (closed under the '
               'rules, nothing but reachable species, seeds kept) from these per-iteration facts, ASSUMING that every rule is run on the popped species (RDKit '
               'calls, not modelled); the closure property as a whole is checked by the bounded stand-in against an independent breadth-first closure')
GEN = 'pgradd/RDkitWrapper/GenRxnNet.py'
IS, BS = z3.IntSort(), z3.BoolSort()
NAtoms = z3.Function('GetNumAtoms', IS, IS)
MatchLen = z3.Function('SubstructMatchLen', IS, IS, IS)
TRUSTED = ['the code\'s species comparison (same atom count and a full substructure match) is an equivalence relation on the species involved and holds for two '
           'molecules with the same canonical SMILES (assumed; it is COARSER than species identity: charges, isotopes, stereo marks are not compared - known finding K8)',
           'list lengths in the extracted statement are bounded by two per list: this obligation is bounded in size and not counted as a proof of the loop',
           'RDKit RunReactants, sanitisation and the over-valence filter are not modelled']
SpCls = BuiltinClass('Species')


def iso(a, b):
    return z3.And(NAtoms(a) == NAtoms(b), NAtoms(a) == MatchLen(a, b))


CanSmi = z3.Function('CanonicalSmiles', IS, z3.StringSort())


def same(a, b):
    """the SAME species: equal canonical SMILES (charges, isotopes, stereo marks included).  The code's own comparison `iso` (atom count + full
    substructure match) is coarser: same => iso is assumed, iso => same does not hold (known finding K8)"""
    return CanSmi(a) == CanSmi(b)


def species_attr(I, o, name):
    i = o.fields['id']
    if name == 'GetNumAtoms':
        return Builtin('GetNumAtoms', lambda I_, a, k: NAtoms(i))
    if name == 'GetSubstructMatch':
        return Builtin('GetSubstructMatch', lambda I_, a, k: Obj(BuiltinClass('MatchTuple'), {'len': MatchLen(i, a[0].fields['id'])}, 'fresh'))
    return NotImplementedVal


def world():
    w = World()
    chem.install2(w)
    w.abstract['Species'] = {'attr': species_attr}
    BuiltinClass  # noqa
    return w


def find_update_stmt():
    m, c, fn = source.find_function(GEN, 'GenerateRxnNet')
    hits = [n for n in ast.walk(fn) if isinstance(n, ast.For) and isinstance(n.target, ast.Name) and n.target.id == 'mol1'
            and isinstance(n.iter, ast.Name) and n.iter.id == 'products']
    if len(hits) != 1:
        raise Unsupported('GenerateRxnNet: the statement `for mol1 in products:` was not found exactly once (contract out of date)')
    return m, fn, hits[0]


def u_update_sized(sizes):
    return lambda I: u_update(I, sizes)


def u_update(I, sizes):
    ctx = I.ctx
    W_ = I.world
    m, fn, stmt = find_update_stmt()
    np_, npr, nu = sizes
    ids = iter(range(1, 20))
    mk = lambda: Obj(SpCls, {'id': z3.IntVal(next(ids))}, 'param')
    products = [mk() for _ in range(np_)]
    processed = [mk() for _ in range(npr)]
    unprocessed = [mk() for _ in range(nu)]
    allsp = products + processed + unprocessed
    MT = 'MatchTuple'
    W_.abstract[MT] = {}
    for cname in (MT,):
        pass
    # len() of the match tuple
    orig_len = W_.builtins['len']
    W_.builtins = dict(W_.builtins)
    W_.builtins['len'] = Builtin('len', lambda I_, a, k: a[0].fields['len'] if isinstance(a[0], Obj) and a[0].cls.name == MT else orig_len.fn(I_, a, k))
    idl = [s.fields['id'] for s in allsp]
    # the comparison is an equivalence on the species involved (assumed)
    for a in idl:
        ctx.assume(iso(a, a))
        for b in idl:
            ctx.assume(iso(a, b) == iso(b, a))
            for c in idl:
                ctx.assume(z3.Implies(z3.And(iso(a, b), iso(b, c)), iso(a, c)))
    pid = lambda l: [s.fields['id'] for s in l]
    # precondition: the invariant I2 for the work list (established by the seed statements, preserved by this statement)
    wl0 = pid(unprocessed) + pid(processed)
    for a in idl:
        for b in idl:
            ctx.assume(z3.Implies(same(a, b), iso(a, b)))
    for i in range(len(wl0)):
        for j in range(i):
            ctx.assume(z3.Not(same(wl0[i], wl0[j])))
    # (the products need NOT be pairwise distinct: the update compares each product with the work list as it stands at that moment)
    env = Env({'products': products, 'processed': processed, 'unprocessed': unprocessed}, Func(fn, m, None, None, 'GenerateRxnNet'), None, m, set())
    try:
        I.exec(stmt, env)
        out = Outcome('return', None)
    except PyExc as e:
        if e.obj.cls.name in ('NameError', 'UnboundLocalError'):
            # the statement now reads a variable bound elsewhere in GenerateRxnNet: the extraction (statement + three lists) no longer
            # covers what it depends on -- undecided here, the closure stand-in is the check that still applies
            raise Unsupported('extracted work-list statement reads a variable defined outside it (%s)' % e.obj.fields.get('args', ''))
        out = Outcome('raise', e.obj)

    def posts(_):
        un, pr = env.local['unprocessed'], env.local['processed']
        wl = pid(un) + pid(pr)
        ps = [('processed is not touched', z3.BoolVal(pr is processed and pid(pr) == pid(processed)))]
        ps.append(('no species is listed twice in unprocessed ++ processed (pairwise different canonical SMILES)',
                   z3.And([z3.Not(same(wl[i], wl[j])) for i in range(len(wl)) for j in range(i)]) if len(wl) > 1 else z3.BoolVal(True)))
        ps.append(('every product is (isomorphic to) a member of the work list afterwards',
                   z3.And([z3.Or([iso(p, w) for w in wl]) for p in pid(products)])))
        old = set(x.sexpr() for x in wl0)
        added = [w for w in pid(un) if w.sexpr() not in old]
        ps.append(('only products are added and none of the earlier entries is dropped',
                   z3.BoolVal(all(any(a.eq(p) for p in pid(products)) for a in added) and all(any(o_ == w.sexpr() for w in wl) for o_ in old))))
        return ps
    check_outcome(I, out, raises={}, returns=posts, site='GenerateRxnNet: work-list update')
    return {'inputs': {}}


def replay_seeds(model, state, ob):
    from rdkit import Chem
    from pgradd.RDkitWrapper.GenRxnNet import GenerateRxnNet
    from . import real
    with real.quiet():
        smis = [Chem.MolToSmiles(m) for m in GenerateRxnNet(['CC', 'CC'], ['[C:1][H:2]>>[C:1].[H:2]'])]
    dup = sorted(set(x for x in smis if smis.count(x) > 1))
    return {'failed': bool(dup), 'input': "GenerateRxnNet(['CC', 'CC'], ['[C:1][H:2]>>[C:1].[H:2]'])", 'observed': smis, 'expected': 'no species twice',
            'script': "from rdkit import Chem\nfrom pgradd.RDkitWrapper.GenRxnNet import GenerateRxnNet\nprint([Chem.MolToSmiles(m) for m in GenerateRxnNet(['CC', 'CC'], ['[C:1][H:2]>>[C:1].[H:2]'])])\n"}


def _unsup_smiles():
    raise Unsupported('MolToSmiles of something that is not a species')


def _species_world(I, n):
    ctx = I.ctx
    W_ = I.world
    ids = iter(range(1, 30))
    sp = [Obj(SpCls, {'id': z3.IntVal(next(ids))}, 'param') for _ in range(n)]
    MT = 'MatchTuple'
    W_.abstract[MT] = {}
    orig_len = W_.builtins['len']
    W_.builtins = dict(W_.builtins)
    W_.builtins['len'] = Builtin('len', lambda I_, a, k: a[0].fields['len'] if isinstance(a[0], Obj) and a[0].cls.name == MT else orig_len.fn(I_, a, k))
    idl = [s_.fields['id'] for s_ in sp]
    W_.externs['rdkit.Chem'].members['MolToSmiles'] = Builtin('Chem.MolToSmiles', lambda I_, a, k: CanSmi(a[0].fields['id']) if isinstance(a[0], Obj) and a[0].cls is SpCls else _unsup_smiles())
    for a in idl:
        for b in idl:
            ctx.assume(z3.Implies(same(a, b), iso(a, b)))
    for a in idl:
        ctx.assume(iso(a, a))
        for b in idl:
            ctx.assume(iso(a, b) == iso(b, a))
            for c in idl:
                ctx.assume(z3.Implies(z3.And(iso(a, b), iso(b, c)), iso(a, c)))
    return sp


def _exec_stmts(I, stmts, env, what):
    try:
        for st in stmts:
            I.exec(st, env)
        return Outcome('return', None)
    except PyExc as e:
        if e.obj.cls.name in ('NameError', 'UnboundLocalError'):
            raise Unsupported('extracted %s reads a variable defined outside it (%s)' % (what, e.obj.fields.get('args', '')))
        return Outcome('raise', e.obj)


def u_seeds(nseeds):
    """the statement that puts the seeds on the work list: establishes the invariant (no species twice) for ANY seed list,
    drops nothing but duplicates, keeps the order of first occurrence"""
    def run(I):
        ctx = I.ctx
        m, c, fn = source.find_function(GEN, 'GenerateRxnNet')
        hits = [n for n in ast.walk(fn) if isinstance(n, ast.For) and isinstance(n.target, ast.Name) and isinstance(n.iter, ast.Name) and n.iter.id == 'initial_reactant'
                and any(isinstance(x, ast.Attribute) and x.attr in ('append', 'insert') for x in ast.walk(n))]
        inits = [n for n in fn.body if isinstance(n, ast.Assign) and len(n.targets) == 1 and isinstance(n.targets[0], ast.Name) and n.targets[0].id == 'unprocessed']
        if len(inits) != 1:
            raise Unsupported('GenerateRxnNet: `unprocessed = ...` was not found exactly once at the top level (contract out of date)')
        seeds = _species_world(I, nseeds)
        env = Env({'initial_reactant': list(seeds)}, Func(fn, m, None, None, 'GenerateRxnNet'), None, m, set())
        pos = fn.body.index(inits[0])
        ends = [i for i, n in enumerate(fn.body) if i > pos and isinstance(n, ast.Assign) and len(n.targets) == 1 and isinstance(n.targets[0], ast.Name) and n.targets[0].id == 'processed']
        if not ends or not any(h in fn.body[pos:ends[0]] for h in hits):
            raise Unsupported('GenerateRxnNet: the seed statements (from `unprocessed = ...` to `processed = ...`) were not found (contract out of date)')
        stmts = fn.body[pos:ends[0]]
        out = _exec_stmts(I, stmts, env, 'seed statements')
        pid = lambda l: [s_.fields['id'] for s_ in l]

        def posts(_):
            un = env.local['unprocessed']
            if not isinstance(un, list) or not all(isinstance(x, Obj) and x.cls is SpCls for x in un):
                return [('the work list is a list of species', z3.BoolVal(False))]
            wl = pid(un)
            return [('the initial work list holds no species twice (the loop invariant holds on entry, whatever seeds are given)',
                     z3.And([z3.Not(same(wl[i], wl[j])) for i in range(len(wl)) for j in range(i)]) if len(wl) > 1 else z3.BoolVal(True)),
                    ('every seed IS a member of the initial work list (the same species: a seed that differs in charge, isotope or stereo from another one is kept)',
                     z3.And([z3.Or([same(p, w) for w in wl]) if wl else z3.BoolVal(False) for p in pid(seeds)])),
                    ('the work list holds seeds only, in the order given', z3.BoolVal([x for x in seeds if any(x is y for y in un)] == un))]
        check_outcome(I, out, raises={}, returns=posts, site='GenerateRxnNet: seeds')
        return {'inputs': {}}
    return run


def u_pop(I):
    """the three statements that move the next species from `unprocessed` to `processed`: nothing is lost or duplicated"""
    ctx = I.ctx
    m, c, fn = source.find_function(GEN, 'GenerateRxnNet')
    loops_ = [n for n in fn.body if isinstance(n, ast.While) and isinstance(n.test, ast.Name) and n.test.id == 'unprocessed']
    if len(loops_) != 1:
        raise Unsupported('GenerateRxnNet: `while unprocessed:` was not found exactly once (contract out of date)')
    head = []
    for st in loops_[0].body:
        if isinstance(st, ast.For):
            break
        head.append(st)
    sp = _species_world(I, 4)
    un, pr = [sp[0], sp[1]], [sp[2], sp[3]]
    if ctx.choose([True, True], 'one or two species waiting') == 0:
        un = [sp[0]]
    un0, pr0 = list(un), list(pr)
    env = Env({'unprocessed': un, 'processed': pr}, Func(fn, m, None, None, 'GenerateRxnNet'), None, m, set())
    out = _exec_stmts(I, head, env, 'loop head')
    check_outcome(I, out, raises={}, returns=lambda _: [
        ('the species taken is the first waiting one and it is now processed', z3.BoolVal(env.local.get('reactant0') is un0[0] and any(x is un0[0] for x in env.local['processed']))),
        ('nothing is lost or listed twice: processed ++ unprocessed is a rearrangement of what it was',
         z3.BoolVal(sorted(id(x) for x in env.local['processed'] + env.local['unprocessed']) == sorted(id(x) for x in un0 + pr0))),
        ('the waiting list got shorter (termination measure of a finite closure)', z3.BoolVal(len(env.local['unprocessed']) == len(un0) - 1))], site='GenerateRxnNet: loop head')
    return {'inputs': {}}


def replay_update(model, state, ob):
    from rdkit import Chem
    from pgradd.RDkitWrapper.GenRxnNet import GenerateRxnNet
    from . import real
    with real.quiet():
        net = GenerateRxnNet(['CC', '[CH2]C'], ['[C:1][H:2]>>[C:1].[H:2]'])
        smis = [Chem.MolToSmiles(m) for m in net]
    dup = sorted(set(s for s in smis if smis.count(s) > 1))
    return {'failed': bool(dup), 'input': "GenerateRxnNet(['CC', '[CH2]C'], ['[C:1][H:2]>>[C:1].[H:2]'])", 'observed': smis, 'expected': 'no species twice',
            'script': "from rdkit import Chem\nfrom pgradd.RDkitWrapper.GenRxnNet import GenerateRxnNet\nprint([Chem.MolToSmiles(m) for m in GenerateRxnNet(['CC', '[CH2]C'], ['[C:1][H:2]>>[C:1].[H:2]'])])\n"}


SIZES = [(1, 1, 1), (2, 1, 1), (1, 2, 1), (2, 1, 0), (1, 1, 2), (2, 2, 1)]
def u_closure_lemma(I):
    """From the per-iteration facts to the clauses of the property (pure logic over an uninterpreted sort of species).
    Per-iteration facts: (a) the lists only grow as a whole (loop-head unit: the popped species moves from `unprocessed` to `processed`; update unit: products
    are only ever added), (b) after the update every product of the popped species x that passed the filter is (iso to) a member (update unit, first post),
    (c) whatever is added is such a product (update unit: "nothing but products is queued").  NOT verified here and assumed: between loop head and update the
    code hands x to EVERY rule and collects every product set (RunReactants and the filter are RDKit calls, not modelled) -- that is what Prod stands for.
    Invariants:  Closed(P, L): every product of a processed species is iso to a member of L;  Sound(L): every member is reachable from the seeds."""
    ctx = I.ctx
    Sp = z3.DeclareSort('Sp')
    InL, InL2, P, P2, Reach, Seed = [z3.Function(n, Sp, BS) for n in ('InL', 'InL2', 'Proc', 'Proc2', 'Reach', 'Seed')]
    Prod = z3.Function('Prod', Sp, Sp, BS)
    Iso = z3.Function('Iso', Sp, Sp, BS)
    x = z3.Const('x', Sp)
    s_, q_, m_ = z3.Consts('s q m', Sp)
    A = ctx.assume
    # iso is an equivalence that rules respect up to iso (reachability is a property of the species, not of the object)
    A(z3.ForAll([s_], Iso(s_, s_)))
    A(z3.ForAll([s_, q_], z3.Implies(Iso(s_, q_), Iso(q_, s_))))
    A(z3.ForAll([s_, q_, m_], z3.Implies(z3.And(Iso(s_, q_), Iso(q_, m_)), Iso(s_, m_))))
    A(z3.ForAll([s_], z3.Implies(Seed(s_), Reach(s_))))
    A(z3.ForAll([s_, q_], z3.Implies(z3.And(Reach(s_), Prod(s_, q_)), Reach(q_))))
    # state before the iteration: invariants hold, x is the member taken from the waiting list
    closed = lambda Pn, Ln: z3.ForAll([s_, q_], z3.Implies(z3.And(Pn(s_), Prod(s_, q_)), z3.Exists([m_], z3.And(Ln(m_), Iso(q_, m_)))))
    sound = lambda Ln: z3.ForAll([m_], z3.Implies(Ln(m_), Reach(m_)))
    seeds_in = lambda Ln: z3.ForAll([s_], z3.Implies(Seed(s_), z3.Exists([m_], z3.And(Ln(m_), Iso(s_, m_)))))
    A(closed(P, InL)); A(sound(InL)); A(seeds_in(InL))
    A(z3.And(InL(x), z3.Not(P(x))))
    A(z3.ForAll([s_], z3.Implies(P(s_), InL(s_))))
    # the iteration (facts a, b, c)
    A(z3.ForAll([s_], z3.Implies(InL(s_), InL2(s_))))
    A(z3.ForAll([s_], P2(s_) == z3.Or(P(s_), s_ == x)))
    A(z3.ForAll([q_], z3.Implies(Prod(x, q_), z3.Exists([m_], z3.And(InL2(m_), Iso(q_, m_))))))
    A(z3.ForAll([m_], z3.Implies(z3.And(InL2(m_), z3.Not(InL(m_))), Prod(x, m_))))
    ctx.oblige('closure is preserved: every product of a processed species is (iso to) a listed species', closed(P2, InL2))
    ctx.oblige('nothing else is listed: every member is obtainable from the seeds by the rules', sound(InL2))
    ctx.oblige('every seed stays listed', seeds_in(InL2))
    ctx.oblige('processed species are members', z3.ForAll([s_], z3.Implies(P2(s_), InL2(s_))))
    # exit: the waiting list is empty, so every member is processed: the list is closed under the rules
    A(z3.ForAll([s_], z3.Implies(InL2(s_), P2(s_))))
    ctx.oblige('at exit (nothing waiting) the returned list is closed under the rules: a product of ANY listed species is (iso to) a listed species',
               z3.ForAll([s_, q_], z3.Implies(z3.And(InL2(s_), Prod(s_, q_)), z3.Exists([m_], z3.And(InL2(m_), Iso(q_, m_))))))
    return {'inputs': {}}


UNITS = [Unit('GenerateRxnNet[work-list update %d products, %d processed, %d unprocessed]' % s_, (GEN, 'GenerateRxnNet'), u_update_sized(s_), replay_update) for s_ in SIZES]
UNITS += [Unit('GenerateRxnNet[seeds -> work list, %d seeds]' % k, (GEN, 'GenerateRxnNet'), u_seeds(k), replay_seeds) for k in (1, 2, 3)]
UNITS += [Unit('GenerateRxnNet[loop head: next species]', (GEN, 'GenerateRxnNet'), u_pop)]
UNITS += [Unit('lemma:work-list-invariants-give-the-closure', None, u_closure_lemma, kind='lemma')]

from . import standins
STANDINS = [standins.c17_closure]

# the closure is taken over what a rule object yields: one product set per match of the reactant pattern (unit of C16, its own world)
from . import C16 as _c16      # noqa: E402
for _u in _c16.UNITS:
    if _u.name == 'ReactionQuery.RunReactants':
        if getattr(_u, 'world_factory', None) is None:
            _u.world_factory = _c16.world
        UNITS.append(_u)
