"""Abstract RDKit (assumed extern contracts).  Molecules are abstract objects identified by an Int id; observers are
uninterpreted functions of (molecule id, atom index)."""
import z3

from pyvc.engine import Obj, Builtin, Namespace, SymSeq, NotImplementedVal, Unsupported, is_z3, z3_of
from pyvc.source import BuiltinClass

IS, RS, BS, SS = z3.IntSort(), z3.RealSort(), z3.BoolSort(), z3.StringSort()
MolCls = BuiltinClass('Mol')
AtomCls = BuiltinClass('Atom')

MolFromSmilesId = z3.Function('MolFromSmiles', SS, IS)
AddHsId = z3.Function('AddHs', IS, IS)
NumAtoms = z3.Function('NumAtoms', IS, IS)
AtomicNum = z3.Function('AtomicNum', IS, IS, IS)
S_elements = z3.Function('S_elements', IS, RS)

TRUSTED = ('rdkit: Chem.MolFromSmiles / rdmolops.AddHs return molecules determined by their argument; GetAtoms() lists '
           'the NumAtoms atoms of the molecule; GetAtomicNum() is a function of (molecule, atom index)')


def mol(mid):
    return Obj(MolCls, {'mid': mid}, origin='fresh')


def mol_attr(I, m, name):
    mid = m.fields['mid']
    if name == 'GetAtoms':
        def f(I, a, k):
            I.ctx.assume(NumAtoms(mid) >= 0)
            return SymSeq(NumAtoms(mid), lambda i: Obj(AtomCls, {'mid': mid, 'idx': i}, origin='fresh'), 'atoms', origin='fresh')
        return Builtin('Mol.GetAtoms', f)
    return NotImplementedVal


def atom_attr(I, a, name):
    if name == 'GetAtomicNum':
        return Builtin('Atom.GetAtomicNum', lambda I, x, k: AtomicNum(a.fields['mid'], a.fields['idx']))
    return NotImplementedVal


def namespace():
    def mfs(I, a, k):
        s = a[0]
        if s is None:
            raise I.exc('TypeError', 'MolFromSmiles(None)')
        if isinstance(s, Obj):
            raise I.exc('TypeError', 'MolFromSmiles() takes text, not a molecule object')        # Boost.Python ArgumentError is a TypeError
        return mol(MolFromSmilesId(z3_of(s)))
    addhs = Builtin('Chem.AddHs', lambda I, a, k: mol(AddHsId(a[0].fields['mid'])))
    rdmolops = Namespace('rdmolops', {'AddHs': addhs})
    return Namespace('rdkit.Chem', {'MolFromSmiles': Builtin('Chem.MolFromSmiles', mfs), 'AddHs': addhs,
                                    'rdmolops': rdmolops, 'Mol': MolCls})


def install(world):
    world.externs['rdkit.Chem'] = namespace()
    world.externs['rdkit'] = Namespace('rdkit', {'Chem': world.externs['rdkit.Chem']})
    world.abstract['Mol'] = {'attr': mol_attr}
    world.abstract['Atom'] = {'attr': atom_attr}


# ================================================================================================================
# richer molecule model for the RING evaluators (C08), the scheme (C02) and the reaction machinery (C16/C17)
BondTypeCls = BuiltinClass('BondType')
BondCls = BuiltinClass('Bond')
RingCls = BuiltinClass('Ring')
RingInfoCls = BuiltinClass('RingInfo')
# the installed RDKit's Chem.BondType.names (probed by probe_bond_codes)
BOND_CODES = {'UNSPECIFIED': 0, 'SINGLE': 1, 'DOUBLE': 2, 'TRIPLE': 3, 'QUADRUPLE': 4, 'QUINTUPLE': 5, 'HEXTUPLE': 6, 'ONEANDAHALF': 7,
              'TWOANDAHALF': 8, 'THREEANDAHALF': 9, 'FOURANDAHALF': 10, 'FIVEANDAHALF': 11, 'AROMATIC': 12, 'IONIC': 13, 'HYDROGEN': 14,
              'THREECENTER': 15, 'DATIVEONE': 16, 'DATIVE': 17, 'DATIVEL': 18, 'DATIVER': 19, 'OTHER': 20, 'ZERO': 21}


def probe_bond_codes(tier, seed):
    from rdkit import Chem
    real = {k: int(v) for k, v in Chem.BondType.names.items()}
    return {'name': 'rdkit-bondtype-codes', 'ok': real == BOND_CODES, 'detail': None if real == BOND_CODES else real}
Rad = z3.Function('NumRadicalElectrons', IS, IS, IS)
Chg = z3.Function('FormalCharge', IS, IS, IS)
AInRing = z3.Function('AtomIsInRing', IS, IS, BS)
Arom = z3.Function('AtomIsAromatic', IS, IS, BS)
Deg = z3.Function('Degree', IS, IS, IS)
BondOf = z3.Function('BondOf', IS, IS, IS, IS)        # (mol, atom, k) -> bond id of the k-th bond of the atom
BType = z3.Function('BondTypeCode', IS, IS, IS)
BInRing = z3.Function('BondIsInRing', IS, IS, BS)
OtherAtom = z3.Function('OtherAtom', IS, IS, IS, IS)  # (mol, bond, atom) -> the other end
NRings = z3.Function('NumRings', IS, IS)
RingSize = z3.Function('RingSize', IS, IS, IS)
RingAtom = z3.Function('RingAtom', IS, IS, IS, IS)
RingHas = z3.Function('RingHas', IS, IS, IS, BS)
MinRingSize = z3.Function('MinAtomRingSize', IS, IS, IS)
MinRingWitness = z3.Function('MinRingWitness', IS, IS, IS)
InRingOfSize = z3.Function('IsAtomInRingOfSize', IS, IS, IS, BS)
RingOfSizeWitness = z3.Function('RingOfSizeWitness', IS, IS, IS, IS)
HasBond = z3.Function('HasBond', IS, IS, IS, BS)
BondBetween = z3.Function('BondBetween', IS, IS, IS, IS)
TRUSTED2 = ('rdkit observers are functions of (molecule, atom/bond index): GetNumRadicalElectrons, GetFormalCharge, IsInRing, GetIsAromatic, '
            'GetBonds (Degree bonds), GetBondType, GetOtherAtom, RingInfo.AtomRings (each ring lists an atom at most once), '
            'GetBondBetweenAtoms (None if absent); Atom.Match(query atom) is the primitive query of that atom')


def bondtype(code):
    return Obj(BondTypeCls, {'code': code if is_z3(code) else z3.IntVal(code)}, 'fresh')


def bondtype_compare(I, op, a, b):
    import ast
    if isinstance(a, Obj) and isinstance(b, Obj) and a.cls is BondTypeCls and b.cls is BondTypeCls:
        c = a.fields['code'] == b.fields['code']
        if op is ast.Eq:
            return c
        if op is ast.NotEq:
            return z3.Not(c)
    if (isinstance(a, Obj) and a.cls is BondTypeCls) != (isinstance(b, Obj) and b.cls is BondTypeCls):
        return op is ast.NotEq
    return NotImplementedVal


def bondtype_attr(I, o, name):
    if name in ('__str__', 'name'):
        code = o.fields['code']
        s = z3.StringVal('OTHER')
        for nm, c in BOND_CODES.items():
            s = z3.If(code == c, z3.StringVal(nm), s)
        return Builtin('BondType.__str__', lambda I_, a, k: s) if name == '__str__' else s
    return NotImplementedVal


def bond(mid, b):
    return Obj(BondCls, {'mid': mid, 'b': b}, 'param')


def atom(mid, idx):
    return Obj(AtomCls, {'mid': mid, 'idx': idx if is_z3(idx) else z3.IntVal(idx)}, 'param')


def bond_attr(I, o, name):
    mid, b = o.fields['mid'], o.fields['b']
    if name == 'GetBondType':
        return Builtin('Bond.GetBondType', lambda I_, a, k: bondtype(BType(mid, b)))
    if name == 'IsInRing':
        return Builtin('Bond.IsInRing', lambda I_, a, k: BInRing(mid, b))
    if name == 'GetOtherAtom':
        return Builtin('Bond.GetOtherAtom', lambda I_, a, k: atom(mid, OtherAtom(mid, b, a[0].fields['idx'])))
    return NotImplementedVal


def atom_attr2(I, a, name):
    mid, idx = a.fields['mid'], a.fields['idx']
    table = {'GetNumRadicalElectrons': lambda: Rad(mid, idx), 'GetFormalCharge': lambda: Chg(mid, idx), 'IsInRing': lambda: AInRing(mid, idx),
             'GetIsAromatic': lambda: Arom(mid, idx), 'GetIdx': lambda: idx, 'GetAtomicNum': lambda: AtomicNum(mid, idx),
             'GetOwningMol': lambda: Obj(MolCls, {'mid': mid}, 'param')}
    if name in table:
        return Builtin('Atom.' + name, lambda I_, x, k: table[name]())
    if name == 'GetBonds':
        def f(I_, x, k):
            I_.ctx.assume(Deg(mid, idx) >= 0)
            return SymSeq(Deg(mid, idx), lambda j: bond(mid, BondOf(mid, idx, j)), 'bonds', origin='param')
        return Builtin('Atom.GetBonds', f)
    return NotImplementedVal


def ring_obj(mid, r):
    return Obj(RingCls, {'mid': mid, 'r': r}, 'param')


def ring_handlers():
    def contains(I, o, item):
        return RingHas(o.fields['mid'], o.fields['r'], z3_of(item))

    def symseq(I, o):
        mid, r = o.fields['mid'], o.fields['r']
        I.ctx.assume(RingSize(mid, r) >= 3)
        return SymSeq(RingSize(mid, r), lambda k: RingAtom(mid, r, k), 'ring-atoms', origin='param')
    return {'contains': contains, 'symseq': symseq}


def ring_len(I, o):
    I.ctx.assume(RingSize(o.fields['mid'], o.fields['r']) >= 3)
    return RingSize(o.fields['mid'], o.fields['r'])


RingCls.len_hook = ring_len


def mol_attr2(I, m, name):
    mid = m.fields['mid']
    if name == 'GetRingInfo':
        return Builtin('Mol.GetRingInfo', lambda I_, a, k: Obj(RingInfoCls, {'mid': mid}, 'param'))
    if name == 'GetAtomWithIdx':
        return Builtin('Mol.GetAtomWithIdx', lambda I_, a, k: atom(mid, z3_of(a[0])))
    if name == 'GetBondBetweenAtoms':
        def f(I_, a, k):
            i, j = z3_of(a[0]), z3_of(a[1])
            if I_.ctx.branch(HasBond(mid, i, j)):
                return bond(mid, BondBetween(mid, i, j))
            return None
        return Builtin('Mol.GetBondBetweenAtoms', f)
    if name == 'GetAtoms':
        def g(I_, a, k):
            I_.ctx.assume(NumAtoms(mid) >= 0)
            return SymSeq(NumAtoms(mid), lambda i: atom(mid, i), 'atoms', origin='param')
        return Builtin('Mol.GetAtoms', g)
    return NotImplementedVal


def ringinfo_attr(I, o, name):
    mid = o.fields['mid']
    if name == 'AtomRings':
        def f(I_, a, k):
            I_.ctx.assume(NRings(mid) >= 0)
            return SymSeq(NRings(mid), lambda r: ring_obj(mid, r), 'rings', origin='param')
        return Builtin('RingInfo.AtomRings', f)
    if name == 'NumRings':
        def g(I_, a, k):
            I_.ctx.assume(NRings(mid) >= 0)
            return NRings(mid)
        return Builtin('RingInfo.NumRings', g)
    if name == 'MinAtomRingSize':
        # smallest ring through the atom (0 if none): lower bound of every ring through it (schema) + a witness ring attaining it
        def h(I_, a, k):
            ctx = I_.ctx
            idx = z3_of(a[0])
            mn, w = MinRingSize(mid, idx), MinRingWitness(mid, idx)
            r = z3.Int('r!mrs')
            ctx.assume_forall([r], z3.Implies(z3.And(0 <= r, r < NRings(mid), RingHas(mid, r, idx)), z3.And(mn <= RingSize(mid, r), AInRing(mid, idx))), 'MinAtomRingSize is a lower bound')
            ctx.assume(z3.If(AInRing(mid, idx), z3.And(0 <= w, w < NRings(mid), RingHas(mid, w, idx), RingSize(mid, w) == mn, mn >= 3), mn == 0))
            ctx.instantiate([w])
            return mn
        return Builtin('RingInfo.MinAtomRingSize', h)
    if name == 'IsAtomInRingOfSize':
        def h2(I_, a, k):
            ctx = I_.ctx
            idx, n = z3_of(a[0]), z3_of(a[1])
            b, w = InRingOfSize(mid, idx, n), RingOfSizeWitness(mid, idx, n)
            r = z3.Int('r!irs')
            ctx.assume_forall([r], z3.Implies(z3.And(0 <= r, r < NRings(mid), RingHas(mid, r, idx), RingSize(mid, r) == n), b), 'IsAtomInRingOfSize: every such ring makes it true')
            ctx.assume(z3.Implies(b, z3.And(0 <= w, w < NRings(mid), RingHas(mid, w, idx), RingSize(mid, w) == n)))
            ctx.instantiate([w])
            return b
        return Builtin('RingInfo.IsAtomInRingOfSize', h2)
    return NotImplementedVal


def witness_terms(formulas):
    """applications of the witness functions of the ring observers occurring in the path condition"""
    out, seen = [], set()

    def walk(e):
        if e.get_id() in seen:
            return
        seen.add(e.get_id())
        if z3.is_app(e):
            if e.decl().name() in ('MinRingWitness', 'RingOfSizeWitness') and e.sexpr() not in [x.sexpr() for x in out]:
                out.append(e)
            for c in e.children():
                walk(c)
    for f in formulas:
        if is_z3(f):
            walk(f)
    return out


def install2(world):
    """full model (superset of install)"""
    install(world)
    ns = world.externs['rdkit.Chem']
    bt = Namespace('BondType', {nm: bondtype(c) for nm, c in BOND_CODES.items()})
    ns.members['BondType'] = bt
    ns.members['Bond'] = BondCls
    ns.members['rdchem'] = Namespace('rdchem', {'BondType': bt})
    world.abstract['BondType'] = {'compare': bondtype_compare, 'attr': bondtype_attr}
    world.abstract['Bond'] = {'attr': bond_attr}
    world.abstract['Ring'] = ring_handlers()
    world.abstract['RingInfo'] = {'attr': ringinfo_attr}
    old_atom = world.abstract['Atom']['attr']
    old_mol = world.abstract['Mol']['attr']

    def aa(I, a, name):
        r = atom_attr2(I, a, name)
        return r if r is not NotImplementedVal else old_atom(I, a, name)

    def ma(I, m, name):
        r = mol_attr2(I, m, name)
        return r if r is not NotImplementedVal else old_mol(I, m, name)
    world.abstract['Atom'] = {'attr': aa}
    world.abstract['Mol'] = {'attr': ma}
    world.hash_keys['BondType'] = lambda I, o: ('bondtype', o.fields['code'])
