"""Abstract RDKit (assumed extern contracts).  Molecules are abstract objects identified by an Int id; observers are
uninterpreted functions of (molecule id, atom index)."""
import z3

from pyvc.engine import Obj, Builtin, Namespace, SymSeq, NotImplementedVal, Unsupported, is_z3, z3_of
from pyvc.source import BuiltinClass

IS, RS, BS, SS = z3.IntSort(), z3.RealSort(), z3.BoolSort(), z3.StringSort()
MolCls = BuiltinClass('Mol')
AtomCls = BuiltinClass('Atom')

MolFromSmilesId = z3.Function('MolFromSmiles', SS, IS)
AddHsId = z3.Function('AddHs', IS, IS)
NumAtoms = z3.Function('NumAtoms', IS, IS)
AtomicNum = z3.Function('AtomicNum', IS, IS, IS)
S_elements = z3.Function('S_elements', IS, RS)

TRUSTED = ('rdkit: Chem.MolFromSmiles / rdmolops.AddHs return molecules determined by their argument; GetAtoms() lists '
           'the NumAtoms atoms of the molecule; GetAtomicNum() is a function of (molecule, atom index)')


def mol(mid):
    return Obj(MolCls, {'mid': mid}, origin='fresh')


def mol_attr(I, m, name):
    mid = m.fields['mid']
    if name == 'GetAtoms':
        def f(I, a, k):
            I.ctx.assume(NumAtoms(mid) >= 0)
            return SymSeq(NumAtoms(mid), lambda i: Obj(AtomCls, {'mid': mid, 'idx': i}, origin='fresh'), 'atoms', origin='fresh')
        return Builtin('Mol.GetAtoms', f)
    return NotImplementedVal


def atom_attr(I, a, name):
    if name == 'GetAtomicNum':
        return Builtin('Atom.GetAtomicNum', lambda I, x, k: AtomicNum(a.fields['mid'], a.fields['idx']))
    return NotImplementedVal


def namespace():
    def mfs(I, a, k):
        s = a[0]
        if s is None:
            raise I.exc('TypeError', 'MolFromSmiles(None)')
        return mol(MolFromSmilesId(z3_of(s)))
    addhs = Builtin('Chem.AddHs', lambda I, a, k: mol(AddHsId(a[0].fields['mid'])))
    rdmolops = Namespace('rdmolops', {'AddHs': addhs})
    return Namespace('rdkit.Chem', {'MolFromSmiles': Builtin('Chem.MolFromSmiles', mfs), 'AddHs': addhs,
                                    'rdmolops': rdmolops, 'Mol': MolCls})


def install(world):
    world.externs['rdkit.Chem'] = namespace()
    world.externs['rdkit'] = Namespace('rdkit', {'Chem': world.externs['rdkit.Chem']})
    world.abstract['Mol'] = {'attr': mol_attr}
    world.abstract['Atom'] = {'attr': atom_attr}
