"""Contracts of the thermochemistry layer shared by C01, C05, C06, C07, C13 (spec functions, class invariants,
symbolic constructors of the pre-state, replay helpers)."""
import z3

from pyvc import source
from pyvc.engine import Obj, is_z3, z3_of
from pyvc.verify import concretize
from .common import (SplineCls, SplineVal, SplineInt, SplineIntOverT, Ln, fval)

RAW = 'pgradd/ThermoChem/raw_data.py'
BASE = 'pgradd/ThermoChem/base.py'
INC = 'pgradd/ThermoChem/incomplete.py'
GD = 'pgradd/ThermoChem/group_data.py'


def zmin(a, b):
    return z3.If(a <= b, a, b)


def zmax(a, b):
    return z3.If(a >= b, a, b)


def clamp(x, lo, hi):
    return z3.If(x < lo, lo, z3.If(x > hi, hi, x))


class RawSym:
    """Symbolic ThermochemRawData pre-state satisfying the class invariant wf."""
    def __init__(self, I, tag='', with_range=True):
        ctx = I.ctx
        R = lambda n: ctx.fresh(tag + n, 'real')
        self.sid = ctx.fresh(tag + 'sp', 'int')
        self.lo, self.hi = R('lo'), R('hi')
        self.T_ref = R('T_ref')
        self.min_T, self.max_T = R('min_T'), R('max_T')
        self.min_Cp, self.max_Cp = R('min_Cp'), R('max_Cp')
        self.H_ref, self.S_ref = R('H_ref'), R('S_ref')
        cls = source.module(RAW).classes['ThermochemRawData']
        self.spline = Obj(SplineCls, {'id': self.sid}, origin='param')
        self.obj = Obj(cls, dict(range=(self.lo, self.hi) if with_range else None, T_ref=self.T_ref,
                                 min_T=self.min_T, max_T=self.max_T, min_ND_Cp=self.min_Cp,
                                 max_ND_Cp=self.max_Cp, ND_H_ref=self.H_ref, ND_S_ref=self.S_ref,
                                 spline=self.spline), origin='param')
        ctx.ghost['quad_spline_id'] = self.sid
        ctx.assume(self.wf())

    def wf(self):
        """Class invariant established by ThermochemRawData.__init__ (proved in unit RawData.__init__), plus the
        stated precondition lo > 0 (temperatures are absolute)."""
        return z3.And(self.lo > 0, self.lo <= self.min_T, self.min_T <= self.max_T, self.max_T <= self.hi,
                      self.lo <= self.T_ref, self.T_ref <= self.hi,
                      z3.Implies(self.min_T == self.max_T, self.min_Cp == self.max_Cp),
                      # interpolation at the end knots (assumed spline contract)
                      SplineVal(self.sid, self.min_T) == self.min_Cp,
                      SplineVal(self.sid, self.max_T) == self.max_Cp)

    # ---- spec functions (from the property text) ----
    def CpExt(self, t):
        return z3.If(t < self.min_T, self.min_Cp, z3.If(t > self.max_T, self.max_Cp, SplineVal(self.sid, t)))

    def IntCp(self, a, b):
        """integral of CpExt from a to b (valid for either order of a, b)"""
        ca, cb = clamp(a, self.min_T, self.max_T), clamp(b, self.min_T, self.max_T)
        return (self.min_Cp * (zmin(b, self.min_T) - zmin(a, self.min_T)) + SplineInt(self.sid, ca, cb)
                + self.max_Cp * (zmax(b, self.max_T) - zmax(a, self.max_T)))

    def IntCpT(self, a, b):
        """integral of CpExt(t)/t from a to b"""
        ca, cb = clamp(a, self.min_T, self.max_T), clamp(b, self.min_T, self.max_T)
        return (self.min_Cp * (Ln(zmin(b, self.min_T)) - Ln(zmin(a, self.min_T))) + SplineIntOverT(self.sid, ca, cb)
                + self.max_Cp * (Ln(zmax(b, self.max_T)) - Ln(zmax(a, self.max_T))))

    def integral_axioms(self, points):
        """instances of the assumed spline contract: integral over an empty interval is 0"""
        fs = []
        for p in points:
            fs.append(SplineInt(self.sid, p, p) == 0)
            fs.append(SplineIntOverT(self.sid, p, p) == 0)
        return fs

    def in_range(self, T):
        return z3.And(self.lo <= T, T <= self.hi)

    def inputs(self):
        return dict(lo=self.lo, hi=self.hi, T_ref=self.T_ref, min_T=self.min_T, max_T=self.max_T,
                    min_Cp=self.min_Cp, max_Cp=self.max_Cp, H_ref=self.H_ref, S_ref=self.S_ref)


def build_real_rawdata(vals):
    """Re-build a real ThermochemRawData from a counter-model through the real constructor.
    Table: one point if min_T == max_T, else the two end points (linear spline)."""
    from pgradd.ThermoChem.raw_data import ThermochemRawData
    v = {k: fval(x) for k, x in vals.items()}
    if v['min_T'] == v['max_T']:
        Ts, Cps = [v['min_T']], [v['min_Cp']]
    else:
        Ts, Cps = [v['min_T'], v['max_T']], [v['min_Cp'], v['max_Cp']]
    return ThermochemRawData(v['H_ref'], v['S_ref'], Ts, Cps, v['T_ref'], (v['lo'], v['hi'])), v, Ts, Cps


def ref_integrals(Ts, Cps, a, b, n=20001):
    """Independent reference: integrate the piecewise extension of the real spline numerically
    (composite Simpson on each of the three regions)."""
    import numpy as np
    from scipy.interpolate import InterpolatedUnivariateSpline
    Ts = list(Ts)
    if len(Ts) == 1:
        sp = lambda t: Cps[0] + 0 * t
    else:
        sp = InterpolatedUnivariateSpline(Ts, Cps, k=(3 if len(Ts) > 3 else len(Ts) - 1))
    mn, mx = Ts[0], Ts[-1]

    def cp(t):
        t = np.asarray(t, dtype=float)
        return np.where(t < mn, Cps[0], np.where(t > mx, Cps[-1], sp(np.clip(t, mn, mx))))

    def simpson(f, x0, x1):
        if x0 == x1:
            return 0.0
        x = np.linspace(x0, x1, n)
        y = f(x)
        h = (x1 - x0) / (n - 1)
        return h / 3 * (y[0] + y[-1] + 4 * y[1:-1:2].sum() + 2 * y[2:-1:2].sum())

    def piecewise(f):
        pts = sorted(set([a, b] + [p for p in (mn, mx) if min(a, b) < p < max(a, b)]))
        tot = sum(simpson(f, p, q) for p, q in zip(pts, pts[1:]))
        return tot if a <= b else -tot
    return piecewise(cp), piecewise(lambda t: cp(t) / t)
