"""Independent reading of a scheme file as a program (reference interpreter for C02/C03/C04 stand-ins) and
molecule generators.  The only pgradd code it uses is the RING reader/matcher (whose own contract is C08)."""
from pyvc import source
import itertools
import os
import random
from collections import Counter, defaultdict

import yaml

from . import real

DATA = source.DATA_DIR
_schemes = {}

SURFACE = {'GRWAqueous2018': 'Pt', 'GRWSurface2018': 'Pt', 'GuSolventGA2017Aq': 'Pt', 'GuSolventGA2017Vac': 'Pt', 'PtSurface2023': 'Pt',
           'SalciccioliGA2012': 'Pt', 'XieGA2022': 'Ru'}


def load_scheme(libname, path=None):
    from pgradd.RINGParser.Reader import Read
    from rdkit import Chem
    key = path or libname
    if key in _schemes:
        return _schemes[key]
    p = path or os.path.join(DATA, libname, 'scheme.yaml')
    d = yaml.safe_load(open(p))
    with real.quiet():
        s = {'patterns': [(x['center_name'], x['periph_name'], Read(x['connectivity'])) for x in d['patterns']],
             'remaps': d.get('remaps') or {},
             'other': [(x['name'], Read(x['connectivity'])) for x in (d.get('other_descriptors') or [])],
             'smiles': [(x['name'], Chem.MolFromSmarts(x['smarts']), x['useChirality']) for x in (d.get('smiles_based_descriptors') or [])],
             'smarts': [(x['name'], Chem.MolFromSmarts(x['smarts']), x['useChirality']) for x in (d.get('smarts_based_descriptors') or [])]}
    _schemes[key] = s
    return s


class Fail(Exception):
    pass


def normalise(inp):
    """add H, Kekulize, unspecified bonds -> zero-order (weak) bonds; the same RDKit calls whatever the input form"""
    from rdkit import Chem
    F = Chem.rdmolops.SanitizeFlags
    if isinstance(inp, str):
        clean = Chem.MolFromSmiles(inp)
        mol = Chem.MolFromSmiles(inp)
        if mol is None:
            raise Fail('unreadable')
        for op in (F.SANITIZE_ADJUSTHS, F.SANITIZE_CLEANUP, F.SANITIZE_CLEANUPCHIRALITY, F.SANITIZE_FINDRADICALS, F.SANITIZE_KEKULIZE,
                   F.SANITIZE_PROPERTIES, F.SANITIZE_SETCONJUGATION, F.SANITIZE_SETHYBRIDIZATION, F.SANITIZE_SYMMRINGS):
            Chem.SanitizeMol(mol, sanitizeOps=op)
    else:
        clean = Chem.Mol(inp)
        mol = Chem.Mol(inp)
    mol = Chem.AddHs(mol)
    Chem.Kekulize(mol)
    for b in mol.GetBonds():
        if str(b.GetBondType()) == 'UNSPECIFIED':
            b.SetBondType(Chem.BondType.ZERO)
    return mol, clean


def benson_rings(mol):
    """six-membered all-carbon rings whose bonds alternate single/double (judged on the bond orders BEFORE any marking)"""
    from rdkit import Chem
    out = []
    for ring in Chem.GetSymmSSSR(mol):
        ring = list(ring)
        if len(ring) != 6 or any(mol.GetAtomWithIdx(a).GetSymbol() != 'C' for a in ring):
            continue
        types = [str(mol.GetBondBetweenAtoms(ring[i], ring[(i + 1) % 6]).GetBondType()) for i in range(6)]
        if types in (['SINGLE', 'DOUBLE'] * 3, ['DOUBLE', 'SINGLE'] * 3):
            out.append(ring)
    return out


def fused_six_rings(mol):
    """input class of known finding K2: two six-carbon rings sharing a bond"""
    from rdkit import Chem
    rings = [set(r) for r in Chem.GetSymmSSSR(mol) if len(r) == 6 and all(mol.GetAtomWithIdx(a).GetSymbol() == 'C' for a in r)]
    return any(len(a & b) >= 2 for a, b in itertools.combinations(rings, 2))


def aromatise(mol, rings):
    from rdkit import Chem
    for ring in rings:
        for i in range(6):
            mol.GetAtomWithIdx(ring[i]).SetIsAromatic(True)
            b = mol.GetBondBetweenAtoms(ring[i], ring[(i + 1) % 6])
            b.SetIsAromatic(True)
            b.SetIsConjugated(True)
            b.SetBondType(Chem.BondType.AROMATIC)


def canonical(csg, psgs):
    c = Counter(psgs)
    return csg + ''.join('(%s)%s' % (n, '' if k == 1 else k) for n, k in sorted(c.items()))


def remap(counts, remaps):
    out = defaultdict(int)
    for g, n in counts.items():
        if g in remaps:
            for coef, target in remaps[g]:
                out[target] += n * coef
        else:
            out[g] += n
    return dict(out)


def ref_descriptors(libname, inp, scheme_path=None, per_atom=False):
    """Returns dict descriptor -> count, or raises Fail(reason)."""
    s = load_scheme(libname, scheme_path)
    with real.quiet():
        mol, clean = normalise(inp)
        aromatise(mol, benson_rings(mol))
        n = mol.GetNumAtoms()
        centre = [None] * n
        for k, (cn, pn, q) in enumerate(s['patterns']):
            for a in set(m[0] for m in q.GetQueryMatches(mol)):
                if centre[a] is not None:
                    raise Fail('atom %d matched by two centre patterns' % a)
                centre[a] = (cn, pn)
        if any(c is None for c in centre):
            raise Fail('atom without centre pattern')
        groups = Counter()
        names = {}
        for a in mol.GetAtoms():
            cn = centre[a.GetIdx()][0]
            if cn == 'none':
                continue
            psgs = [centre[b.GetIdx()][1] for b in a.GetNeighbors() if centre[b.GetIdx()][1] != 'none']
            g = canonical(cn, psgs)
            names[a.GetIdx()] = g
            groups[g] += 1
        desc = Counter()
        for name, q in s['other']:
            k = len(set(frozenset(m) for m in q.GetQueryMatches(mol)))
            if k:
                desc[name] += k
        for name, patt, chir in s['smiles']:
            k = len(set(frozenset(m) for m in clean.GetSubstructMatches(patt, useChirality=chir)))
            if k:
                desc[name] += k
        for name, patt, chir in s['smarts']:
            k = len(set(frozenset(m) for m in mol.GetSubstructMatches(patt, useChirality=chir)))
            if k:
                desc[name] += k
    # groups and correction descriptors share one name space (the keys of the data library): a name is counted once per group atom of that
    # name plus once per match of the correction descriptor of that name
    out = remap(groups, s['remaps'])
    for k_, v_ in remap(desc, s['remaps']).items():
        out[k_] = out.get(k_, 0) + v_
    if per_atom:
        return out, names
    return out


def real_descriptors(lib, inp):
    """('ok', {name: count}) | ('fail', ExceptionClass)"""
    try:
        with real.quiet():
            d = lib.GetDescriptors(inp)
        return ('ok', {str(k): v for k, v in d.items()})
    except Exception as e:    # noqa
        return ('fail', type(e).__name__)


# ---- molecule generators ------------------------------------------------------------------------------------
def small_molecules(max_heavy=4, elements=('C', 'O')):
    """all connected molecules of <= max_heavy heavy atoms over the elements, acyclic and with one ring closure, bond orders 1..3,
    as canonical SMILES that RDKit accepts"""
    from rdkit import Chem
    out = set()
    bonds = ['', '=', '#']

    def chains(k):
        for els in itertools.product(elements, repeat=k):
            for bs in itertools.product(bonds, repeat=k - 1):
                s = els[0]
                for b, e in zip(bs, els[1:]):
                    s += b + e
                yield s
    cands = set()
    for k in range(1, max_heavy + 1):
        for s in chains(k):
            cands.add(s)
            if k >= 3:
                cands.add(s[0] + '1' + s[1:] + '1')          # ring closure
        if k >= 4:
            for els in itertools.product(elements, repeat=k):
                cands.add('%s(%s)%s' % (els[0], els[1], ''.join(els[2:])))       # one branch
                cands.add('%s(%s)(%s)%s' % (els[0], els[1], els[2], ''.join(els[3:])))
    for s in cands:
        m = Chem.MolFromSmiles(s)
        if m is not None:
            out.add(Chem.MolToSmiles(m))
    return sorted(out)


CURATED_GAS = ['c1ccccc1', 'Cc1ccccc1', 'C1CCCCC1', 'C1=CCCCC1', 'CC(=O)O', 'CC(=O)OC', 'C=CC=C', 'CC(C)(C)C', 'C/C=C\\C', 'C/C=C/C', 'C/C=C\\CCCCCCC',
               'OCC(O)CO', 'C1CC1C', 'C#CC', 'CC(C)O', 'O=CC=O', '[CH3]', '[CH2]C', 'C[CH]C', 'C[O]', 'c1ccccc1O', 'C1CCC1', 'CC=CC(C)C', 'CCCCCCCC',
               'Cc1cccc2ccccc12', 'c1ccc2ccccc2c1', 'C1CC2CCC1C2', 'CCOCC', 'COC=O',
               'CC(C)(C)/C=C(/C)CC', 'CC(C)(C)/C=C(\\C)CC', 'CC(C)(C)/C=C\\C', 'CC(C)(C)/C(C)=C(/C)CC',      # tert-butyl next to a tri- / tetra-substituted stereo double bond (one-direction patterns)
               'C1CCCCCC1c1ccccc1', 'c1ccccc1C1CCCCCC1', 'c1ccccc1C1CCCCCCC1',       # a larger ring before / after a benzene ring
               '[H][H]', '[H]', 'O', '[OH]', 'CC.[H][H]',       # hydrogen as a group centre (H2, the H radical)
               # molecules in which several scheme entries carrying the SAME correction name match (gauche / cis counts add up)
               'CC(C)C(C)CC(C)(C)C', 'CC(C)C(C)C', 'CC(C)(C)C(C)(C)C', 'C/C=C\\C(C)(C)C', 'CC(C)(C)/C=C\\C(C)(C)C', 'C1CCOCC1', 'C1=CC=CCC1', 'C1CC=CC=C1']
CURATED_SURF = ['C([{M}])C', '[{M}]C', 'C([{M}])([{M}])C', 'O([{M}])C', 'C([{M}])C[{M}]', 'C(=O)([{M}])O', '[{M}]C([{M}])C([{M}])([{M}])C=O', '[{M}]C([{M}])C([{M}])([{M}])C',
                'C~[{M}]', 'O=C(=O)~[{M}]', 'CO~[{M}]', 'O~[{M}]',       # weak ('~', unspecified) bonds to the surface
                '[C]$[C]', '[C]$[C].CC', '[C]$[C].CC.CCC',        # dicarbon: centre pattern 'CC', the name of the C-C descriptor in five schemes
                '[H][H]', '[H]', '[H][{M}]', 'CC', 'CCC', 'CCO', 'C([{M}])O', 'OC([{M}])C', '[{M}]O', 'C([{M}])([{M}])([{M}])C', 'C=O', 'CC=O', 'C([{M}])=O', '[{M}]OC', 'C(O)([{M}])C[{M}]', 'OCCO']


def molecules_for(libname, tier, seed=0):
    rnd = random.Random(seed)
    if libname in SURFACE:
        M = SURFACE[libname]
        ms = [s.replace('{M}', M) for s in CURATED_SURF]
        ms += small_molecules(3, ('C', 'O'))
    else:
        ms = CURATED_GAS + small_molecules(4 if tier != 'quick' else 3, ('C', 'O'))
        if libname == 'PPY':
            # the scheme with nitrogen and sulfur: heteroaromatic rings (their explicit-hydrogen spelling writes the hetero atom in brackets: [s], [nH], [n])
            ms = ms + ['c1ccsc1', 'c1ccncc1', 'c1cc[nH]c1', 'Cc1cccs1', 'CSC', 'CCN', 'CS']
    ms = sorted(set(ms))
    if tier == 'quick' and len(ms) > 45:
        keep = [m for m in ms if m in CURATED_GAS or '[' in m or 's' in m or 'n' in m or 'S' in m or 'N' in m]
        rest = [m for m in ms if m not in keep]
        ms = sorted(set(keep + rnd.sample(rest, max(0, 45 - len(keep)))))
    return ms


def random_smiles(smi, k, seed):
    """k random spellings (atom order, branch order, ring-closure choice) of the same molecule"""
    from rdkit import Chem
    m = Chem.MolFromSmiles(smi)
    out = set()
    rnd = random.Random(seed)
    for i in range(k * 3):
        s = Chem.MolToSmiles(m, doRandom=True, canonical=False) if hasattr(Chem, 'MolToSmiles') else smi
        out.add(s)
        if len(out) >= k:
            break
    return sorted(out)
