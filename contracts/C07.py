"""C07 -- Dimensional results are the non-dimensional ones times R (and T); elemental entropy reference."""
import z3

from pyvc import source, loops
from pyvc.engine import Obj, Builtin, SymSeq, Namespace, is_z3, z3_of
from pyvc.verify import Unit, run_target
from . import gd, chem, C01
from .common import Rconst
from .gd import GDWorld, GD, Val
from .spec import check_outcome
from .thermo import BASE

PROPERTY = 'C07'
SeleSum = z3.Function('SeleSum', z3.IntSort(), z3.IntSort(), z3.RealSort())   # (mol, j): sum of S_elements over the first j atoms
TRUSTED = [chem.TRUSTED]


class W(GDWorld):
    def __init__(self):
        GDWorld.__init__(self)
        chem.install(self)
        consts = self.externs['pmutt.constants']

        class STable:
            pass
        tbl = Obj(chem.BuiltinClass('S_elements_table'), {}, 'param')
        consts.members['S_elements'] = tbl
        self.abstract['S_elements_table'] = {'index': lambda I, t, k: chem.S_elements(z3_of(k))}


def world():
    return W()


def stub_corr(I, se_seen):
    """A correlation object (any ThermochemBase subclass) whose non-dimensional getters are abstract."""
    cls = source.module(BASE).classes['ThermochemBase']
    h, s, cp = I.fresh('HoRT', 'real'), I.fresh('SoR', 'real'), I.fresh('CpoR', 'real')
    s_el = I.fresh('SoR_rel_elements', 'real')
    o = Obj(cls, {}, origin='param')
    o.fields['get_HoRT'] = Builtin('get_HoRT', lambda I_, a, k: h)
    o.fields['get_CpoR'] = Builtin('get_CpoR', lambda I_, a, k: cp)

    def get_SoR(I_, a, k):
        se = k.get('S_elements', a[1] if len(a) > 1 else None)
        se_seen.append(se)
        return s_el if I_.truth(se) else s
    o.fields['get_SoR'] = Builtin('get_SoR', get_SoR)
    return o, h, s, s_el, cp


def u_dimensional(I):
    ctx = I.ctx
    seen = []
    o, h, s, s_el, cp = stub_corr(I, seen)
    T = I.fresh('T', 'real')
    u = I.fresh('units', 'str')
    uK = z3.Concat(u, z3.StringVal('/K'))
    which = ctx.choose([True] * 4, 'method')
    se = [None, True, False][ctx.choose([True] * 3, 'S_elements')] if which in (1, 2) else None
    if which == 0:
        out = run_target(I, BASE, 'ThermochemBase.get_H', [T, u], self_obj=o)
        check_outcome(I, out, returns=lambda r: [('H(T,u) == (H/RT)*T*R(u/K)', r == h * T * Rconst(uK))])
    elif which == 1:
        out = run_target(I, BASE, 'ThermochemBase.get_G', [T, u], {'S_elements': se}, self_obj=o)
        sv = s_el if se else s
        check_outcome(I, out, returns=lambda r: [('G(T,u) == (H/RT - S/R)*T*R(u/K), S relative to elements iff requested',
                                                  r == (h - sv) * T * Rconst(uK)),
                                                 ('S_elements flag forwarded unchanged', z3.BoolVal(seen == [se]))])
    elif which == 2:
        out = run_target(I, BASE, 'ThermochemBase.get_S', [T, u], {'S_elements': se}, self_obj=o)
        sv = s_el if se else s
        check_outcome(I, out, returns=lambda r: [('S(T,u) == (S/R)*R(u)', r == sv * Rconst(u)),
                                                 ('S_elements flag forwarded unchanged', z3.BoolVal(seen == [se]))])
    else:
        out = run_target(I, BASE, 'ThermochemBase.get_Cp', [T, u], self_obj=o)
        check_outcome(I, out, returns=lambda r: [('Cp(T,u) == (Cp/R)*R(u)', r == cp * Rconst(u))])
    return {'inputs': {}}


CONCRETE = [('pgradd/ThermoChem/raw_data.py', 'ThermochemRawData'), ('pgradd/ThermoChem/incomplete.py', 'ThermochemIncomplete'),
            ('pgradd/ThermoChem/group_data.py', 'ThermochemGroup'), ('pgradd/ThermoChem/group_data.py', 'ThermochemGroupAdditive')]


def u_dimensional_class(rel, cname):
    """the dimensional getters AS RESOLVED FOR ONE CONCRETE CLASS (an override is interpreted, not the base method), calling that class's own
    non-dimensional getters through their real signatures (a getter that does not accept S_elements is a TypeError, as in CPython)"""
    def run(I):
        from pyvc.engine import Env
        ctx = I.ctx
        W_ = I.world
        cls = source.module(rel).classes[cname]
        h, s, cp, s_el = I.fresh('HoRT', 'real'), I.fresh('SoR', 'real'), I.fresh('CpoR', 'real'), I.fresh('SoR_rel_elements', 'real')
        T, T_ref = I.fresh('T', 'real'), I.fresh('T_ref', 'real')
        u = I.fresh('units', 'str')
        uK = z3.Concat(u, z3.StringVal('/K'))
        o = Obj(cls, {'T_ref': T_ref, 'range': None, 'ND_H_ref': I.fresh('H_ref', 'real'), 'ND_S_ref': I.fresh('S_ref', 'real'),
                      'ND_Cp_data': [{}, {300.0: 4.0}][ctx.choose([True, True], 'has a table')]}, 'param')
        seen = []

        def abstract(name, value_of):
            m = W_.find_method(cls, name)
            if m is None:
                return

            def contract(I_, a, k):
                local = I_.bind_args(m.node, a, k, Env({}, m, None, m.module, set()))      # the call must fit the real signature
                return value_of(local)
            W_.contracts[(m.module.relpath, m.qualname)] = contract
        abstract('get_HoRT', lambda loc: h)
        abstract('get_CpoR', lambda loc: cp)
        abstract('get_SoR', lambda loc: (seen.append(loc.get('S_elements')), s_el if (loc.get('S_elements') is True) else s)[1])
        which = ['get_H', 'get_G', 'get_S', 'get_Cp', 'get_GoRT'][ctx.choose([True] * 5, 'method')]
        se = [None, True][ctx.choose([True, True], 'S_elements')] if which in ('get_G', 'get_S', 'get_GoRT') else None
        m = W_.find_method(cls, which)
        args = {'get_H': [T, u], 'get_G': [T, u], 'get_S': [T, u], 'get_Cp': [T, u], 'get_GoRT': [T]}[which]
        kw = {'S_elements': se} if which in ('get_G', 'get_S', 'get_GoRT') and se is not None else {}
        out = run_target(I, m.module.relpath, m.qualname, args, kw, self_obj=o)
        sv = s_el if se else s
        want = {'get_H': h * T * Rconst(uK), 'get_G': (h - sv) * T * Rconst(uK), 'get_S': sv * Rconst(u), 'get_Cp': cp * Rconst(u), 'get_GoRT': h - sv}[which]
        check_outcome(I, out, returns=lambda r: [('%s.%s is the non-dimensional value of this class times R(u) (and T)' % (cname, which), z3_of(r) == want)])
        return {'inputs': {}}
    return run


def replay_rawdata(model, state, ob):
    from pgradd.ThermoChem.raw_data import ThermochemRawData
    from pmutt import constants as c
    from . import real
    r = ThermochemRawData(-10.0, 20.0, [300., 400., 500.], [4., 5., 6.], 298.15, (250., 600.))
    bad = []
    for nm, args, want in (('get_S', (350., 'J/mol/K'), lambda: r.get_SoR(350.) * c.R('J/mol/K')), ('get_G', (350., 'kJ/mol'), lambda: (r.get_HoRT(350.) - r.get_SoR(350.)) * 350. * c.R('kJ/mol/K')),
                           ('get_GoRT', (350.,), lambda: r.get_HoRT(350.) - r.get_SoR(350.))):
        got = real.outcome(getattr(r, nm), *args)
        if got[0] != 'ok' or not real.close(got[1], want(), 1e-12, 1e-12):
            bad.append((nm, got))
    return {'failed': bool(bad), 'input': "ThermochemRawData(-10, 20, [300, 400, 500], [4, 5, 6], 298.15, (250, 600)): get_S / get_G / get_GoRT at 350 K", 'observed': [str(b) for b in bad],
            'expected': '(S/R) R(u), (H/RT - S/R) T R(u), H/RT - S/R',
            'script': "from pgradd.ThermoChem.raw_data import ThermochemRawData\nr = ThermochemRawData(-10.0, 20.0, [300., 400., 500.], [4., 5., 6.], 298.15, (250., 600.))\nprint(r.get_S(350., 'J/mol/K'))\n"}


def u_lemma_units(I):
    """From the four contracts: G = H - T*S in matching units; two unit choices differ by R(u1)/R(u2)."""
    ctx = I.ctx
    h, s, T = I.fresh('h', 'real'), I.fresh('s', 'real'), I.fresh('T', 'real')
    u1, u2 = I.fresh('u1', 'str'), I.fresh('u2', 'str')
    K = lambda u: z3.Concat(u, z3.StringVal('/K'))
    H1, G1, S1 = I.fresh('H1', 'real'), I.fresh('G1', 'real'), I.fresh('S1', 'real')
    H2 = I.fresh('H2', 'real')
    ctx.assume(z3.And(Rconst(K(u1)) > 0, Rconst(K(u2)) > 0))
    ctx.assume(H1 == h * T * Rconst(K(u1)))
    ctx.assume(G1 == (h - s) * T * Rconst(K(u1)))
    ctx.assume(S1 == s * Rconst(K(u1)))      # entropy asked in the unit u1/K
    ctx.assume(H2 == h * T * Rconst(K(u2)))
    ctx.oblige('G(T,u) == H(T,u) - T*S(T,u/K)', G1 == H1 - T * S1)
    ctx.oblige('H(T,u1)/H(T,u2) == R(u1/K)/R(u2/K)', H1 * Rconst(K(u2)) == H2 * Rconst(K(u1)))
    return {'inputs': {}}


def selements_loop(mid):
    def state_at(I, j, env, it):
        env.local['S_ele'] = SeleSum(mid, j)
        env.local.pop('atom', None)

    def check_inv(I, j, env, it):
        v = env.local.get('S_ele')
        return [('S_ele is the sum of the tabulated elemental entropies of the atoms visited so far',
                 z3_of(v) == SeleSum(mid, j))]
    return loops.for_rule('atoms', state_at, check_inv)


def u_get_Selements(I):
    ctx = I.ctx
    o, n, CorrAt, CountAt = C01.mk_estimate(I)
    # the structure the estimate carries is what GetDescriptors was given: a SMILES string, or a molecule object
    if ctx.choose([True, True], 'structure given as a string / as a molecule object') == 0:
        name = o.fields['name']
        mid = chem.AddHsId(chem.MolFromSmilesId(name))
    else:
        m_in = I.fresh('mol_given', 'int')
        o.fields['name'] = Obj(chem.MolCls, {'mid': m_in}, 'param')
        I.world.externs['rdkit.Chem'].members.setdefault('Mol', chem.MolCls)
        mid = chem.AddHsId(m_in)
    ctx.assume(SeleSum(mid, 0) == 0)
    jj = z3.Int('j!s')
    ctx.assume_forall([jj], z3.Implies(z3.And(0 <= jj, jj < chem.NumAtoms(mid)),
                                       SeleSum(mid, jj + 1) == SeleSum(mid, jj) + chem.S_elements(chem.AtomicNum(mid, jj))),
                      'definition of the elemental sum')
    I.world.loop_specs[(GD, 'ThermochemGroupAdditive.get_Selements', 0)] = selements_loop(mid)
    _orig = ctx.fresh

    def fresh(nm, sort):
        v = _orig(nm, sort)
        if nm == 'j_atoms':
            ctx.instantiate([v])
        return v
    ctx.fresh = fresh
    out = run_target(I, GD, 'ThermochemGroupAdditive.get_Selements', [], self_obj=o)
    writes = [e for e in ctx.effects if e[0].startswith('write')]
    ctx.oblige('pure', z3.BoolVal(not writes))
    check_outcome(I, out, returns=lambda r: [
        ('sum of S_elements[Z] over ALL atoms of AddHs(MolFromSmiles(name)) (hydrogens included)',
         z3_of(r) == SeleSum(mid, chem.NumAtoms(mid)))])
    return {'inputs': {}}


def u_get_SoR_elements(I):
    ctx = I.ctx
    o, n, CorrAt, CountAt = C01.mk_estimate(I)
    T = I.fresh('T', 'real')
    S_total = I.fresh('S_elements_total', 'real')
    calls = []
    I.world.contracts[(GD, 'ThermochemGroupAdditive.get_Selements')] = lambda I_, a, k: (calls.append(a[0]), S_total)[1]
    se = [None, False, True, 0, 1][ctx.choose([True] * 5, 'S_elements')]
    out = run_target(I, GD, 'ThermochemGroupAdditive.get_SoR', [T], {'S_elements': se}, self_obj=o)
    if out.kind == 'raise':
        check_outcome(I, out, raises={'IncompleteDataError': z3.BoolVal(True)})
        return {'inputs': {}}
    folds = ctx.ghost.get('folds', [])
    if ctx.counters.get('fold_k') is None:
        total = z3.RealVal(0)
    else:
        total = folds[0]['result']
    want = total - (S_total if se else 0)
    check_outcome(I, out, returns=lambda r: [
        ('S/R lowered by exactly the elemental sum iff requested', z3_of(r) == want),
        ('elemental sum computed once, for this estimate, iff requested', z3.BoolVal(calls == ([o] if se else [])))])
    return {'inputs': {}}


UNITS = [
    Unit('ThermochemBase.get_H/get_G/get_S/get_Cp', (BASE, 'ThermochemBase.get_G'), u_dimensional),
] + [Unit('%s: dimensional getters as resolved for the class' % cn, (BASE, 'ThermochemBase.get_G'), u_dimensional_class(rel, cn), replay_rawdata if cn == 'ThermochemRawData' else None)
     for rel, cn in CONCRETE] + [
    Unit('lemma:units', None, u_lemma_units, kind='lemma'),
    Unit('ThermochemGroupAdditive.get_Selements', (GD, 'ThermochemGroupAdditive.get_Selements'), u_get_Selements),
    Unit('ThermochemGroupAdditive.get_SoR(S_elements)', (GD, 'ThermochemGroupAdditive.get_SoR'), u_get_SoR_elements),
]

from . import standins
STANDINS = [standins.c07_units]
