"""C18 -- A correlation written to YAML reads back as the same correlation.

Deductive: structure of the text produced by ThermochemIncomplete.yaml_format -- which keys are emitted (zero
reference values and missing parts included), which value each line carries and in which unit, one line per table
point in ascending temperature, and that every value printed with %r is a python float (numpy scalars, which a loaded
library holds, print as 'np.float64(...)' and cannot be read back).  Composition with the loader (yaml_construct, C12)
is the identity on the fields given float(repr(x)) == x and parse('%g' text) == x to 6 digits; the real text round
trip through PyYAML is the bounded stand-in."""
import ast

import z3

from pyvc import source, loops
from pyvc.engine import Obj, Builtin, SymSeq, FmtStr, NpScalar, NDArr, Unsupported, NotImplementedVal, is_z3, z3_of, unwrap
from pyvc.source import BuiltinClass
from pyvc.verify import Unit, run_target
from . import maps, C12
from .maps import Dom, MVal, Size
from .units import UnitsWorld, QTY
from .C12 import qty_const, E_K, E_JMOL, E_JMOLK
from .spec import check_outcome
from .thermo import INC

PROPERTY = 'C18'
SKey = z3.Function('SortedKey', z3.IntSort(), z3.IntSort(), z3.RealSort())
TRUSTED = ["'%r' % x of a python float is its shortest round-tripping repr (float(repr(x)) == x); '%g' prints 6 significant digits; "
           "PyYAML reads the emitted scalars back as the same text",
           'eval_qty(unit text) returns the unit as a Quantity (C10); requested output units are compatible with the kind (precondition)']


class RepeatLines:
    is_text = True

    def __init__(self, n, linefn):
        self.n, self.linefn = n, linefn


def flat(x):
    """FmtStr -> nested tuples"""
    if isinstance(x, FmtStr):
        if len(x.parts) == 1 and isinstance(x.parts[0], tuple) and x.parts[0][0] == '%':
            _, tmpl, args = x.parts[0]
            return ('%', tmpl, tuple(flat(a) for a in args))
        return ('cat', tuple(flat(p) if isinstance(p, FmtStr) else p for p in x.parts))
    return x


def same(a, b):
    """structural equality of flattened text records; leaves compared as z3 terms. Returns z3 Bool."""
    if isinstance(a, tuple) and isinstance(b, tuple):
        if len(a) != len(b):
            return z3.BoolVal(False)
        cs = [same(x, y) for x, y in zip(a, b)]
        return z3.And(cs) if cs else z3.BoolVal(True)
    if isinstance(a, NpScalar) or isinstance(b, NpScalar):
        if not (isinstance(a, NpScalar) and isinstance(b, NpScalar)):
            return z3.BoolVal(False)
        return z3_of(a.v) == z3_of(b.v)
    if isinstance(a, str) and isinstance(b, str):
        return z3.BoolVal(a == b)
    if isinstance(a, tuple) or isinstance(b, tuple):
        return z3.BoolVal(False)
    try:
        x, y = z3_of(a), z3_of(b)
        if x.sort() != y.sort():
            if z3.is_int(x):
                x = z3.ToReal(x)
            if z3.is_int(y):
                y = z3.ToReal(y)
        return x == y
    except Exception:    # noqa
        return z3.BoolVal(False)


def has_np_repr(x):
    """does a text record print a numpy scalar with %r ?"""
    if isinstance(x, tuple) and x and x[0] == '%':
        tmpl, args = x[1], x[2]
        import re
        specs = re.findall(r'%([rsgd])', tmpl)
        bad = False
        for sp, a in zip(specs, args):
            if sp == 'r' and isinstance(a, NpScalar):
                bad = True
            if isinstance(a, tuple) and has_np_repr(a):
                bad = True
        return bad
    return False


class W(UnitsWorld):
    def __init__(self):
        UnitsWorld.__init__(self)
        maps.install(self)
        self.abstract['CpMap']['index'] = self.m_index

    def m_index(self, I, m, k):
        v = maps.m_index(I, m, k)
        return NpScalar(v) if m.fields.get('np') else v


def world():
    return W()


def fmtq(val, unit):
    return ('%', '%g %s', (val, unit))


def u_yaml_format(I):
    ctx = I.ctx
    cls = source.module(INC).classes['ThermochemIncomplete']
    Rq, Rv = qty_const(I, 'R', E_JMOLK, positive=True)
    I.modstate[(INC, 'R')] = Rq
    Kq, Kv = qty_const(I, 'K_unit', E_K)
    ctx.assume(Kv == 1)
    hform, sform = [('absent', 'absent'), ('float', 'float'), ('numpy', 'float'), ('absent', 'float'), ('float', 'absent')][ctx.choose([True] * 5, 'H,S')]
    cform = ['empty', 'float', 'numpy'][ctx.choose([True] * 3, 'Cp')]
    rform = ctx.choose([True, True], 'range')
    uform = ['none', 'all', 'temperature-only'][ctx.choose([True] * 3, 'units')]
    T_ref = I.fresh('T_ref', 'real')
    Hv = I.fresh('ND_H_ref', 'real')      # may be zero
    Sv = I.fresh('ND_S_ref', 'real')
    H = None if hform == 'absent' else (NpScalar(Hv) if hform == 'numpy' else Hv)
    S = None if sform == 'absent' else Sv
    lo, hi = I.fresh('lo', 'real'), I.fresh('hi', 'real')
    m, ver = maps.new_map(I, 'cp')
    m.fields['np'] = (cform == 'numpy')
    if cform == 'empty':
        ctx.assume(Size(ver) == 0)
    else:
        ctx.assume(Size(ver) >= 1)
    n = Size(ver)
    o = Obj(cls, dict(ND_H_ref=H, ND_S_ref=S, ND_Cp_data=m, T_ref=T_ref, range=(lo, hi) if rform else None), 'param')
    # unit texts and their quantities
    uT, uH, uS, uC = (I.fresh(nm, 'str') for nm in ('T_units', 'H_units', 'S_units', 'Cp_units'))
    for u in (uT, uH, uS, uC):
        ctx.assume(z3.Length(u) > 0)
    qT, vT = qty_const(I, 'SI_T_units', E_K, positive=True)
    qH, vH = qty_const(I, 'SI_H_units', E_JMOL, positive=True)
    qS, vS = qty_const(I, 'SI_S_units', E_JMOLK, positive=True)
    qC, vC = qty_const(I, 'SI_Cp_units', E_JMOLK, positive=True)
    I.world.install_eval_qty = C12.W.install_eval_qty.__get__(I.world)
    I.world.install_eval_qty(I, [('K', Kq), (uT, qT), (uH, qH), (uS, qS), (uC, qC)])
    units = {'none': {}, 'all': {'temperature': uT, 'molar enthalpy': uH, 'molar entropy': uS, 'molar heat capacity': uC},
             'temperature-only': {'temperature': uT}}[uform]
    Tu, Tsi = (uT, vT) if uform != 'none' else ('K', Kv)
    dim = uform == 'all'
    i_ = z3.Int('i!sk')
    ctx.assume_forall([i_], z3.Implies(z3.And(0 <= i_, i_ < n), Dom(ver, SKey(ver, i_))), 'sorted keys are keys')
    orig_sorted = I.world.builtins['sorted']
    I.world.builtins = dict(I.world.builtins)

    def sorted_(I_, a, k):
        if isinstance(a[0], Obj) and a[0].cls is maps.MapCls:
            v_ = a[0].fields['ver']
            return SymSeq(Size(v_), lambda i: SKey(v_, i), 'sorted(ND_Cp_data)', origin='fresh')
        return orig_sorted.fn(I_, a, k)
    I.world.builtins['sorted'] = Builtin('sorted', sorted_)

    def cpval(i):
        v = MVal(ver, SKey(ver, i))
        return NpScalar(v) if cform == 'numpy' else v

    def line_of(i):
        Tk = SKey(ver, i)
        if dim:
            return ('%', '    - [%s, %s]', (fmtq(Tk * Kv / Tsi, Tu), fmtq(Rv * unwrap(cpval(i)) / vC, uC)))
        return ('%', '    - [%s, %r]', (fmtq(Tk * Kv / Tsi, Tu), unwrap(cpval(i))))   # printed as a python float
    holder = {}

    def st(I_, j, env, it):
        lines = env.local['lines']
        if 'prefix' not in holder:
            holder['prefix'] = list(lines)
        env.local['lines'] = holder['prefix'] + [RepeatLines(j, line_of)]
        env.local.pop('T', None)
        ctx.instantiate([j])

    def inv(I_, j, env, it):
        lines = env.local.get('lines')
        if not isinstance(lines, list):
            return [('lines is the list of output lines', z3.BoolVal(False))]
        if 'prefix' not in holder:
            holder['prefix'] = list(lines)
            return [('no table line before the loop', z3.BoolVal(True))]
        pre = holder['prefix']
        rest = lines[len(pre):]
        if len(rest) == 2 and isinstance(rest[0], RepeatLines):
            j0 = rest[0].n
            return [('exactly one line appended per table point', j == j0 + 1),
                    ('the appended line carries this point: temperature and heat capacity in the requested form', same(flat(rest[1]), line_of(j0)))]
        return [('exactly one line appended per table point', z3.BoolVal(False))]
    I.world.loop_specs[(INC, 'ThermochemIncomplete.yaml_format', 0)] = loops.for_rule('cp-dimensional', st, inv)
    I.world.loop_specs[(INC, 'ThermochemIncomplete.yaml_format', 1)] = loops.for_rule('cp-nondimensional', st, inv)
    _orig = ctx.fresh

    def fresh(name, sort):
        v = _orig(name, sort)
        if name.startswith('j_cp'):
            ctx.instantiate([v])
        return v
    ctx.fresh = fresh
    out = run_target(I, INC, 'ThermochemIncomplete.yaml_format', [], {'units': units}, self_obj=o)

    def posts(r):
        fr = r if isinstance(r, FmtStr) else None
        if fr is None or not (len(fr.parts) == 1 and fr.parts[0][0] == 'join' and fr.parts[0][1] == '\n'):
            if isinstance(r, str):
                return [('text is the lines joined by newlines', z3.BoolVal(False))]
            return [('text is the lines joined by newlines', z3.BoolVal(False))]
        lines = fr.parts[0][2]
        want = [('%', 'T_ref: %s', (fmtq(T_ref * Kv / Tsi, Tu),))]
        if H is not None:
            want.append(('%', 'H_ref: %s', (fmtq(Rv * (T_ref * Kv) * Hv / vH, uH),)) if dim else ('%', 'ND_H_ref: %r', (unwrap(H),)))
        if S is not None:
            want.append(('%', 'S_ref: %s', (fmtq(Rv * Sv / vS, uS),)) if dim else ('%', 'ND_S_ref: %r', (S,)))
        if cform != 'empty':
            want.append('Cp_data:' if dim else 'ND_Cp_data:')
            want.append('<table>')
        if rform:
            want.append(('%', 'range: [%s, %s]', (fmtq(lo * Kv / Tsi, Tu), fmtq(hi * Kv / Tsi, Tu))))
        ps = [('number of output items', z3.BoolVal(len(lines) == len(want)))]
        if len(lines) != len(want):
            return ps + [('emitted keys: T_ref, H iff present (zero included), S iff present, Cp block iff the table is non-empty, range iff present',
                          z3.BoolVal(False))]
        np_r = False
        for got, w in zip(lines, want):
            if w == '<table>':
                ok = isinstance(got, RepeatLines)
                ps.append(('one line per table point, ascending temperature, all points', got.n == n if ok else z3.BoolVal(False)))
                if ok and got.linefn is not line_of:
                    ps.append(('table lines are those of the loop contract', z3.BoolVal(False)))
                continue
            g = flat(got) if isinstance(got, FmtStr) else got
            ps.append(('line %r carries the specified value in the requested unit' % (w[1] if isinstance(w, tuple) else w), same(g, w)))
            np_r = np_r or has_np_repr(g)
        ps.append(('every value printed with %r is a python float (a numpy scalar prints as np.float64(...) and cannot be loaded)',
                   z3.BoolVal(not np_r)))
        return ps
    writes = [e for e in ctx.effects if e[0] == 'write']
    ctx.oblige('pure: formatting does not modify the correlation', z3.BoolVal(not writes))
    check_outcome(I, out, raises={}, returns=posts, site='yaml_format')
    return {'inputs': {}}


# ---- bounded stand-in: real text round trip through PyYAML --------------------------------------------------
def roundtrip(corr, units):
    """format -> load through the real schema repository -> compare fields"""
    import yaml
    from pgradd import yaml_io
    from pgradd.ThermoChem import ThermochemGroup
    from . import real
    text = corr.yaml_format(units)
    ctxu = {'units': {}}
    with real.quiet():
        data = yaml_io.parse(text)
        loader = yaml_io.make_object_loader(yaml_io.parse(ThermochemGroup._yaml_schema), ThermochemGroup) \
            if False else None
        back = yaml_io.load(yaml_io.parse('!ThermochemGroup\n' + text) if False else data, ctxu,
                            loader=yaml_io.make_object_loader(yaml_io.parse("x:\n    type: ThermochemGroup\n")) ) if False else None
    return text


def standin_roundtrip(tier, seed):
    import random
    import math
    from pgradd import yaml_io
    from pgradd.ThermoChem import ThermochemGroup, ThermochemIncomplete
    from . import real
    rnd = random.Random(seed)
    nrand = 60 if tier == 'quick' else 300
    viol, n, distinct, samples = [], 0, 0, []
    loader = yaml_io.make_object_loader(yaml_io.parse("g:\n    type: ThermochemGroup\n"))
    unit_maps = [{}, {'molar enthalpy': 'kcal/mol', 'molar entropy': 'cal/mol/K', 'molar heat capacity': 'cal/mol/K', 'temperature': 'K'},
                 {'molar enthalpy': 'kJ/mol', 'molar entropy': 'J/mol/K', 'molar heat capacity': 'J/mol/K'},
                 {'molar enthalpy': 'J/mol', 'molar entropy': 'kJ/(mol K)', 'molar heat capacity': 'kJ/(mol K)', 'temperature': 'kK'},
                 {'temperature': 'mK'}]

    def close6(a, b):
        if a is None or b is None:
            return a is None and b is None
        return abs(a - b) <= 6e-6 * max(abs(a), abs(b)) + 1e-300

    def check(tag, c, um):
        nonlocal n, distinct
        n += 1
        try:
            with real.quiet():
                text = c.yaml_format(um)
                back = yaml_io.load(yaml_io.parse('g: !ThermochemGroup\n' + '\n'.join('    ' + l for l in text.splitlines()))
                                    if False else yaml_io.parse('g:\n' + '\n'.join('    ' + l for l in text.splitlines())), {'units': {}}, loader=loader).g
        except Exception as e:    # noqa
            viol.append({'id': '%s-%d' % (tag, len(viol)), 'input': {'correlation': tag, 'units': um}, 'observed': 'raised %s: %s' % (type(e).__name__, str(e)[:120]),
                         'expected': 'loads back'})
            return
        exact = not um.get('molar enthalpy')
        eq = (lambda a, b: (a is None and b is None) or (a is not None and b is not None and a == b)) if exact else close6
        ok = close6(back.T_ref, c.T_ref) and eq(back.ND_H_ref, c.ND_H_ref) and eq(back.ND_S_ref, c.ND_S_ref)
        ok = ok and ((back.range is None) == (c.range is None)) and (c.range is None or all(close6(a, b) for a, b in zip(back.range, c.range)))
        bk, ck = sorted(back.ND_Cp_data), sorted(c.ND_Cp_data)
        ok = ok and len(bk) == len(ck) and all(close6(a, b) for a, b in zip(bk, ck)) and \
            all(eq(float(back.ND_Cp_data[a]), float(c.ND_Cp_data[b])) for a, b in zip(bk, ck))
        distinct += 1
        if not ok and len(viol) < 12:
            viol.append({'id': '%s-%d' % (tag, len(viol)), 'input': {'correlation': tag, 'units': um, 'text': text},
                         'observed': {'T_ref': back.T_ref, 'H': back.ND_H_ref, 'S': back.ND_S_ref, 'range': back.range, 'Cp': dict(back.ND_Cp_data)},
                         'expected': {'T_ref': c.T_ref, 'H': c.ND_H_ref, 'S': c.ND_S_ref, 'range': c.range, 'Cp': dict(c.ND_Cp_data)}})
        elif len(samples) < 3:
            samples.append({'units': um, 'text': text})
    for r in range(nrand):
        k = rnd.choice([0, 0, 1, 2, 3, 5, 9, 15])
        Ts = sorted(rnd.sample(range(200, 1600, 25), k))
        lo, hi = (min(Ts + [298.15]) - 10, max(Ts + [298.15]) + 10)
        cp = {float(t): rnd.choice([0.0, round(rnd.uniform(-3, 30), 6), rnd.uniform(1, 20)]) for t in Ts}
        # values whose repr() is an exponent form without a decimal point (1e-05): PyYAML's YAML-1.1 resolver hands them to the loader as TEXT
        H = rnd.choice([None, 0.0, -12.5, rnd.uniform(-200, 200), 1e-05, -3e-07, 1e+16])
        S = rnd.choice([None, 0.0, rnd.uniform(0, 80), 2e-06])
        rg = rnd.choice([None, (lo, hi)])
        try:
            with real.quiet():
                c = ThermochemIncomplete(H, S, cp, 298.15, rg)
        except Exception:    # noqa  (a table whose span excludes T_ref needs an explicit range: K3)
            c = ThermochemIncomplete(H, S, cp, 298.15, (lo, hi))
        for um in unit_maps:
            check('random%d' % r, c, um)
    # the same object formatted, MODIFIED, and formatted again with the same units: the second text describes the object as it is now
    for r in range(12 if tier == 'quick' else 60):
        Ts = sorted(rnd.sample(range(300, 1500, 50), 4))
        cp = {float(t): round(rnd.uniform(1, 20), 4) for t in Ts}
        c = ThermochemIncomplete(rnd.uniform(-50, 50), rnd.uniform(1, 60), cp, 298.15, (250.0, 1600.0))
        um = rnd.choice(unit_maps)
        with real.quiet():
            c.yaml_format(um)
        how = rnd.choice(['del_ND_H_ref', 'del_ND_S_ref', 'set_range'])
        with real.quiet():
            if how == 'set_range':
                c.set_range((260.0, 1550.0))
            else:
                getattr(c, how)()
        check('modified-after-first-format-%s-%d' % (how, r), c, um)
    for libname in (real.LIBS if tier != 'quick' else real.LIBS[:3]):
        lib = real.load(libname)
        for g in real.thermo_groups(lib)[:None if tier != 'quick' else 25]:
            for um in unit_maps[:2]:
                check('%s/%s' % (libname, g), lib[g]['thermochem'], um)
    return {'name': 'yaml-text-roundtrip', 'evaluations': n, 'distinct_nontrivial': distinct, 'violations': viol, 'samples': samples,
            'bound': '%d random correlations (0..15 points; reference values absent/zero/negative) x 5 unit maps + groups of the shipped libraries x 2 unit maps, through the real PyYAML loader' % nrand,
            'rule': 'a case is (correlation, unit map); distinct by construction; non-trivial = formatted and loaded back'}


STANDINS = [standin_roundtrip]


def replay_rt(model, state, ob):
    r = standin_roundtrip('quick', 0)
    if r['violations']:
        v = r['violations'][0]
        return {'failed': True, 'input': v['input'], 'observed': v['observed'], 'expected': v['expected']}
    return {'failed': False, 'input': 'round trip of %d correlations' % r['evaluations'], 'observed': 'all read back', 'expected': None}


def u_float_loader(I):
    """the loader of non-dimensional numbers (ND_H_ref, ND_S_ref, ND_Cp entries): what yaml_format writes with %r comes back either as a float or -- for an
    exponent form WITHOUT a decimal point such as 1e-05, which the YAML 1.1 resolver of PyYAML does not take for a float -- as text; text that float() converts
    is that number, other text is an input-data error, a missing value stays missing"""
    ctx = I.ctx
    BU = 'pgradd/yaml_io/builtins.py'
    cls = source.module(BU).classes['float_loader']
    form = ['missing', 'float', 'int', 'text'][ctx.choose([True] * 4, 'what the YAML layer hands over')]
    FloatOK = z3.Function('float_accepts', z3.StringSort(), z3.BoolSort())
    FloatOf = z3.Function('float_of_text', z3.StringSort(), z3.RealSort())

    def fos(I_, s_):
        if I_.ctx.branch(z3.Not(FloatOK(s_))):
            raise I_.exc('ValueError', 'could not convert string to float')
        return FloatOf(s_)
    I.world.float_of_str = fos
    val = {'missing': None, 'float': I.fresh('x', 'real'), 'int': I.fresh('k', 'int'), 'text': I.fresh('text', 'str')}[form]
    o = Obj(cls, {}, 'param')
    out = run_target(I, BU, 'float_loader.__call__', ['ND_H_ref', val, {}], self_obj=o)
    bad = z3.Not(FloatOK(val)) if form == 'text' else z3.BoolVal(False)

    def posts(r):
        if form == 'missing':
            return [('a missing value stays missing', z3.BoolVal(r is None))]
        if form == 'text':
            return [('text that float() converts is loaded as that number (exponent forms without a decimal point arrive as text)', z3.And(FloatOK(val), z3_of(r) == FloatOf(val)))]
        return [('a number is loaded as itself', z3_of(r) == (val if form == 'float' else z3.ToReal(val)))]
    check_outcome(I, out, raises={'*': bad}, returns=posts)
    return {'inputs': {}}


def replay_float_loader(model, state, ob):
    import pgradd.ThermoChem  # noqa
    from pgradd import yaml_io
    from . import real
    res = {}
    for txt in ('1e-05', '-3e-07', '1e+16', '2.5'):
        doc = 'T_ref: 298.15 K\nND_H_ref: %s\nND_S_ref: 1.0\n' % txt
        with real.quiet():
            k, v = real.outcome(lambda: yaml_io.load(yaml_io.parse(doc), {}, tag='!ThermochemGroup').ND_H_ref)
        res[txt] = (k, v)
    bad = {t: r for t, r in res.items() if r[0] != 'ok' or abs(r[1] - float(t)) > 1e-12 * abs(float(t))}
    return {'failed': bool(bad), 'input': 'ND_H_ref: 1e-05 (what repr() writes) read back through the ThermochemGroup loader', 'observed': {k: str(v) for k, v in res.items()},
            'expected': 'the numbers written'}


replay_float_loader.model_free = True
UNITS = [
    Unit('ThermochemIncomplete.yaml_format', (INC, 'ThermochemIncomplete.yaml_format'), u_yaml_format, replay_rt),
    Unit('float_loader.__call__', ('pgradd/yaml_io/builtins.py', 'float_loader.__call__'), u_float_loader, replay_float_loader),
]
# the reading half of the round trip: the loader contracts of C12 (missing parts stay missing, zero is data, no range stays no range)
for _u in C12.UNITS:
    if 'yaml_construct' in _u.name or 'qty_loader' in _u.name:
        if getattr(_u, 'world_factory', None) is None:
            _u.world_factory = C12.world
        UNITS.append(_u)

