"""C10 (part 2) -- the recursive-descent units parser (pgradd/Units/parser.py) against the documented grammar

    expr   := factor ( ('*' | '/')? factor )*          left-associative; juxtaposition is multiplication
    factor := base ( '^' number )?
    base   := '(' expr ')' | number | name
    number := NUM | '(' NUM ')'

Tokens are abstract: token i has a KIND (NUM: what the tokenizer's number alternative matched; NAME: ASCII letters; the single
characters ( ) * / ^; OTHER: any other single non-space character) and four facts about what CPython does with its text:
FloatOK(i) (float() accepts it), IntOK(i) (int() accepts it), HasDotOrE(i) ('.' / 'e' / 'E' occurs in it), IsAlpha(i).
What the tokenizer regex guarantees about them is stated in `token_axioms` (TRUSTED; exercised by the bounded stand-in of C10).
In particular float() ALSO accepts the NAME tokens inf / nan / infinity in any case -- FloatOK is not implied by KIND.

Contract of each parse_x (x = expr, factor, base, name, number), for a parser at token index i0 <= n:
   returns t  => i0 < idx' <= n (at least one token consumed), t is the tree of the grammar production for tokens [i0, idx')
   raises     => the exception is UnitsParseError, 0 <= idx' <= n
Each function is verified assuming the contract for the functions it calls (abstract sub-trees Sub(kind, i0, i1))."""
import ast

import z3

from pyvc import source, loops
from pyvc.engine import Obj, Builtin, SymSeq, PyExc, Unsupported, NotImplementedVal, FmtStr, is_z3, z3_of
from pyvc.source import BuiltinClass
from pyvc.verify import Unit, run_target
from pyvc.world import World
from .spec import check_outcome

PARSER = 'pgradd/Units/parser.py'
IS, BS, RS = z3.IntSort(), z3.BoolSort(), z3.RealSort()
Kind = z3.Function('TokKind', IS, IS)
FloatOK = z3.Function('FloatOK', IS, BS)
IntOK = z3.Function('IntOK', IS, BS)
HasDotOrE = z3.Function('HasDotOrE', IS, BS)
IsAlpha = z3.Function('IsAlpha', IS, BS)
FloatVal = z3.Function('FloatVal', IS, RS)
IntVal_ = z3.Function('IntVal', IS, IS)
NUM, NAME, LPAR, RPAR, STAR, SLASH, CARET, OTHER = range(8)
LIT = {'(': LPAR, ')': RPAR, '*': STAR, '/': SLASH, '^': CARET}
TokCls = BuiltinClass('Token')
SubCls = BuiltinClass('SubTree')
NTOK = z3.Int('n_tokens')
TRUSTED = ["tokenizer (re.findall with tokenize_re, whitespace tokens dropped): every token is non-empty and is either a NUM ('-?[.\\d]+' with optional exponent), "
           "a NAME (ASCII letters) or ONE other character; hence tok == '(' <=> kind LPAR etc., tok in '*/' <=> kind STAR or SLASH",
           "CPython: float() accepts a NUM token or not (e.g. '.', '1.2.3' are rejected), and accepts the NAME tokens inf/nan/infinity (any case); it rejects every "
           "single-character token that is not a digit; int() accepts exactly the NUM tokens float() accepts that contain no '.', 'e', 'E'; str.isalpha() is true "
           "for NAME tokens, false for NUM and the five punctuation tokens, and may be true for an OTHER token (a non-ASCII letter)"]


def token_axioms(ctx, i):
    k = Kind(i)
    return z3.And(0 <= k, k <= 7,
                  z3.Implies(z3.And(k != NUM, k != NAME), z3.Not(FloatOK(i))),
                  IntOK(i) == z3.And(k == NUM, FloatOK(i), z3.Not(HasDotOrE(i))),
                  z3.Implies(k == NAME, IsAlpha(i)),
                  z3.Implies(z3.And(k == NAME, FloatOK(i)), z3.Not(HasDotOrE(i))),      # inf / nan / infinity: no '.', 'e', 'E'
                  z3.Implies(z3.Or(k == NUM, z3.And(k >= LPAR, k <= CARET)), z3.Not(IsAlpha(i))),
                  z3.Implies(z3.And(k >= LPAR, k <= OTHER), z3.Not(HasDotOrE(i))))


def tok(i):
    return Obj(TokCls, {'i': i}, 'param')


def world():
    w = World()
    return w


def install(I):
    ctx = I.ctx
    W_ = I.world

    def know(i):
        ctx.assume(token_axioms(ctx, i))

    def compare(I_, op, a, b):
        t, lit = (a, b) if isinstance(a, Obj) and a.cls is TokCls else (b, a)
        if isinstance(lit, Obj) and lit.cls is TokCls:
            raise Unsupported('token compared with token')
        if lit is None:
            r = False
        elif isinstance(lit, str):
            know(t.fields['i'])
            r = (Kind(t.fields['i']) == LIT[lit]) if lit in LIT else _unsup('token compared with %r' % lit)
        else:
            raise Unsupported('token compared with %r' % (lit,))
        if op in (ast.Eq, ast.Is):
            return r
        if op in (ast.NotEq, ast.IsNot):
            return z3.Not(r) if is_z3(r) else (not r)
        raise Unsupported('token comparison %s' % op.__name__)

    def in_str(I_, t, container):
        know(t.fields['i'])
        ks = [LIT[c] for c in container if c in LIT]
        if len(ks) != len(container):
            raise Unsupported('token in %r' % container)
        return z3.Or([Kind(t.fields['i']) == k for k in ks])

    def contains(I_, t, item):
        # '.' in tok, 'e' in tok, 'E' in tok  (only ever used as a disjunction of the three)
        if item in ('.', 'e', 'E'):
            know(t.fields['i'])
            I_.ctx.ghost.setdefault('dot_e_tests', set()).add(item)
            return DotE(t.fields['i'], item)
        raise Unsupported('%r in token' % (item,))

    def to_float(I_, t):
        i = t.fields['i']
        know(i)
        if I_.ctx.branch(FloatOK(i)):
            return FloatVal(i)
        raise I_.exc('ValueError', 'could not convert string to float')

    def to_int(I_, t):
        i = t.fields['i']
        know(i)
        if I_.ctx.branch(IntOK(i)):
            return IntVal_(i)
        raise I_.exc('ValueError', 'invalid literal for int() with base 10')

    def attr(I_, t, name):
        if name == 'isalpha':
            know(t.fields['i'])
            return Builtin('isalpha', lambda I2, a, k: IsAlpha(t.fields['i']))
        if name == 'isspace':
            return Builtin('isspace', lambda I2, a, k: False)
        return NotImplementedVal
    W_.abstract['Token'] = {'compare': compare, 'in_str': in_str, 'contains': contains, 'float': to_float, 'int': to_int, 'attr': attr}
    W_.abstract['SubTree'] = {}
    # '.' / 'e' / 'E' membership: three predicates whose disjunction is HasDotOrE
    for i_ in ():
        pass


_DotE = {c: z3.Function('Has_%s' % n, IS, BS) for c, n in (('.', 'dot'), ('e', 'e'), ('E', 'E'))}


def DotE(i, c):
    return _DotE[c](i)


def dot_e_link(ctx, i):
    ctx.assume(HasDotOrE(i) == z3.Or([f(i) for f in _DotE.values()]))


def _unsup(msg):
    raise Unsupported(msg)


def mk_parser(I):
    ctx = I.ctx
    cls = source.module(PARSER).classes['UnitsParser']
    i0 = ctx.fresh('idx', 'int')
    ctx.assume(z3.And(NTOK >= 0, 0 <= i0, i0 <= NTOK))
    tokens = SymSeq(NTOK, lambda i: tok(i), 'tokens', origin='param')
    o = Obj(cls, {'tokens': tokens, 'idx': i0, 'depth': 0, 'debug': False}, 'param')
    o.complete = True
    return o, i0


def sub(kind, a, b):
    return Obj(SubCls, {'kind': kind, 'from': a, 'to': b}, 'fresh')


def is_sub(t, kind, a, b):
    """t is the abstract tree of production `kind` over tokens [a, b)"""
    if not (isinstance(t, Obj) and t.cls is SubCls and t.fields['kind'] == kind):
        return z3.BoolVal(False)
    return z3.And(z3_of(t.fields['from']) == z3_of(a), z3_of(t.fields['to']) == z3_of(b))


def callee(I, o, kind, counter):
    """contract of parse_<kind> as seen by a caller"""
    def h(I_, a, k):
        ctx = I_.ctx
        if a[0] is not o:
            raise Unsupported('parse on another parser')
        counter[0] += 1
        tag = '%s%d' % (kind, counter[0])
        i0 = o.fields['idx']
        i1 = ctx.fresh('idx_' + tag, 'int')
        o.fields['idx'] = i1
        if ctx.choose([True, True], 'parse_%s outcome' % kind) == 0:
            ctx.assume(z3.And(i0 < i1, i1 <= NTOK))
            return sub(kind, i0, i1)
        ctx.assume(z3.And(0 <= i1, i1 <= NTOK))
        raise PyExc(Obj(source.module('pgradd/Error.py').classes['UnitsParseError'], {'args': ('abstract',)}))
    return h


def use_contracts(I, o, kinds):
    counter = [0]
    for kd in kinds:
        I.world.contracts[(PARSER, 'UnitsParser.parse_' + kd)] = callee(I, o, kd, counter)


def K_post(I, out, o, i0, returns):
    ctx = I.ctx
    i1 = o.fields['idx']
    if out.kind == 'raise':
        check_outcome(I, out, raises={'UnitsParseError': z3.BoolVal(True)})
        ctx.oblige('on failure the token index stays inside the token list', z3.And(0 <= i1, i1 <= NTOK))
        return
    check_outcome(I, out, raises={}, returns=lambda r: [('on success at least one token was consumed and the index stays inside the list', z3.And(i0 < i1, i1 <= NTOK))] + returns(r, i1))


# ---------------------------------------------------------------------------------------------------------- parse_number
def u_number(I):
    ctx = I.ctx
    o, i0 = mk_parser(I)
    install(I)
    for d in range(3):
        dot_e_link(ctx, i0 + d)
    out = run_target(I, PARSER, 'UnitsParser.parse_number', [], self_obj=o)

    def posts(r, i1):
        paren = z3.And(Kind(i0) == LPAR)
        at = z3.If(paren, i0 + 1, i0)
        ok_shape = isinstance(r, tuple) and len(r) == 2 and r[0] == 'number'
        if not ok_shape:
            return [("returns ('number', value)", z3.BoolVal(False))]
        v = r[1]
        return [("a number is one NUM token, or '(' NUM ')'", z3.And(Kind(at) == NUM, FloatOK(at), i1 == z3.If(paren, i0 + 3, i0 + 1), z3.Implies(paren, Kind(i0 + 2) == RPAR))),
                ('its value is the integer the token denotes when it has no point / exponent, else the float', z3.If(HasDotOrE(at), z3_of(v) == FloatVal(at), z3_of(v) == z3.ToReal(IntVal_(at))) if not isinstance(v, (tuple, Obj)) else z3.BoolVal(False))]
    K_post(I, out, o, i0, posts)
    return {'inputs': {}}


# ---------------------------------------------------------------------------------------------------------- parse_name
def u_name(I):
    ctx = I.ctx
    o, i0 = mk_parser(I)
    install(I)
    out = run_target(I, PARSER, 'UnitsParser.parse_name', [], self_obj=o)
    K_post(I, out, o, i0, lambda r, i1: [
        ("returns ('name', the token), one token consumed", z3.And(z3.BoolVal(isinstance(r, tuple) and len(r) == 2 and r[0] == 'name' and isinstance(r[1], Obj) and r[1].cls is TokCls),
                                                                z3_of(r[1].fields['i']) == i0 if isinstance(r, tuple) and len(r) == 2 and isinstance(r[1], Obj) else z3.BoolVal(False), i1 == i0 + 1)),
        ('a name is alphabetic', IsAlpha(i0))])
    return {'inputs': {}}


# ---------------------------------------------------------------------------------------------------------- parse_base
def u_base(I):
    ctx = I.ctx
    o, i0 = mk_parser(I)
    install(I)
    use_contracts(I, o, ['expr', 'number', 'name'])
    out = run_target(I, PARSER, 'UnitsParser.parse_base', [], self_obj=o)

    def posts(r, i1):
        if not (isinstance(r, tuple) and len(r) == 2 and r[0] == 'base'):
            return [("returns ('base', subtree)", z3.BoolVal(False))]
        t = r[1]
        paren = Kind(i0) == LPAR
        return [("'(' expr ')': the inner expression spans the tokens between the parentheses, the closing one is consumed",
                 z3.Implies(paren, z3.And(is_sub(t, 'expr', i0 + 1, i1 - 1), Kind(i1 - 1) == RPAR))),
                ('otherwise a number if the token is a NUM that float() accepts, else a name (inf / nan are names); the subtree spans exactly the tokens consumed',
                 z3.Implies(z3.Not(paren), z3.If(z3.And(Kind(i0) == NUM, FloatOK(i0)), is_sub(t, 'number', i0, i1), is_sub(t, 'name', i0, i1))))]
    K_post(I, out, o, i0, posts)
    return {'inputs': {}}


# ---------------------------------------------------------------------------------------------------------- parse_factor
def u_factor(I):
    ctx = I.ctx
    o, i0 = mk_parser(I)
    install(I)
    use_contracts(I, o, ['base', 'number'])
    out = run_target(I, PARSER, 'UnitsParser.parse_factor', [], self_obj=o)

    def posts(r, i1):
        if not (isinstance(r, tuple) and r and r[0] == 'factor' and len(r) in (2, 4)):
            return [("returns ('factor', base) or ('factor', base, '^', number)", z3.BoolVal(False))]
        b = r[1]
        if not (isinstance(b, Obj) and b.cls is SubCls):
            return [('the first part is the base', z3.BoolVal(False))]
        be = z3_of(b.fields['to'])
        if len(r) == 2:
            return [('without a power: the factor is its base, and the next token is not ^', z3.And(is_sub(b, 'base', i0, i1), z3.Or(i1 == NTOK, Kind(i1) != CARET)))]
        return [("with a power: base '^' number, contiguous", z3.And(is_sub(b, 'base', i0, be), Kind(be) == CARET, z3.BoolVal(r[2] == '^'), is_sub(r[3], 'number', be + 1, i1)))]
    K_post(I, out, o, i0, posts)
    return {'inputs': {}}


# ---------------------------------------------------------------------------------------------------------- parse_expr
ETree = BuiltinClass('ExprSoFar')


def u_expr(I):
    """while-loop invariant: result is the left-nested tree of the factors read so far, `next` is the token at idx (None at the end)"""
    ctx = I.ctx
    o, i0 = mk_parser(I)
    install(I)
    use_contracts(I, o, ['factor'])
    I.world.abstract['ExprSoFar'] = {}
    st = {}

    def peek_value():
        i = o.fields['idx']
        if ctx.branch(i == NTOK):
            return None
        return tok(i)

    def state_at(I_, env, tag):
        i = ctx.fresh('idx_' + tag, 'int')
        ctx.assume(z3.And(i0 < i, i <= NTOK))
        o.fields['idx'] = i
        st['tree'] = Obj(ETree, {'to': i, 'tag': tag}, 'fresh')
        env.local['result'] = st['tree']
        env.local['next'] = peek_value()
        env.local.pop('old_state', None)

    def inv(I_, env):
        r, nx, i = env.local.get('result'), env.local.get('next'), o.fields['idx']
        shape = well_formed(r, i0, i)
        nxt_ok = z3.BoolVal(True)
        if nx is None:
            nxt_ok = (i == NTOK)
        elif isinstance(nx, Obj) and nx.cls is TokCls:
            nxt_ok = z3.And(z3_of(nx.fields['i']) == i, i < NTOK)
        else:
            nxt_ok = z3.BoolVal(False)
        return [('the tree so far is a left-nested chain of factors covering the tokens read, operators taken from the text (juxtaposition = *)', shape),
                ('`next` is the token at the current index (None at the end)', nxt_ok),
                ('index inside the list, at least one token consumed', z3.And(i0 < i, i <= NTOK))]

    def well_formed(r, a, b):
        """r = ('expr', F) | ('expr', <tree covering [a, m)>, op, F) with F a factor subtree ending at b; the abstract tree-so-far counts as covering [a, its end)"""
        if isinstance(r, Obj) and r.cls is ETree:
            return z3_of(r.fields['to']) == z3_of(b)
        if not (isinstance(r, tuple) and r and r[0] == 'expr'):
            return z3.BoolVal(False)
        if len(r) == 2:
            return is_sub(r[1], 'factor', a, b)
        if len(r) != 4:
            return z3.BoolVal(False)
        left, op, f = r[1], r[2], r[3]
        if not (isinstance(f, Obj) and f.cls is SubCls and f.fields['kind'] == 'factor'):
            return z3.BoolVal(False)
        fs = z3_of(f.fields['from'])
        if isinstance(left, Obj) and left.cls is ETree:
            m = z3_of(left.fields['to'])
        elif isinstance(left, tuple):
            # first iteration: left is ('expr', F0)
            if not (len(left) == 2 and left[0] == 'expr' and isinstance(left[1], Obj) and left[1].cls is SubCls):
                return z3.BoolVal(False)
            m = z3_of(left[1].fields['to'])
            ok_left = is_sub(left[1], 'factor', a, m)
        else:
            return z3.BoolVal(False)
        ok_left = ok_left if isinstance(left, tuple) else z3.BoolVal(True)
        if isinstance(op, Obj) and op.cls is TokCls:
            oi = z3_of(op.fields['i'])
            op_ok = z3.And(oi == m, z3.Or(Kind(oi) == STAR, Kind(oi) == SLASH), fs == m + 1)       # explicit operator token, then the factor
        elif op == '*':
            op_ok = z3.And(fs == m, z3.Or(m == NTOK, z3.And(Kind(m) != STAR, Kind(m) != SLASH)))    # juxtaposition: the factor starts right where the left part ended
        else:
            return z3.BoolVal(False)
        return z3.And(ok_left, op_ok, z3_of(f.fields['to']) == z3_of(b))

    def variant(I_, env):
        return NTOK - o.fields['idx']
    I.world.while_specs[(PARSER, 'UnitsParser.parse_expr', 0)] = loops.while_rule('factors', state_at, inv, variant, allow_break=True)
    out = run_target(I, PARSER, 'UnitsParser.parse_expr', [], self_obj=o)
    K_post(I, out, o, i0, lambda r, i1: [('the result is a well-formed left-nested expression tree ending where the parser stopped', well_formed(r, i0, i1))])
    return {'inputs': {}}


# ---------------------------------------------------------------------------------------------------------- parse (root)
def u_root(I):
    ctx = I.ctx
    o, i0 = mk_parser(I)
    ctx.assume(i0 == 0)
    install(I)
    use_contracts(I, o, ['expr'])
    out = run_target(I, PARSER, 'UnitsParser.parse', [], self_obj=o)
    if out.kind == 'raise':
        check_outcome(I, out, raises={'UnitsParseError': z3.BoolVal(True)})
    else:
        check_outcome(I, out, raises={}, returns=lambda r: [('the whole token list is one expression (nothing is left over)', z3.And(is_sub(r, 'expr', 0, NTOK), o.fields['idx'] == NTOK))])
    return {'inputs': {}}


def replay_words(model, state, ob):
    """concretisation of a NAME token that float() accepts"""
    from pgradd.Units.parser import eval_expr
    from . import real
    bad = []
    for e in ['inf', 'nan m', '2 nan', 'm^inf', 'm^(nan)', 'Infinity s', '2 m^NaN']:
        r = real.outcome(eval_expr, e)
        if r != ('exc', 'UnitsParseError'):
            bad.append((e, r))
    return {'failed': bool(bad), 'input': [b[0] for b in bad] or 'inf / nan words in 7 positions', 'observed': [str(b[1]) for b in bad], 'expected': 'UnitsParseError',
            'script': "from pgradd.Units.parser import eval_expr\neval_expr('m^inf')   # expected UnitsParseError\n"}


UNITS = [
    Unit('UnitsParser.parse_number', (PARSER, 'UnitsParser.parse_number'), u_number, replay_words),
    Unit('UnitsParser.parse_name', (PARSER, 'UnitsParser.parse_name'), u_name),
    Unit('UnitsParser.parse_base', (PARSER, 'UnitsParser.parse_base'), u_base),
    Unit('UnitsParser.parse_factor', (PARSER, 'UnitsParser.parse_factor'), u_factor),
    Unit('UnitsParser.parse_expr', (PARSER, 'UnitsParser.parse_expr'), u_expr),
    Unit('UnitsParser.parse', (PARSER, 'UnitsParser.parse'), u_root),
]
for _u in UNITS:
    _u.world_factory = world
