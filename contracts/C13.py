"""C13 -- Merging library files is a conflict-checked, order-free union.

Abstract state of a correlation: (range: Opt, T_ref, H: Opt, S: Opt, Cp: finite map).  Postconditions of
ThermochemIncomplete.update from the property text: union of the data, conflict <=> two different values for the same
datum (zero is a value like any other), a rejected merge leaves the object unchanged."""
import z3

from pyvc import source, loops
from pyvc.engine import Obj, Builtin, SymSeq, Unsupported, is_z3, z3_of
from pyvc.source import BuiltinClass
from pyvc.verify import Unit, run_target
from . import maps
from .maps import Dom, MVal, Size, KeyAt, PosOf
from .common import ThermoWorld
from .spec import check_outcome, zor
from .thermo import INC

PROPERTY = 'C13'
SetupRaises = z3.Function('SetupRaises', z3.IntSort(), z3.RealSort(), z3.BoolSort(), z3.RealSort(), z3.RealSort(), z3.BoolSort())
TRUSTED = ['callee contracts used by update(): ThermochemIncomplete.__init__/_setup_correlation build the table delegate and raise '
           'ValueError exactly when the data are inconsistent with the range (a deterministic function of the data: SetupRaises); '
           'get_HoRT/get_SoR of a correlation at its own reference temperature return its reference values (lemma:consistency of C05); '
           'both correlations share one reference temperature (precondition, as in the property)']


def world():
    w = ThermoWorld()
    maps.install(w)
    return w


class CorrState:
    def __init__(self, I, tag, T_ref, shape):
        has_H, has_S, has_range = shape
        ctx = I.ctx
        R = lambda n: ctx.fresh(tag + n, 'real')
        self.H = R('H') if has_H else None
        self.S = R('S') if has_S else None
        self.rng = (R('lo'), R('hi')) if has_range else None
        if has_range:
            ctx.assume(self.rng[0] <= self.rng[1])
        self.T_ref = T_ref
        self.map, self.ver = maps.new_map(I, tag + 'cp')
        cls = source.module(INC).classes['ThermochemIncomplete']
        self.obj = Obj(cls, dict(ND_H_ref=self.H, ND_S_ref=self.S, ND_Cp_data=self.map, T_ref=T_ref, range=self.rng,
                                 _correlation=Obj(BuiltinClass('Delegate'), {'of': tag}, 'param')), origin='param')


def setup_raises(ver, T_ref, rng):
    if rng is None:
        return SetupRaises(ver, T_ref, z3.BoolVal(False), z3.RealVal(0), z3.RealVal(0))
    return SetupRaises(ver, T_ref, z3.BoolVal(True), rng[0], rng[1])


def isclose(x, y):
    ab = lambda t: z3.If(t >= 0, t, -t)
    mx = z3.If(ab(x) >= ab(y), ab(x), ab(y))
    return ab(x - y) <= z3.RealVal('1/1000000000000000') * mx


SHAPES = [(h, s, r) for h in (0, 1) for s in (0, 1) for r in (0, 1)]


def merge_at(a_ver, b_ver, j, k):
    """(domain, value) at key k of: a overlaid with the first j keys of b"""
    from_b = z3.And(Dom(b_ver, k), PosOf(b_ver, k) < j)
    return z3.Or(Dom(a_ver, k), from_b), z3.If(from_b, MVal(b_ver, k), MVal(a_ver, k))


def cp_loop(A, B, holder):
    def state_at(I, j, env, it):
        ctx = I.ctx
        ver = ctx.fresh('merged_ver', 'int')
        maps.declare(I, ver)
        k = z3.Real('k!mg')
        d, v = merge_at(A.ver, B.ver, j, k)
        ctx.assume_forall([k], z3.And(Dom(ver, k) == d, MVal(ver, k) == v), 'merged table after j points')
        env.local['ND_Cp_data'] = Obj(maps.MapCls, {'ver': ver}, 'fresh')
        t = z3.Int('t!nc')
        if holder['overwrite'] is False:
            ctx.assume_forall([t], z3.Implies(z3.And(0 <= t, t < j),
                                              z3.Not(conflict_cp(A, B, KeyAt(B.ver, t)))), 'no conflict among processed points')
        env.local.pop('T', None)
        ctx.instantiate([j, KeyAt(B.ver, j)] if is_z3(j) else [])

    def check_inv(I, j, env, it):
        ctx = I.ctx
        m = env.local.get('ND_Cp_data')
        if not (isinstance(m, Obj) and m.cls is maps.MapCls):
            return [('ND_Cp_data is the working copy', z3.BoolVal(False))]
        k = ctx.fresh('inv_key', 'real')
        t = ctx.fresh('inv_t', 'int')
        ctx.instantiate([k, t, j, j - 1, PosOf(B.ver, k), KeyAt(B.ver, t), KeyAt(B.ver, j - 1)])
        d, v = merge_at(A.ver, B.ver, j, k)
        out = [('working copy = own table overlaid with the first j points of the other (arbitrary key)',
                z3.And(Dom(m.fields['ver'], k) == d, z3.Implies(d, MVal(m.fields['ver'], k) == v))),
               ('working copy is not the object\'s own dictionary', z3.BoolVal(m is not A.map))]
        if holder['overwrite'] is False:
            out.append(('no processed point conflicts (arbitrary t)',
                        z3.Implies(z3.And(0 <= t, t < j), z3.Not(conflict_cp(A, B, KeyAt(B.ver, t))))))
        return out
    return loops.for_rule('cp', state_at, check_inv)


def conflict_cp(A, B, k):
    return z3.And(Dom(A.ver, k), Dom(B.ver, k), MVal(A.ver, k) != MVal(B.ver, k))


def u_update_shape(ai):
    return lambda I: u_update(I, ai)


def u_update(I, ai):
    ctx = I.ctx
    T_ref = I.fresh('T_ref', 'real')
    A = CorrState(I, 'a_', T_ref, SHAPES[ai])
    B = CorrState(I, 'b_', T_ref, SHAPES[ctx.choose([True] * 8, 'other shape')])
    overwrite = [False, True][ctx.choose([True, True], 'overwrite')]
    holder = {'overwrite': overwrite}
    cls = source.module(INC).classes['ThermochemIncomplete']
    W = I.world
    W.loop_specs[(INC, 'ThermochemIncomplete.update', 0)] = cp_loop(A, B, holder)
    _orig = ctx.fresh

    def fresh(name, sort):
        v = _orig(name, sort)
        if name == 'j_cp':
            ctx.instantiate([v, KeyAt(B.ver, v)])
        return v
    ctx.fresh = fresh
    W.contracts[(INC, 'ThermochemIncomplete._expand_ND_Cp_data')] = lambda I_, a, k: (('Ts-of', a[1]), ('Cps-of', a[1]))
    built = []

    def ctor(I_, c, a, k):
        H, S_, m, T, rg = a
        if not (isinstance(m, Obj) and m.cls is maps.MapCls):
            raise Unsupported('constructor called with something that is not the table')
        if I_.ctx.branch(setup_raises(m.fields['ver'], T, rg)):
            raise I_.exc('ValueError', 'table/range inconsistent')
        o = Obj(cls, dict(ND_H_ref=H, ND_S_ref=S_, ND_Cp_data=Obj(maps.MapCls, {'ver': m.fields['ver']}, 'fresh'), T_ref=T, range=rg,
                          _correlation=Obj(BuiltinClass('Delegate'), {}, 'fresh')), origin='fresh')
        built.append(o)
        return o
    W.ctor_hooks['ThermochemIncomplete'] = ctor

    def getter(field, what):
        def g(I_, a, k):
            o, T = a[0], a[1]
            if o is A.obj or o is B.obj:
                raise Unsupported('update evaluates one of its operands directly')
            if o.fields[field] is None:
                raise I_.exc('IncompleteDataError', 'no %s data' % what)
            if T is not o.fields['T_ref'] and not (is_z3(T) and T.eq(o.fields['T_ref'])):
                raise Unsupported('evaluation away from the reference temperature')
            return o.fields[field]
        return g
    W.contracts[(INC, 'ThermochemIncomplete.get_HoRT')] = getter('ND_H_ref', 'enthalpy')
    W.contracts[(INC, 'ThermochemIncomplete.get_SoR')] = getter('ND_S_ref', 'entropy')

    def setup(I_, a, k):
        o = a[0]
        f = o.fields
        if 'ND_Cp_data' not in f or not isinstance(f['ND_Cp_data'], Obj):
            raise Unsupported('_setup_correlation on an object without a table')
        if o.origin != 'fresh':
            I_.ctx.effect('write', o.oid, 'ThermochemIncomplete', '_correlation')
        if I_.ctx.branch(setup_raises(f['ND_Cp_data'].fields['ver'], f['T_ref'], f['range'])):
            f.pop('_correlation', None)
            raise I_.exc('ValueError', 'table/range inconsistent')
        f['_correlation'] = Obj(BuiltinClass('Delegate'), {'rebuilt': True}, 'fresh')
        return None
    W.contracts[(INC, 'ThermochemIncomplete._setup_correlation')] = setup

    out = run_target(I, INC, 'ThermochemIncomplete.update', [B.obj, overwrite], self_obj=A.obj)

    writes = [e for e in ctx.effects if e[0] == 'write']
    # ---- spec ----
    nB = Size(B.ver)
    if A.rng is None:
        hull = B.rng
    elif B.rng is None:
        hull = A.rng
    else:
        hull = (z3.If(A.rng[0] <= B.rng[0], A.rng[0], B.rng[0]), z3.If(A.rng[1] >= B.rng[1], A.rng[1], B.rng[1]))
    confH = z3.BoolVal(False) if (A.H is None or B.H is None) else z3.Not(isclose(B.H, A.H))
    confS = z3.BoolVal(False) if (A.S is None or B.S is None) else z3.Not(isclose(B.S, A.S))
    newH = B.H if B.H is not None else A.H
    newS = B.S if B.S is not None else A.S
    k = ctx.fresh('k', 'real')
    ctx.instantiate([k, PosOf(B.ver, k), nB])

    if out.kind == 'raise':
        name = out.value.cls.name
        ctx.oblige('a rejected merge leaves the correlation unchanged (no field written before the exception)',
                   z3.BoolVal(not writes), exception=name, writes=str(writes))
        if name == 'ReadOnlyDataError':
            ctx.oblige('ReadOnlyDataError only without overwrite', z3.BoolVal(overwrite is False))
            # witness of the conflict: the loop index point, or the reference values
            j = z3.Int('j_cp')
            in_loop = ctx.counters.get('j_cp') is not None and not any(e[0] == 'loop-exit' for e in ctx.effects) and \
                'after_loop' not in ctx.ghost
            conds = [confH, confS]
            if ctx.counters.get('j_cp') is not None:
                conds.append(conflict_cp(A, B, KeyAt(B.ver, j)))
            ctx.oblige('ReadOnlyDataError only when two different values exist for the same datum', zor(conds))
        elif name == 'ValueError':
            ctx.oblige('ValueError only from building the table delegate of the merged data', z3.BoolVal(True))
        else:
            ctx.oblige('no-unexpected-exception(%s)' % name, z3.BoolVal(False))
        return {'inputs': {}}

    f = A.obj.fields
    ps = []
    if overwrite is False:
        ps.append(('returns only when the reference enthalpies do not conflict (zero is a value)', z3.Not(confH)))
        ps.append(('returns only when the reference entropies do not conflict (zero is a value)', z3.Not(confS)))
        t = ctx.fresh('t', 'int')
        ctx.instantiate([t, KeyAt(B.ver, t)])
        ps.append(('returns only when no shared temperature has two different Cp (arbitrary point t of the other table)',
                   z3.Implies(z3.And(0 <= t, t < nB), z3.Not(conflict_cp(A, B, KeyAt(B.ver, t))))))
    m = f.get('ND_Cp_data')
    if isinstance(m, Obj) and m.cls is maps.MapCls:
        d, v = merge_at(A.ver, B.ver, nB, k)
        ps.append(('Cp table is the union of both tables (arbitrary key)',
                   z3.And(Dom(m.fields['ver'], k) == d, z3.Implies(d, MVal(m.fields['ver'], k) == v))))
    else:
        ps.append(('Cp table stored', z3.BoolVal(False)))
    def eqv(x, y):
        if x is None or y is None:
            return z3.BoolVal(x is None and y is None)
        return z3_of(x) == z3_of(y)
    ps.append(('reference enthalpy: the other\'s value if it has one (zero included), else unchanged', eqv(f.get('ND_H_ref'), newH)))
    ps.append(('reference entropy: the other\'s value if it has one (zero included), else unchanged', eqv(f.get('ND_S_ref'), newS)))
    r = f.get('range')
    if hull is None:
        ps.append(('range stays undefined', z3.BoolVal(r is None)))
    else:
        ps.append(('range is the hull of both ranges', z3.And(r[0] == hull[0], r[1] == hull[1]) if isinstance(r, tuple) else z3.BoolVal(False)))
    ps.append(('reference temperature unchanged', eqv(f.get('T_ref'), T_ref)))
    d_ = f.get('_correlation')
    ps.append(('table delegate rebuilt from the merged data', z3.BoolVal(isinstance(d_, Obj) and d_.fields.get('rebuilt') is True)))
    ps.append(('the other correlation is not modified', z3.BoolVal(not [w for w in writes if w[1] == B.obj.oid or w[1] == B.map.oid])))
    for label, g in ps:
        ctx.oblige(label, g)
    return {'inputs': {}}


def replay_update(model, state, ob):
    from pgradd.ThermoChem import ThermochemIncomplete
    from pgradd.Error import ReadOnlyDataError
    res = []
    # zero reference value merged into a non-zero one must conflict
    a = ThermochemIncomplete(5.0, 1.0, {}, 298.15, None)
    b = ThermochemIncomplete(0.0, None, {}, 298.15, None)
    try:
        a.update(b)
        res.append(('H=0 into H=5', 'accepted', a.ND_H_ref))
    except ReadOnlyDataError:
        pass
    # zero recorded
    a = ThermochemIncomplete(None, None, {}, 298.15, None)
    a.update(ThermochemIncomplete(0.0, 0.0, {}, 298.15, None))
    if a.ND_H_ref != 0.0 or a.ND_S_ref != 0.0:
        res.append(('H=0,S=0 into empty', 'not recorded', (a.ND_H_ref, a.ND_S_ref)))
    # failure atomicity
    a = ThermochemIncomplete(1.0, 1.0, {300.: 3., 400.: 4.}, 298.15, (250., 500.))
    b = ThermochemIncomplete(None, None, {200.: 2., 600.: 6.}, 298.15, None)
    before = (a.ND_H_ref, a.ND_S_ref, dict(a.ND_Cp_data), a.range, hasattr(a, '_correlation'))
    try:
        a.update(b)
    except Exception as e:
        after = (a.ND_H_ref, a.ND_S_ref, dict(a.ND_Cp_data), a.range, hasattr(a, '_correlation'))
        if after != before:
            res.append(('rejected merge (%s)' % type(e).__name__, 'object changed', after))
    return {'failed': bool(res), 'input': 'three merge scenarios (zero reference values; table outside the range)',
            'observed': res, 'expected': 'conflict detected / zero recorded / object unchanged after a rejected merge',
            'script': "from pgradd.ThermoChem import ThermochemIncomplete\n"
                      "a = ThermochemIncomplete(5.0, 1.0, {}, 298.15, None); a.update(ThermochemIncomplete(0.0, None, {}, 298.15, None)); print(a.ND_H_ref)  # expected ReadOnlyDataError\n"}


UNITS = [
    Unit('ThermochemIncomplete.update[self: H=%d S=%d range=%d]' % SHAPES[ai], (INC, 'ThermochemIncomplete.update'),
         u_update_shape(ai), replay_update) for ai in range(8)
]

from . import standins
STANDINS = [standins.c13_merges]

from . import C13lib     # noqa: E402
UNITS = UNITS + C13lib.UNITS      # library level: Update, the group-reading loops of _do_load, order/nesting lemma

from . import C05init     # noqa: E402
UNITS = UNITS + C05init.UNITS[:1]      # coupling invariant of ThermochemIncomplete (constructor / _setup_correlation), default-table frame
