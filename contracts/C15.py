"""C15 -- Results do not depend on what the library object did before.

Decided by frame conditions: the engine logs every write to an object that is not fresh in the call (attribute assignment,
item assignment, append / += / update on a container reachable from a parameter, a class attribute or a module global);
a write must be in the `modifies` clause of the function.  If every operation's result is a function of its arguments and of
state that no other operation writes, results are history independent.  The one declared cross-operation channel is
`library.name` (written by GetDescriptors, read when an estimate is built): known finding K1."""
import z3

from pyvc import source
from pyvc.engine import Obj, Builtin, SymSeq, Unsupported, NotImplementedVal, is_z3, z3_of
from pyvc.source import BuiltinClass
from pyvc.verify import Unit, run_target
from . import gd, C01, C07, C08, C12
from .gd import GDWorld, LIB
from .spec import check_outcome

PROPERTY = 'C15'
LEVEL = 'other'
EXPLANATION = ('frame obligations (no write outside the modifies clause) discharged per function by pyvc; the history-independence lemma is a paper '
               'argument over those frames; random operation histories compared with fresh processes are the bounded stand-in')
SCH = 'pgradd/GroupAdd/Scheme.py'
INC = 'pgradd/ThermoChem/incomplete.py'
TRUSTED = ['RDKit calls made by the decomposition work on copies (AddHs / MolFromSmiles return new molecules); PyYAML returns fresh objects',
           'frame log: a write through an alias that the abstraction does not track (e.g. C-level mutation inside RDKit) is not seen']


def world():
    return GDWorld()


def writes_of(ctx):
    return [e for e in ctx.effects if e[0].startswith('write')]


def u_getdescriptors_frame(I):
    ctx = I.ctx
    lib = gd.mk_lib(I)
    mol = I.fresh('smiles', 'str')
    result = {'C(C)(H)3': I.fresh('n', 'int')}
    sch = lib.fields['scheme']
    I.world.abstract['SchemeAbs'] = {'attr': lambda I_, o, n: Builtin('GetDescriptors', lambda I2, a, k: result) if n == 'GetDescriptors' else NotImplementedVal}
    out = run_target(I, LIB, 'GroupLibrary.GetDescriptors', [mol], self_obj=lib)
    w = writes_of(ctx)
    check_outcome(I, out, raises={}, returns=lambda r: [
        ('returns the scheme\'s decomposition unchanged', z3.BoolVal(r is result)),
        ('modifies(library.name) only -- contents, scheme, uncertainty data untouched', z3.BoolVal(all(x[0] == 'write' and x[3] == 'name' and x[1] == lib.oid for x in w)))])
    return {'inputs': {}}


def u_estimate_frame(I):
    ctx = I.ctx
    lib = gd.mk_lib(I)
    groups, n = gd.mk_groups(I)
    est = Obj(BuiltinClass('EstimatorStub'), {}, 'fresh')
    I.modstate[('classattr', LIB, 'GroupLibrary', '_property_set_estimator_types')] = {'thermochem': Builtin('estimator_type', lambda I_, a, k: est)}
    I.global_ids[id(I.modstate[('classattr', LIB, 'GroupLibrary', '_property_set_estimator_types')])] = 'GroupLibrary._property_set_estimator_types'
    out = run_target(I, LIB, 'GroupLibrary.Estimate', [groups, 'thermochem'], self_obj=lib)
    ctx.oblige('Estimate writes nothing: modifies() is empty (library, mapping and the class-level registries)', z3.BoolVal(not writes_of(ctx)))
    return {'inputs': {}}


def u_scheme_init_defaults(I):
    """GroupAdditivityScheme.__init__ as Load calls it (six fresh lists/dicts, no include): the shared default arguments are
    neither stored nor mutated"""
    ctx = I.ctx
    cls = source.module(SCH).classes['GroupAdditivityScheme']
    o = Obj(cls, {}, 'fresh')
    args = [[{'p': 1}], [], {'a': [[1, 'b']]}, [], [], []]
    ids = [id(a) for a in args]
    out = run_target(I, SCH, 'GroupAdditivityScheme.__init__', args, self_obj=o)
    f = o.fields
    check_outcome(I, out, raises={}, returns=lambda r: [
        ('the scheme holds what it was given (the containers themselves or copies with the same contents)',
         z3.BoolVal([f.get(k) for k in ('patterns', 'pretreatment_rules', 'remaps', 'other_descriptors', 'smiles_based_descriptors', 'smarts_based_descriptors')]
                    == [[{'p': 1}], [], {'a': [[1, 'b']]}, [], [], []])),
        ('nothing outside the new object is written (no include => no += on a shared default)', z3.BoolVal(not writes_of(ctx))),
        ('arguments are not modified', z3.BoolVal(args == [[{'p': 1}], [], {'a': [[1, 'b']]}, [], [], []]))])
    return {'inputs': {}}


def u_scheme_init_include(I):
    """GroupAdditivityScheme(include=[other scheme]) with every other argument left at its default: the new scheme gets the included
    content, and NOTHING that outlives the call is written -- in particular not the default-argument objects, which python shares between
    all calls (a second scheme built the same way must not inherit the first one's patterns)"""
    ctx = I.ctx
    cls = source.module(SCH).classes['GroupAdditivityScheme']
    inc = Obj(cls, {'patterns': [{'p': 'inc'}], 'pretreatment_rules': [], 'remaps': {'a': [[1, 'b']]}, 'other_descriptors': [{'d': 1}],
                    'smiles_based_descriptors': [], 'smarts_based_descriptors': []}, 'param')
    for k, v in inc.fields.items():
        I.global_ids[id(v)] = 'included scheme .%s' % k
    o1, o2 = Obj(cls, {}, 'fresh'), Obj(cls, {}, 'fresh')
    r1 = run_target(I, SCH, 'GroupAdditivityScheme.__init__', [], {'include': [inc]}, self_obj=o1)
    r2 = run_target(I, SCH, 'GroupAdditivityScheme.__init__', [], {}, self_obj=o2)
    w = writes_of(ctx)
    check_outcome(I, r2, raises={}, returns=lambda r: [
        ('the including scheme holds the included patterns, remaps and descriptors', z3.BoolVal(r1.kind == 'return' and o1.fields.get('patterns') == [{'p': 'inc'}] and o1.fields.get('remaps') == {'a': [[1, 'b']]}
                                                                                               and o1.fields.get('other_descriptors') == [{'d': 1}])),
        ('a scheme built afterwards with no arguments is empty (nothing was left behind in the shared default arguments)',
         z3.BoolVal(o2.fields.get('patterns') == [] and o2.fields.get('remaps') == {} and o2.fields.get('other_descriptors') == [] and o2.fields.get('pretreatment_rules') == [])),
        ('no write to state that outlives the call (default arguments, the included scheme)', z3.BoolVal(not w)),
        ('the included scheme is unchanged', z3.BoolVal(inc.fields['patterns'] == [{'p': 'inc'}] and inc.fields['remaps'] == {'a': [[1, 'b']]}))])
    return {'inputs': {}}


def replay_scheme_include(model, state, ob):
    from pgradd.GroupAdd.Scheme import GroupAdditivityScheme
    from . import real
    with real.quiet():
        a, b = GroupAdditivityScheme.Load('BensonGA'), GroupAdditivityScheme.Load('XieGA2022')
        s1 = GroupAdditivityScheme(include=[a])
        s2 = GroupAdditivityScheme(include=[b])
        s3 = GroupAdditivityScheme()
    bad = (len(s2.patterns) != len(b.patterns)) or len(s3.patterns) != 0
    return {'failed': bad, 'input': "GroupAdditivityScheme(include=[Benson]); GroupAdditivityScheme(include=[Xie]); GroupAdditivityScheme()", 'observed': [len(s1.patterns), len(s2.patterns), len(s3.patterns)],
            'expected': [len(a.patterns), len(b.patterns), 0],
            'script': "from pgradd.GroupAdd.Scheme import GroupAdditivityScheme as S\na, b = S.Load('BensonGA'), S.Load('XieGA2022')\nS(include=[a]); print(len(S(include=[b]).patterns), len(b.patterns), len(S().patterns))   # expected equal, equal, 0\n"}


def u_state_sites(I):
    """inventory of the write sites to state shared between calls / objects (contracts/statescan.py): every site of the unchanged tree is
    read and justified there; a new site makes this unit undecided (a transparent cache is legitimate, a harmful one is refuted by the
    operation-histories stand-in)"""
    from . import statescan
    sites = statescan.scan(source.REPO)
    new = [x for x in sites if x not in statescan.ALLOWED]
    if new:
        raise Unsupported('new write site(s) to state that outlives a call: %s' % '; '.join('%s %s: %s' % x for x in new[:4]))
    for k in sites:
        I.ctx.oblige('known shared-state write site is one of the justified ones: %s %s: %s' % k, z3.BoolVal(True))
    I.ctx.oblige('the inventory is not empty (the scan sees the package)', z3.BoolVal(len(sites) >= 3))
    return {'inputs': {}}


def u_update_frame(I, both_uq=False):
    """GroupLibrary.Update: writes only this library's contents (copy on first sight -- no aliasing with the source library --
    else update of this library's own correlation) and this library's uq_contents binding"""
    ctx = I.ctx
    cls = source.module(LIB).classes['GroupLibrary']
    inc = source.module(INC).classes['ThermochemIncomplete']
    copies, updates = [], []
    mkc = lambda tag, origin: Obj(inc, {'tag': tag}, origin)
    I.world.contracts[(INC, 'ThermochemIncomplete.copy')] = lambda I_, a, k: (copies.append(a[0]), mkc('copy-of-' + a[0].fields['tag'], 'fresh'))[1]
    I.world.contracts[(INC, 'ThermochemIncomplete.update')] = lambda I_, a, k: updates.append((a[0], a[1], a[2] if len(a) > 2 else k.get('overwrite')))
    I.world.hash_keys['DescriptorKey'] = lambda I_, ob: ('gid', ob.fields['gid'].as_long())
    mine_a = mkc('mine-A', 'param')
    theirs_a, theirs_b = mkc('theirs-A', 'param'), mkc('theirs-B', 'param')
    own_sets_a = {'thermochem': mine_a}
    my_uq = {'dof': 5} if both_uq else {}
    me = Obj(cls, {'scheme': None, 'path': None, 'name': None, 'contents': {('gid', 1): own_sets_a}, 'uq_contents': my_uq}, 'param')
    I.global_ids[id(me.fields['contents'])] = 'self.contents'
    other_contents = {('gid', 1): {'thermochem': theirs_a}, ('gid', 2): {'thermochem': theirs_b}}
    other = Obj(cls, {'scheme': None, 'path': None, 'name': None, 'contents': other_contents, 'uq_contents': {'dof': 3}}, 'param')
    I.global_ids[id(other_contents)] = 'other.contents'
    for v in other_contents.values():
        I.global_ids[id(v)] = 'other.contents[...]'
    ow = [False, True][ctx.choose([True, True], 'overwrite')]
    # Mapping.items() of the abstract base class
    I.world.abstract_items = True
    from pyvc.engine import BoundMethod
    cls.methods.setdefault('items', None)
    I.world.contracts[(LIB, 'GroupLibrary.items')] = lambda I_, a, k: list(a[0].fields['contents'].items())
    old_find = I.world.find_method

    def find_method(c, name):
        if name == 'items' and c is cls:
            from pyvc.engine import Func
            import ast as _ast
            node = _ast.parse('def items(self):\n    pass').body[0]
            return Func(node, cls.module, cls, None, 'GroupLibrary.items')
        return old_find(c, name)
    I.world.find_method = find_method
    old_ca = I.world.class_attr

    def class_attr(I_, c, name, inst):
        if name == 'items' and (c is cls):
            return BoundMethod(find_method(cls, 'items'), inst)
        return old_ca(I_, c, name, inst)
    I.world.class_attr = class_attr
    out = run_target(I, LIB, 'GroupLibrary.Update', [other, ow], self_obj=me)
    w = writes_of(ctx)

    def posts(r):
        c = me.fields['contents']
        return [('a property set seen for the first time is stored as a fresh copy (no aliasing with the source library)',
                 z3.BoolVal(copies == [theirs_b] and c[('gid', 2)]['thermochem'].fields['tag'] == 'copy-of-theirs-B' and c[('gid', 2)]['thermochem'] is not theirs_b)),
                ('an existing one is merged into this library\'s own correlation with the given overwrite flag', z3.BoolVal(updates == [(mine_a, theirs_a, ow)])),
                ('the other library is not written', z3.BoolVal(not [x for x in w if 'other' in str(x)] and other.fields['contents'] is other_contents
                                                                 and other_contents[('gid', 1)]['thermochem'] is theirs_a and len(other_contents) == 2)),
                ('uncertainty data taken over only when this library has none', z3.BoolVal(me.fields['uq_contents'] is other.fields['uq_contents']))]
    if both_uq:
        check_outcome(I, out, raises={'*': z3.BoolVal(True)})
        ctx.oblige('the uncertainty data of this library are kept when the other library brings its own (the merge is refused)', z3.BoolVal(me.fields['uq_contents'] is my_uq and my_uq == {'dof': 5}))
        return {'inputs': {}}
    check_outcome(I, out, raises={}, returns=posts)
    return {'inputs': {}}


def replay_update_frame(model, state, ob):
    """two libraries built directly from one scheme; merging a library with uncertainty data into one must not reach the other, nor the source"""
    import pgradd.ThermoChem  # noqa
    from pgradd.GroupAdd.Library import GroupLibrary
    from . import real
    src = real.load('GRWSurface2018', fresh=True)
    fp0 = sorted(src.uq_contents) if src.uq_contents else []
    with real.quiet():
        a, b = GroupLibrary(src.scheme), GroupLibrary(src.scheme)
        a.Update(src)
        g = next(iter(src))
        aliased = a[g]['thermochem'] is src[g]['thermochem']
    bad = []
    if b.uq_contents:
        bad.append('a bystander library built from the same scheme now has uncertainty data: %s' % sorted(b.uq_contents))
    if aliased:
        bad.append('the merged library shares its correlation objects with the source library')
    if (sorted(src.uq_contents) if src.uq_contents else []) != fp0:
        bad.append('the source library was changed')
    return {'failed': bool(bad), 'input': "a, b = GroupLibrary(s), GroupLibrary(s); a.Update(GroupLibrary.Load('GRWSurface2018'))", 'observed': bad or 'b untouched, no aliasing',
            'expected': 'b.uq_contents == {} and no shared correlation objects',
            'script': "import pgradd.ThermoChem\nfrom pgradd.GroupAdd.Library import GroupLibrary\nsrc = GroupLibrary.Load('GRWSurface2018')\na, b = GroupLibrary(src.scheme), GroupLibrary(src.scheme)\na.Update(src)\nprint(b.uq_contents)   # expected {}\n"}


UNITS = [
    Unit('GroupLibrary.GetDescriptors [frame]', (LIB, 'GroupLibrary.GetDescriptors'), u_getdescriptors_frame),
    Unit('GroupLibrary.Estimate [frame]', (LIB, 'GroupLibrary.Estimate'), u_estimate_frame),
    Unit('GroupAdditivityScheme.__init__ [frame]', (SCH, 'GroupAdditivityScheme.__init__'), u_scheme_init_defaults),
    Unit('GroupLibrary.Update [frame]', (LIB, 'GroupLibrary.Update'), u_update_frame, replay_update_frame),
    Unit('GroupAdditivityScheme.__init__ [include, shared defaults]', (SCH, 'GroupAdditivityScheme.__init__'), u_scheme_init_include, replay_scheme_include),
    Unit('lemma:shared-state write sites', None, u_state_sites, kind='lemma'),
]
# frame ("pure") obligations proved in other properties' units
for _u in UNITS:
    if _u.name == 'lemma:shared-state write sites':
        _u.scans_repo = True        # reads the whole package: an Unsupported from it is about changed code by construction (undecided, never a checker error)
for mod, names in ((C01, ('get_CpoR', 'get_HoRT', 'get_SoR')), (C07, ('get_Selements',)), (C08, ('GetQueryMatches',)), (C12, ('qty_loader',))):
    for u in mod.UNITS:
        if any(n_ in u.name for n_ in names):
            if getattr(u, 'world_factory', None) is None:
                u.world_factory = mod.world
            if 'GetQueryMatches' in u.name:
                # completeness of the match list (known finding K4 of C08) is not a question of history-independence: precondition here
                def _wrap(run):
                    def run2(I):
                        I.ctx.assumed_obligations = ('no embedding is cut off',)
                        return run(I)
                    return run2
                u2 = Unit(u.name, u.target, _wrap(u.run_fn), None)
                u2.world_factory = u.world_factory
                u = u2
            UNITS.append(u)

# the scheme's remap table is not written by a decomposition: frame obligations of the two functions that read it (units of C02)
from . import C02 as _c02      # noqa: E402
for _u in _c02.UNITS:
    if 'remaps]' in _u.name:
        if getattr(_u, 'world_factory', None) is None:
            _u.world_factory = _c02.world
        UNITS.append(_u)

from . import standins
STANDINS = [standins.c15_histories]

from . import C05init     # noqa: E402
UNITS = UNITS + C05init.UNITS[1:]      # coupling invariant of ThermochemIncomplete (constructor / _setup_correlation), default-table frame
