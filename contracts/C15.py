"""C15 -- Results do not depend on what the library object did before.

Decided by frame conditions: the engine logs every write to an object that is not fresh in the call (attribute assignment,
item assignment, append / += / update on a container reachable from a parameter, a class attribute or a module global);
a write must be in the `modifies` clause of the function.  If every operation's result is a function of its arguments and of
state that no other operation writes, results are history independent.  The one declared cross-operation channel is
`library.name` (written by GetDescriptors, read when an estimate is built): known finding K1."""
import z3

from pyvc import source
from pyvc.engine import Obj, Builtin, SymSeq, Unsupported, NotImplementedVal, is_z3, z3_of
from pyvc.source import BuiltinClass
from pyvc.verify import Unit, run_target
from . import gd, C01, C07, C08, C12
from .gd import GDWorld, LIB
from .spec import check_outcome

PROPERTY = 'C15'
LEVEL = 'other'
EXPLANATION = ('frame obligations (no write outside the modifies clause) discharged per function by pyvc; the history-independence lemma is a paper '
               'argument over those frames; random operation histories compared with fresh processes are the bounded stand-in')
SCH = 'pgradd/GroupAdd/Scheme.py'
INC = 'pgradd/ThermoChem/incomplete.py'
TRUSTED = ['RDKit calls made by the decomposition work on copies (AddHs / MolFromSmiles return new molecules); PyYAML returns fresh objects',
           'frame log: a write through an alias that the abstraction does not track (e.g. C-level mutation inside RDKit) is not seen']


def world():
    return GDWorld()


def writes_of(ctx):
    return [e for e in ctx.effects if e[0].startswith('write')]


def u_getdescriptors_frame(I):
    ctx = I.ctx
    lib = gd.mk_lib(I)
    mol = I.fresh('smiles', 'str')
    result = {'C(C)(H)3': I.fresh('n', 'int')}
    sch = lib.fields['scheme']
    I.world.abstract['SchemeAbs'] = {'attr': lambda I_, o, n: Builtin('GetDescriptors', lambda I2, a, k: result) if n == 'GetDescriptors' else NotImplementedVal}
    out = run_target(I, LIB, 'GroupLibrary.GetDescriptors', [mol], self_obj=lib)
    w = writes_of(ctx)
    check_outcome(I, out, raises={}, returns=lambda r: [
        ('returns the scheme\'s decomposition unchanged', z3.BoolVal(r is result)),
        ('modifies(library.name) only -- contents, scheme, uncertainty data untouched', z3.BoolVal(all(x[0] == 'write' and x[3] == 'name' and x[1] == lib.oid for x in w)))])
    return {'inputs': {}}


def u_estimate_frame(I):
    ctx = I.ctx
    lib = gd.mk_lib(I)
    groups, n = gd.mk_groups(I)
    est = Obj(BuiltinClass('EstimatorStub'), {}, 'fresh')
    I.modstate[('classattr', LIB, 'GroupLibrary', '_property_set_estimator_types')] = {'thermochem': Builtin('estimator_type', lambda I_, a, k: est)}
    I.global_ids[id(I.modstate[('classattr', LIB, 'GroupLibrary', '_property_set_estimator_types')])] = 'GroupLibrary._property_set_estimator_types'
    out = run_target(I, LIB, 'GroupLibrary.Estimate', [groups, 'thermochem'], self_obj=lib)
    ctx.oblige('Estimate writes nothing: modifies() is empty (library, mapping and the class-level registries)', z3.BoolVal(not writes_of(ctx)))
    return {'inputs': {}}


def u_scheme_init_defaults(I):
    """GroupAdditivityScheme.__init__ as Load calls it (six fresh lists/dicts, no include): the shared default arguments are
    neither stored nor mutated"""
    ctx = I.ctx
    cls = source.module(SCH).classes['GroupAdditivityScheme']
    o = Obj(cls, {}, 'fresh')
    args = [[{'p': 1}], [], {'a': [[1, 'b']]}, [], [], []]
    ids = [id(a) for a in args]
    out = run_target(I, SCH, 'GroupAdditivityScheme.__init__', args, self_obj=o)
    f = o.fields
    check_outcome(I, out, raises={}, returns=lambda r: [
        ('the scheme holds exactly the objects it was given', z3.BoolVal([id(f.get(k)) for k in ('patterns', 'pretreatment_rules', 'remaps', 'other_descriptors',
                                                                                                 'smiles_based_descriptors', 'smarts_based_descriptors')] == ids)),
        ('nothing outside the new object is written (no include => no += on a shared default)', z3.BoolVal(not writes_of(ctx))),
        ('arguments are not modified', z3.BoolVal(args == [[{'p': 1}], [], {'a': [[1, 'b']]}, [], [], []]))])
    return {'inputs': {}}


def u_update_frame(I, both_uq=False):
    """GroupLibrary.Update: writes only this library's contents (copy on first sight -- no aliasing with the source library --
    else update of this library's own correlation) and this library's uq_contents binding"""
    ctx = I.ctx
    cls = source.module(LIB).classes['GroupLibrary']
    inc = source.module(INC).classes['ThermochemIncomplete']
    copies, updates = [], []
    mkc = lambda tag, origin: Obj(inc, {'tag': tag}, origin)
    I.world.contracts[(INC, 'ThermochemIncomplete.copy')] = lambda I_, a, k: (copies.append(a[0]), mkc('copy-of-' + a[0].fields['tag'], 'fresh'))[1]
    I.world.contracts[(INC, 'ThermochemIncomplete.update')] = lambda I_, a, k: updates.append((a[0], a[1], a[2] if len(a) > 2 else k.get('overwrite')))
    I.world.hash_keys['DescriptorKey'] = lambda I_, ob: ('gid', ob.fields['gid'].as_long())
    mine_a = mkc('mine-A', 'param')
    theirs_a, theirs_b = mkc('theirs-A', 'param'), mkc('theirs-B', 'param')
    own_sets_a = {'thermochem': mine_a}
    my_uq = {'dof': 5} if both_uq else {}
    me = Obj(cls, {'scheme': None, 'path': None, 'name': None, 'contents': {('gid', 1): own_sets_a}, 'uq_contents': my_uq}, 'param')
    I.global_ids[id(me.fields['contents'])] = 'self.contents'
    other_contents = {('gid', 1): {'thermochem': theirs_a}, ('gid', 2): {'thermochem': theirs_b}}
    other = Obj(cls, {'scheme': None, 'path': None, 'name': None, 'contents': other_contents, 'uq_contents': {'dof': 3}}, 'param')
    I.global_ids[id(other_contents)] = 'other.contents'
    for v in other_contents.values():
        I.global_ids[id(v)] = 'other.contents[...]'
    ow = [False, True][ctx.choose([True, True], 'overwrite')]
    # Mapping.items() of the abstract base class
    I.world.abstract_items = True
    from pyvc.engine import BoundMethod
    cls.methods.setdefault('items', None)
    I.world.contracts[(LIB, 'GroupLibrary.items')] = lambda I_, a, k: list(a[0].fields['contents'].items())
    old_find = I.world.find_method

    def find_method(c, name):
        if name == 'items' and c is cls:
            from pyvc.engine import Func
            import ast as _ast
            node = _ast.parse('def items(self):\n    pass').body[0]
            return Func(node, cls.module, cls, None, 'GroupLibrary.items')
        return old_find(c, name)
    I.world.find_method = find_method
    old_ca = I.world.class_attr

    def class_attr(I_, c, name, inst):
        if name == 'items' and (c is cls):
            return BoundMethod(find_method(cls, 'items'), inst)
        return old_ca(I_, c, name, inst)
    I.world.class_attr = class_attr
    out = run_target(I, LIB, 'GroupLibrary.Update', [other, ow], self_obj=me)
    w = writes_of(ctx)

    def posts(r):
        c = me.fields['contents']
        return [('a property set seen for the first time is stored as a fresh copy (no aliasing with the source library)',
                 z3.BoolVal(copies == [theirs_b] and c[('gid', 2)]['thermochem'].fields['tag'] == 'copy-of-theirs-B' and c[('gid', 2)]['thermochem'] is not theirs_b)),
                ('an existing one is merged into this library\'s own correlation with the given overwrite flag', z3.BoolVal(updates == [(mine_a, theirs_a, ow)])),
                ('the other library is not written', z3.BoolVal(not [x for x in w if 'other' in str(x)] and other.fields['contents'] is other_contents
                                                                 and other_contents[('gid', 1)]['thermochem'] is theirs_a and len(other_contents) == 2)),
                ('uncertainty data taken over only when this library has none', z3.BoolVal(me.fields['uq_contents'] is other.fields['uq_contents']))]
    if both_uq:
        check_outcome(I, out, raises={'ValueError': z3.BoolVal(True)})
        ctx.oblige('the uncertainty data of this library are kept when the other library brings its own (the merge is refused)', z3.BoolVal(me.fields['uq_contents'] is my_uq and my_uq == {'dof': 5}))
        return {'inputs': {}}
    check_outcome(I, out, raises={}, returns=posts)
    return {'inputs': {}}


def replay_update_frame(model, state, ob):
    """two libraries built directly from one scheme; merging a library with uncertainty data into one must not reach the other, nor the source"""
    import pgradd.ThermoChem  # noqa
    from pgradd.GroupAdd.Library import GroupLibrary
    from . import real
    src = real.load('GRWSurface2018', fresh=True)
    fp0 = sorted(src.uq_contents) if src.uq_contents else []
    with real.quiet():
        a, b = GroupLibrary(src.scheme), GroupLibrary(src.scheme)
        a.Update(src)
        g = next(iter(src))
        aliased = a[g]['thermochem'] is src[g]['thermochem']
    bad = []
    if b.uq_contents:
        bad.append('a bystander library built from the same scheme now has uncertainty data: %s' % sorted(b.uq_contents))
    if aliased:
        bad.append('the merged library shares its correlation objects with the source library')
    if (sorted(src.uq_contents) if src.uq_contents else []) != fp0:
        bad.append('the source library was changed')
    return {'failed': bool(bad), 'input': "a, b = GroupLibrary(s), GroupLibrary(s); a.Update(GroupLibrary.Load('GRWSurface2018'))", 'observed': bad or 'b untouched, no aliasing',
            'expected': 'b.uq_contents == {} and no shared correlation objects',
            'script': "import pgradd.ThermoChem\nfrom pgradd.GroupAdd.Library import GroupLibrary\nsrc = GroupLibrary.Load('GRWSurface2018')\na, b = GroupLibrary(src.scheme), GroupLibrary(src.scheme)\na.Update(src)\nprint(b.uq_contents)   # expected {}\n"}


UNITS = [
    Unit('GroupLibrary.GetDescriptors [frame]', (LIB, 'GroupLibrary.GetDescriptors'), u_getdescriptors_frame),
    Unit('GroupLibrary.Estimate [frame]', (LIB, 'GroupLibrary.Estimate'), u_estimate_frame),
    Unit('GroupAdditivityScheme.__init__ [frame]', (SCH, 'GroupAdditivityScheme.__init__'), u_scheme_init_defaults),
    Unit('GroupLibrary.Update [frame]', (LIB, 'GroupLibrary.Update'), u_update_frame, replay_update_frame),
]
# frame ("pure") obligations proved in other properties' units
for mod, names in ((C01, ('get_CpoR', 'get_HoRT', 'get_SoR')), (C07, ('get_Selements',)), (C08, ('GetQueryMatches',)), (C12, ('qty_loader',))):
    for u in mod.UNITS:
        if any(n_ in u.name for n_ in names):
            if getattr(u, 'world_factory', None) is None:
                u.world_factory = mod.world
            if 'GetQueryMatches' in u.name:
                # completeness of the match list (known finding K4 of C08) is not a question of history-independence: precondition here
                def _wrap(run):
                    def run2(I):
                        I.ctx.assumed_obligations = ('no embedding is cut off',)
                        return run(I)
                    return run2
                u2 = Unit(u.name, u.target, _wrap(u.run_fn), None)
                u2.world_factory = u.world_factory
                u = u2
            UNITS.append(u)

from . import standins
STANDINS = [standins.c15_histories]

from . import C05init     # noqa: E402
UNITS = UNITS + C05init.UNITS[1:]      # coupling invariant of ThermochemIncomplete (constructor / _setup_correlation), default-table frame
