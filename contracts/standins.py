"""Bounded stand-ins (run-time evaluation of the contracts on the real code, small-scope / sampled).
They are the second line when an obligation is undecided on changed code and are NEVER counted as proved."""
from pyvc import source
import itertools
import math
import os
import random
import shutil
import tempfile

from . import real


# ---------------------------------------------------------------------------------------------- C05
def c05_tables(tier, seed):
    """random tables of 1..16 points in random supply order, reference temperature below/inside/at the ends/above the
    span: values at knots, at T_ref, and changes of T*H/RT and S/R between two temperatures against an independent
    piecewise quadrature of the extended Cp; G = H - S through ThermochemIncomplete."""
    import numpy as np
    from scipy.integrate import quad
    from scipy.interpolate import InterpolatedUnivariateSpline
    from pgradd.ThermoChem.raw_data import ThermochemRawData
    from pgradd.ThermoChem import ThermochemIncomplete
    rnd = random.Random(seed)
    ntab = 40 if tier == 'quick' else 200
    viol, n, samples = [], 0, []
    for t in range(ntab):
        k = rnd.choice([1, 1, 2, 3, 4, 5, 8, 16])
        Ts = sorted(rnd.sample(range(250, 1500, 10), k))
        Cps = [round(rnd.uniform(1, 30), 4) for _ in Ts]
        lo, hi = Ts[0] - rnd.choice([0, 50, 120]), Ts[-1] + rnd.choice([0, 60, 300])
        T_ref = rnd.choice([lo, Ts[0], Ts[-1], hi, rnd.uniform(lo, hi), (Ts[0] + Ts[-1]) / 2.0])
        H, S = rnd.uniform(-50, 50), rnd.uniform(0, 40)
        order = list(range(k))
        rnd.shuffle(order)
        try:
            with real.quiet():
                c = ThermochemRawData(H, S, [float(Ts[i]) for i in order], [Cps[i] for i in order], float(T_ref), (float(lo), float(hi)))
                ci = ThermochemIncomplete(H, S, {float(Ts[i]): Cps[i] for i in order}, float(T_ref), (float(lo), float(hi)))
        except Exception as e:    # noqa
            viol.append({'id': 'construct-%d' % t, 'input': {'Ts': Ts, 'order': order, 'T_ref': T_ref, 'range': [lo, hi]}, 'observed': repr(e), 'expected': 'a correlation'})
            continue
        if k == 1:
            sp = lambda x: Cps[0]
        else:
            spl = InterpolatedUnivariateSpline(Ts, Cps, k=(3 if k > 3 else k - 1))
            sp = lambda x: float(spl(x))

        def cp(x):
            return Cps[0] if x < Ts[0] else (Cps[-1] if x > Ts[-1] else sp(x))

        def integ(f, a, b):
            pts = sorted(set([a, b] + [p for p in Ts if min(a, b) < p < max(a, b)]))
            tot = sum(quad(f, p, q, epsabs=1e-12, epsrel=1e-12)[0] for p, q in zip(pts, pts[1:]))
            return tot if a <= b else -tot
        # the same correlation ASSEMBLED BY MERGES (as a library with includes does): table first and reference values later, reference
        # values first and table later, or wrong reference values overwritten afterwards
        recipe = rnd.choice(['table-then-refs', 'refs-then-table', 'overwrite-refs', 'H-then-S', 'overwrite-table-values'])
        tab, rg = {float(Ts[i]): Cps[i] for i in order}, (float(lo), float(hi))
        try:
            with real.quiet():
                if recipe == 'table-then-refs':
                    cm = ThermochemIncomplete(None, None, tab, float(T_ref), rg)
                    cm.update(ThermochemIncomplete(H, S, {}, float(T_ref), None))
                elif recipe == 'refs-then-table':
                    cm = ThermochemIncomplete(H, S, {}, float(T_ref), None)
                    cm.update(ThermochemIncomplete(None, None, tab, float(T_ref), rg))
                elif recipe == 'overwrite-table-values':
                    # a first version of the table with other VALUES at the same temperatures, revised afterwards with overwrite (nothing else changes)
                    cm = ThermochemIncomplete(H, S, {k_: v_ + 1.5 for k_, v_ in tab.items()}, float(T_ref), rg)
                    cm.get_HoRT(float(T_ref))
                    cm.update(ThermochemIncomplete(None, None, tab, float(T_ref), rg), overwrite=True)
                elif recipe == 'overwrite-refs':
                    cm = ThermochemIncomplete(H + 7.0, S + 3.0, tab, float(T_ref), rg)
                    cm.update(ThermochemIncomplete(H, S, {}, float(T_ref), None), overwrite=True)
                else:
                    cm = ThermochemIncomplete(H, None, tab, float(T_ref), rg)
                    cm.update(ThermochemIncomplete(None, S, {}, float(T_ref), None))
        except Exception as e:    # noqa
            viol.append({'id': 'merge-%d' % t, 'input': {'recipe': recipe, 'Ts': Ts, 'T_ref': T_ref, 'range': [lo, hi]}, 'observed': repr(e), 'expected': 'a correlation'})
            cm = None
        evalT = [lo, hi, T_ref, Ts[0], Ts[-1]] + [rnd.uniform(lo, hi) for _ in range(3)]
        for T in evalT:
            n += 1
            bad = []
            with real.quiet():
                h, s_, c_ = c.get_HoRT(T), c.get_SoR(T), c.get_CpoR(T)
                g = ci.get_GoRT(T)
                if cm is not None:
                    hm, sm = real.outcome(cm.get_HoRT, T), real.outcome(cm.get_SoR, T)
                    wH, wS = (H * T_ref + integ(cp, T_ref, T)) / T, S + integ(lambda x: cp(x) / x, T_ref, T)
                    if hm[0] != 'ok' or not real.close(hm[1], wH, 1e-7, 1e-7):
                        bad.append(('H/RT of the correlation assembled by ' + recipe, hm, wH))
                    if sm[0] != 'ok' or not real.close(sm[1], wS, 1e-5, 3e-4):
                        bad.append(('S/R of the correlation assembled by ' + recipe, sm, wS))
            wantH = (H * T_ref + integ(cp, T_ref, T)) / T
            wantS = S + integ(lambda x: cp(x) / x, T_ref, T)
            if not real.close(h, wantH, 1e-7, 1e-7):
                bad.append(('H/RT', h, wantH))
            # the code integrates Cp/T with scipy.integrate.quad across the knots in one call (default tolerances): on steep splines its
            # error reaches ~1e-4 absolute; the accuracy of quad is an assumption of C05, not an obligation
            if not real.close(s_, wantS, 1e-5, 3e-4):
                bad.append(('S/R', s_, wantS))
            if not real.close(c_, cp(T), 1e-9, 1e-9):
                bad.append(('Cp/R', c_, cp(T)))
            if not real.close(g, ci.get_HoRT(T) - ci.get_SoR(T), 1e-12, 1e-12):
                bad.append(('G/RT', g, 'H-S'))
            if bad and _room(viol, 10):
                viol.append({'id': 'table%d-T%g' % (t, T), 'input': {'Ts': [Ts[i] for i in order], 'Cps': [Cps[i] for i in order], 'T_ref': T_ref, 'H_ref': H, 'S_ref': S, 'range': [lo, hi], 'T': T},
                             'observed': bad, 'expected': 'closed-form integrals of the extended Cp'})
        # Cp/R for an ARRAY of temperatures (integer- and float-typed) equals the scalar answers
        n += 1
        grid_i = np.arange(int(lo) + 1, int(hi), max(1, (int(hi) - int(lo)) // 7))
        for grid in (grid_i, grid_i.astype(float) + 0.25):
            grid = grid[(grid >= lo) & (grid <= hi)]
            if len(grid) == 0:
                continue
            with real.quiet():
                arr = real.outcome(c.get_CpoR, grid)
                sc = [c.get_CpoR(float(t_)) for t_ in grid]
            if arr[0] != 'ok' or len(np.atleast_1d(arr[1])) != len(sc) or any(not real.close(float(a_), b_, 1e-12, 1e-12) for a_, b_ in zip(np.atleast_1d(arr[1]), sc)):
                if _room(viol, 12):
                    viol.append({'id': 'table%d-array-%s' % (t, grid.dtype), 'input': {'Ts': [Ts[i] for i in order], 'Cps': [Cps[i] for i in order], 'T_ref': T_ref, 'range': [lo, hi], 'T array': [float(x) for x in grid], 'dtype': str(grid.dtype)},
                                 'observed': str(arr)[:200], 'expected': sc})
        if len(samples) < 3:
            samples.append({'Ts': [Ts[i] for i in order], 'T_ref': T_ref, 'range': [lo, hi]})
    return {'name': 'tables-vs-quadrature', 'evaluations': n, 'distinct_nontrivial': ntab, 'violations': viol, 'samples': samples,
            'bound': '%d random tables of 1..16 points, shuffled supply order, each also assembled by merges, 8 temperatures each, tolerance 1e-7 (S/R: 1e-5 rel + 3e-4 abs, quadrature)' % ntab,
            'rule': 'a case is a (table, temperature); tables distinct by construction'}


# ---------------------------------------------------------------------------------------------- C06
def c06_edges(tier, seed):
    """every group of the shipped libraries and estimates of random mappings at temperatures just inside, at, just outside
    and far outside each range bound (also 0 and negative): outside => error or (only without Cp data) warning; inside =>
    finite plain numbers for the properties with data; the estimate's range is the intersection."""
    import warnings
    from pgradd.Error import IncompleteDataWarning
    rnd = random.Random(seed)
    viol, n, distinct, samples = [], 0, 0, []

    def probe(tag, obj, T, inside, has_cp_all):
        nonlocal n
        for m in ('get_CpoR', 'get_HoRT', 'get_SoR'):
            n += 1
            with warnings.catch_warnings(record=True) as w:
                warnings.simplefilter('always')
                kind, v = real.outcome(getattr(obj, m), T, _keep_warnings=True)
            warned = any(issubclass(x.category, IncompleteDataWarning) for x in w)
            if inside:
                ok = (kind == 'exc' and v == 'IncompleteDataError') or (kind == 'ok' and isinstance(v, float) and math.isfinite(v))
            else:
                ok = kind == 'exc' or (warned and not has_cp_all)
            if not ok and _room(viol, 12):
                viol.append({'id': '%s-%s-%g' % (tag, m, T), 'input': {'object': tag, 'method': m, 'T': T, 'inside_range': inside},
                             'observed': [kind, repr(v), 'warned' if warned else 'no warning'], 'expected': 'finite number' if inside else 'error (or warning when a constituent has no Cp data)'})
    libs = real.LIBS if tier != 'quick' else real.LIBS[:4]
    for libname in libs:
        lib = real.load(libname)
        gs = real.thermo_groups(lib)
        for g in gs:
            c = lib[g]['thermochem']
            r = c.get_range()
            if r is None:
                continue
            distinct += 1
            lo, hi = r
            has_cp = c.has_ND_Cp()
            for T, inside in ((lo, True), (hi, True), (lo * (1 + 1e-9) + 1e-9, True), (hi * (1 - 1e-9), True), (0.5 * (lo + hi), True),
                              (lo * (1 - 1e-7), False), (hi * (1 + 1e-7), False), (lo - 0.01, False), (hi + 0.01, False), (hi * 10, False), (0.0, False), (-5.0, False)):
                probe('%s/%s' % (libname, g), c, T, inside, has_cp)
        for r_ in range(6 if tier == 'quick' else 40):
            keys = rnd.sample(gs, min(len(gs), rnd.randint(1, 5)))
            rnd.shuffle(keys)
            groups = {k: rnd.choice([1, 2, 0.5]) for k in keys}
            lib.name = 'C'
            est = lib.Estimate(groups, 'thermochem')
            lo, hi = real.common_range(lib, keys)
            n += 1
            rr = est.get_range()
            want = None if lo is None else (lo, hi)
            if (rr is None) != (want is None) or (rr is not None and (rr[0] != want[0] or rr[1] != want[1])):
                viol.append({'id': '%s-range-%d' % (libname, r_), 'input': {'library': libname, 'groups': [str(k) for k in keys]}, 'observed': rr, 'expected': want})
            if want is not None and lo <= hi:
                has_cp_all = all(lib[k]['thermochem'].has_ND_Cp() for k in keys)
                for T, inside in ((lo, True), (hi, True), (lo * (1 - 1e-7), False), (hi * (1 + 1e-7), False), (hi + 0.01, False)):
                    probe('%s/estimate%d' % (libname, r_), est, T, inside, has_cp_all)
            if len(samples) < 3:
                samples.append({'library': libname, 'groups': [str(k) for k in keys], 'range': want})
    # the valid range CHANGED after construction (set_range), asked before and after at the same temperatures, on the same object
    from pgradd.ThermoChem import ThermochemIncomplete
    from pgradd.ThermoChem.raw_data import ThermochemRawData
    tab = {300.: 3.0, 400.: 3.4, 500.: 3.9, 600.: 4.3, 800.: 4.9, 1000.: 5.2}
    makers = {'table correlation': lambda: ThermochemRawData(1.0, 2.0, sorted(tab), [tab[t] for t in sorted(tab)], 298.15, (298., 1000.)),
              'correlation with missing parts, with Cp': lambda: ThermochemIncomplete(1.0, 2.0, dict(tab), 298.15, (298., 1000.)),
              'correlation without Cp': lambda: ThermochemIncomplete(1.0, 2.0, {}, 298.15, (298., 1000.))}
    for tag, mk in makers.items():
        with real.quiet():
            c = mk()
        has_cp = 'without' not in tag
        distinct += 1
        for T in (350., 900.):          # 900 K is the LAST temperature accepted before the range is narrowed
            probe(tag + ' [as constructed]', c, T, True, has_cp)
        c.set_range((298., 500.))
        for T, inside in ((900., False), (350., True), (900., False)):
            probe(tag + ' [after set_range((298, 500))]', c, T, inside, has_cp)
        c.set_range((298., 1000.))
        probe(tag + ' [after widening back]', c, 900., True, has_cp)
    # known findings (design level, identified by their class): K5 an estimate keeps the range computed when it was made although it shares
    # the group objects with the library; K6 a group with a table but NO declared range is ignored in the intersection although its table
    # correlation refuses temperatures outside the table
    from pgradd.GroupAdd.Library import GroupLibrary
    from pgradd.ThermoChem import ThermochemGroup
    tabB = {300.: 1.0, 500.: 1.5, 800.: 2.0, 1000.: 2.2, 1500.: 2.4}
    with real.quiet():
        lib5 = GroupLibrary(None, {'A': {'thermochem': ThermochemGroup(-10., 25., dict(tab), 298.15, (298., 1000.))}})
        lib5.name = 'C'
        est5 = lib5.Estimate({'A': 1}, 'thermochem')
        lib5['A']['thermochem'].update(ThermochemGroup(None, None, {1500.: 5.5}, 298.15, (298., 1500.)))
        n += 1
        # (former K5, repaired by a9ee649) the estimate keeps the range computed when it was made (a narrower report is safe); what it must not do is answer
        # a temperature outside the range it reports just because the shared group object now accepts it
        import warnings as _w
        with _w.catch_warnings(record=True) as w5:
            _w.simplefilter('always')
            k5 = real.outcome(est5.get_HoRT, 1200.)
        r5 = est5.get_range()
        if k5[0] == 'ok' and not w5 and r5 is not None and not (r5[0] <= 1200. <= r5[1]):
            viol.append({'id': 'estimate-range-after-group-update', 'input': 'est = Estimate({A: 1}); lib[A].update(wider range 298-1500); est.get_HoRT(1200)',
                         'observed': {'range the estimate reports': r5, 'get_HoRT(1200)': k5}, 'expected': 'an error or a warning: 1200 K is outside the reported range',
                         'script': None})
        # the same through set_range on the estimate itself -- after the very temperatures were answered while they were still inside the range
        est5b = lib5.Estimate({'A': 1}, 'thermochem')
        for m5 in ('get_CpoR', 'get_HoRT', 'get_SoR'):
            getattr(est5b, m5)(900.)
        est5b.set_range((298., 500.))
        for m5 in ('get_CpoR', 'get_HoRT', 'get_SoR'):
            n += 1
            with _w.catch_warnings(record=True) as w5:
                _w.simplefilter('always')
                k5 = real.outcome(getattr(est5b, m5), 900.)
            if k5[0] == 'ok' and not w5:
                viol.append({'id': 'estimate-own-range-%s' % m5, 'input': 'est.set_range((298, 500)); est.%s(900)' % m5, 'observed': k5, 'expected': 'an error or a warning'})
        # ARRAYS of temperatures (Cp/R accepts them): one element outside the range, wherever it stands in the array, is signalled
        import numpy as _np
        est5c = lib5.Estimate({'A': 1}, 'thermochem')
        grp5 = lib5['A']['thermochem']
        r5c = est5c.get_range()
        for obj_name, obj in (('estimate', est5c), ('group correlation', grp5), ('table correlation', grp5._correlation)):
            for arr in ([725., 1700., 726.], [2000., 899.], [600., 700., 1501.], [[400., 500.], [5000., 600.]], [297.0, 400.]):
                n += 1
                with _w.catch_warnings(record=True) as w5:
                    _w.simplefilter('always')
                    k5 = real.outcome(obj.get_CpoR, _np.array(arr))
                inside = all(r5c[0] <= t_ <= r5c[1] for t_ in _np.ravel(arr)) if r5c else True
                if k5[0] == 'ok' and not w5 and not inside:
                    viol.append({'id': 'array-T-%s-%s' % (obj_name.replace(' ', '-'), str(arr).replace(' ', '')), 'input': '%s.get_CpoR(np.array(%r)), range %r' % (obj_name, arr, r5c),
                                 'observed': str(k5)[:120], 'expected': 'an error or a warning: one temperature is outside the range'})
        lib6 = GroupLibrary(None, {'A': {'thermochem': ThermochemGroup(-10., 25., dict(tabB), 298.15, (298., 1500.))},
                                   'B': {'thermochem': ThermochemGroup(-1., 2., dict(tab), 300.)}})
        lib6.name = 'C'
        est6 = lib6.Estimate({'A': 1, 'B': 1}, 'thermochem')
        n += 1
        k6 = real.outcome(est6.get_HoRT, 1200.)
        if k6[0] != 'ok':
            viol.append({'id': 'undeclared-range-table', 'cls': 'K6:undeclared-range-table', 'input': 'estimate of A (range 298-1500) + B (table 300-1000, no declared range) at 1200 K',
                         'observed': {'estimate range': est6.get_range(), 'get_HoRT(1200)': k6}, 'expected': 'a finite number inside the reported range'})
    return {'name': 'range-edges', 'evaluations': n, 'distinct_nontrivial': distinct, 'violations': viol, 'samples': samples,
            'bound': 'all groups with a range of %d libraries x 12 temperatures x 3 properties + random estimates' % len(libs),
            'rule': 'a case is (correlation, temperature, property); distinct correlations counted'}


# ---------------------------------------------------------------------------------------------- C07
def c07_units(tier, seed):
    """estimates of molecules decomposed immediately before x every energy unit accepted by pmutt.constants.R:
    H = (H/RT) T R(u/K), S = (S/R) R(u/K) [entropy unit], Cp likewise, G = H - T S; elemental reference lowers S/R by
    the sum of pmutt.constants.S_elements over all atoms incl. hydrogens (computed here from the SMILES independently)."""
    from pmutt import constants as c
    from rdkit import Chem
    rnd = random.Random(seed)
    units = ['J/mol', 'kJ/mol', 'cal/mol', 'kcal/mol', 'eV/molecule', 'Eh/molecule', 'Ha/molecule', 'J/molecule', 'eV']
    ok_units = []
    for u in units:
        try:
            c.R(u + '/K')
            ok_units.append(u)
        except Exception:    # noqa
            pass
    mols = {'BensonGA': ['CC', 'CCO', 'C=CC', 'CC(C)C', 'C1CCCCC1', 'CC(=O)C', '[CH3][CH2]O', 'C[C@H](O)CC', 'CCCCCC'],
            'XieGA2022': ['CC', 'CCC', 'CC(C)(C)C']}
    viol, n, samples = [], 0, []
    for libname, smis in mols.items():
        lib = real.load(libname)
        for smi in smis:
            kind, d = real.outcome(lib.GetDescriptors, smi)
            if kind == 'exc':
                continue
            est = lib.Estimate(d, 'thermochem')
            lo, hi = est.get_range() or (298.15, 298.15)
            m = Chem.AddHs(Chem.MolFromSmiles(smi))
            sele = sum(c.S_elements[a.GetAtomicNum()] for a in m.GetAtoms())
            for T in (lo, 0.5 * (lo + hi)):
                with real.quiet():
                    h, s_, cp = est.get_HoRT(T), est.get_SoR(T), est.get_CpoR(T)
                    s_el = est.get_SoR(T, S_elements=True)
                n += 1
                if not real.close(s_ - s_el, sele, 1e-10, 1e-10):
                    viol.append({'id': '%s-%s-elements' % (libname, smi), 'input': {'smiles': smi, 'T': T}, 'observed': s_ - s_el, 'expected': sele})
                for flag in (None, False, 0):
                    n += 1
                    with real.quiet():
                        v = est.get_SoR(T, S_elements=flag)
                    if not real.close(v, s_, 1e-12, 1e-12):
                        viol.append({'id': '%s-%s-flag-%r' % (libname, smi, flag), 'input': {'smiles': smi, 'S_elements': repr(flag)}, 'observed': v, 'expected': s_})
                for u in ok_units:
                    R, RK = None, c.R(u + '/K')
                    n += 1
                    with real.quiet():
                        H, G, S, Cp = est.get_H(T, u), est.get_G(T, u), est.get_S(T, u + '/K'), est.get_Cp(T, u + '/K')
                        Gel, Sel = est.get_G(T, u, S_elements=True), est.get_S(T, u + '/K', S_elements=True)
                    bad = []
                    if not real.close(H, h * T * RK, 1e-12, 0):
                        bad.append(('H', H, h * T * RK))
                    if not real.close(S, s_ * RK, 1e-12, 0):
                        bad.append(('S', S, s_ * RK))
                    if not real.close(Cp, cp * RK, 1e-12, 0):
                        bad.append(('Cp', Cp, cp * RK))
                    if not real.close(G, H - T * S, 1e-10, 1e-12 * abs(H)):
                        bad.append(('G', G, H - T * S))
                    if not real.close(Gel, H - T * Sel, 1e-10, 1e-12 * abs(H)) or not real.close(Sel, s_el * RK, 1e-12, 0):
                        bad.append(('G/S rel. elements', Gel, H - T * Sel))
                    if bad and _room(viol, 12):
                        viol.append({'id': '%s-%s-%s' % (libname, smi, u.replace('/', '_')), 'input': {'library': libname, 'smiles': smi, 'units': u, 'T': T}, 'observed': bad,
                                     'expected': 'non-dimensional value times R(units) (and T)'})
            if len(samples) < 3:
                samples.append({'library': libname, 'smiles': smi, 'units': ok_units})
    # (ii) an estimate keeps ITS molecule: decompose m1, estimate, decompose m2 with the same library, then ask the first estimate again
    for libname, smis in mols.items():
        lib = real.load(libname, fresh=True)
        for m1, m2 in zip(smis, smis[1:] + smis[:1]):
            k1, d1 = real.outcome(lib.GetDescriptors, m1)
            if k1 == 'exc':
                continue
            with real.quiet():
                e1 = lib.Estimate(d1, 'thermochem')
                T = (e1.get_range() or (298.15, 298.15))[0]
                first = real.outcome(e1.get_SoR, T, S_elements=True)
                real.outcome(lib.GetDescriptors, m2)
                again = real.outcome(e1.get_SoR, T, S_elements=True)
                G1 = real.outcome(e1.get_G, T, 'kJ/mol', S_elements=True)
            n += 1
            sele = sum(c.S_elements[a.GetAtomicNum()] for a in Chem.AddHs(Chem.MolFromSmiles(m1)).GetAtoms())
            plain = real.outcome(e1.get_SoR, T)
            ok = first[0] == again[0] == plain[0] == 'ok' and real.close(first[1], again[1], 1e-12, 1e-12) and real.close(plain[1] - again[1], sele, 1e-10, 1e-10)
            if not ok and _room(viol, 14):
                viol.append({'id': '%s-%s-held-estimate' % (libname, m1), 'input': {'library': libname, 'estimate of': m1, 'then decomposed': m2, 'T': T},
                             'observed': {'S/R rel. elements at once': first, 'after the other decomposition': again, 'S/R': plain}, 'expected': 'S/R - %r both times' % sele,
                             'script': "import pgradd.ThermoChem\nfrom pgradd.GroupAdd.Library import GroupLibrary\nlib = GroupLibrary.Load(%r)\ne = lib.Estimate(lib.GetDescriptors(%r), 'thermochem')\na = e.get_SoR(%r, S_elements=True)\nlib.GetDescriptors(%r)\nprint(a, e.get_SoR(%r, S_elements=True))   # expected twice the same\n" % (libname, m1, T, m2, T)})
    # (ii b) the structure given as a molecule object instead of text
    for libname, smis in mols.items():
        lib = real.load(libname, fresh=True)
        for smi in smis[:4]:
            n += 1
            with real.quiet():
                k1, d1 = real.outcome(lib.GetDescriptors, smi)
                if k1 == 'exc':
                    continue
                want = real.outcome(lambda: lib.Estimate(d1, 'thermochem').get_SoR(400.0, S_elements=True))
                got = real.outcome(lambda: lib.Estimate(lib.GetDescriptors(Chem.MolFromSmiles(smi)), 'thermochem').get_SoR(400.0, S_elements=True))
            if want[0] == 'ok' and (got[0] != 'ok' or not real.close(got[1], want[1], 1e-12, 1e-12)) and _room(viol, 14):
                viol.append({'id': '%s-%s-mol-object-elements' % (libname, smi), 'input': {'library': libname, 'structure': 'Chem.MolFromSmiles(%r)' % smi, 'T': 400.0}, 'observed': got, 'expected': want,
                             'script': "import pgradd.ThermoChem\nfrom rdkit import Chem\nfrom pgradd.GroupAdd.Library import GroupLibrary\nlib = GroupLibrary.Load(%r)\nprint(lib.Estimate(lib.GetDescriptors(Chem.MolFromSmiles(%r)), 'thermochem').get_SoR(400., S_elements=True))\n" % (libname, smi)})
    # (iii) the correlations of single groups (with and without heat-capacity data), away from their reference temperature
    for libname in (['BensonGA', 'SalciccioliGA2012'] if tier == 'quick' else real.LIBS):
        lib = real.load(libname)
        gs = real.thermo_groups(lib)
        for g in (rnd.sample(gs, min(14, len(gs))) if tier == 'quick' else gs):
            corr = lib[g]['thermochem']
            for T in (corr.T_ref, corr.T_ref + 37.5):
                for u in ok_units[:3]:
                    RK = c.R(u + '/K')
                    n += 1
                    with real.quiet():
                        h, s_, cp = real.outcome(corr.get_HoRT, T), real.outcome(corr.get_SoR, T), real.outcome(corr.get_CpoR, T)
                        H, S, Cp, G = real.outcome(corr.get_H, T, u), real.outcome(corr.get_S, T, u + '/K'), real.outcome(corr.get_Cp, T, u + '/K'), real.outcome(corr.get_G, T, u)
                    bad = []
                    for nm, dim, nd, f in (('H', H, h, T * RK), ('S', S, s_, RK), ('Cp', Cp, cp, RK)):
                        if dim[0] != nd[0] or (dim[0] == 'ok' and not real.close(dim[1], nd[1] * f, 1e-12, 0)):
                            bad.append((nm, dim, nd))
                    if h[0] == s_[0] == 'ok' and (G[0] != 'ok' or not real.close(G[1], (h[1] - s_[1]) * T * RK, 1e-10, 1e-12 * abs(h[1] * T * RK))):
                        bad.append(('G', G, (h[1] - s_[1]) * T * RK))
                    if bad and _room(viol, 16):
                        viol.append({'id': '%s-group-%s-%s-%g' % (libname, g, u.replace('/', '_'), T), 'input': {'library': libname, 'group': str(g), 'units': u, 'T': T}, 'observed': [str(b) for b in bad],
                                     'expected': 'non-dimensional value of the same correlation times R(units) (and T); same failure when the non-dimensional one fails'})
    return {'name': 'dimensional-getters', 'evaluations': n, 'distinct_nontrivial': sum(len(v) for v in mols.values()), 'violations': viol, 'samples': samples,
            'bound': '%d molecules x 2 temperatures x %d unit strings' % (sum(len(v) for v in mols.values()), len(ok_units)),
            'rule': 'a case is (molecule, temperature, unit); molecules distinct'}


# ---------------------------------------------------------------------------------------------- C20
def c20_se(tier, seed):
    import numpy as np
    rnd = random.Random(seed)
    viol, n, distinct, samples = [], 0, 0, []
    libs = []
    for name in real.LIBS:
        lib = real.load(name)
        if lib.uq_contents:
            libs.append(name)
    for name in libs:
        lib = real.load(name)
        D = list(lib.uq_contents['descriptors'])
        M = np.array(lib.uq_contents['mat'])
        rm = lib.uq_contents['RMSE'].thermochem
        lib.name = 'C'

        def ref(groups, T, m):
            x = np.zeros((len(D), 1))
            for g, cnt in groups.items():
                x[D.index(g)] = cnt
            q = float((x.T @ M @ x).item())    # D, M: the basis in force when the check runs (closure over the loop variables)
            return abs(getattr(rm, m)(T)) * math.sqrt(max(q, 0.0))

        def check(tag, groups, expect_error=False):
            nonlocal n, distinct
            distinct += 1
            kind, est = real.outcome(lib.Estimate, dict(groups), 'thermochem')
            if expect_error:
                n += 1
                got = kind
                if kind == 'ok':
                    got, v = real.outcome(est.get_HoRT_SE, 400.)
                if got == 'ok':
                    viol.append({'id': '%s-%s' % (name, tag), 'input': {'library': name, 'groups': {str(k): v for k, v in groups.items()}}, 'observed': 'a number', 'expected': 'an error for the descriptor outside the basis'})
                return
            if kind == 'exc':
                viol.append({'id': '%s-%s' % (name, tag), 'input': {'library': name, 'groups': {str(k): v for k, v in groups.items()}}, 'observed': est, 'expected': 'an estimate'})
                return
            r = rm.get_range() or (300., 300.)
            for T in (r[0], 0.5 * (r[0] + r[1])):
                for m in ('get_CpoR', 'get_HoRT', 'get_SoR'):
                    n += 1
                    kind, got = real.outcome(getattr(est, m + '_SE'), T)
                    wk, want = real.outcome(ref, groups, T, m)
                    if wk == 'exc':
                        continue
                    ok = kind == 'ok' and type(got) is float and got >= 0 and real.close(got, want, 1e-9, 1e-12)
                    if not ok and _room(viol, 12):
                        viol.append({'id': '%s-%s-%s-%g' % (name, tag, m, T), 'input': {'library': name, 'groups': {str(k): v for k, v in groups.items()}, 'T': T, 'property': m},
                                     'observed': [kind, repr(got)], 'expected': want})
        idx = range(len(D)) if tier != 'quick' else rnd.sample(range(len(D)), min(12, len(D)))
        for i in idx:
            check('unit%d' % i, {D[i]: 1})
        for r_ in range(8 if tier == 'quick' else 60):
            keys = rnd.sample(D, min(len(D), rnd.randint(1, 6)))
            cnt = [rnd.choice([1, 2, 0, -1, -2.5, 0.5, 3]) for _ in keys]
            g = dict(zip(keys, cnt))
            check('rand%d' % r_, g)
            check('rand%d-scaled' % r_, {k: -2 * v for k, v in g.items()})
            check('rand%d-permuted' % r_, dict(reversed(list(g.items()))))
            check('rand%d-minus-one' % r_, {k: -1 for k in g})          # ... and then the same descriptors with -2: two mappings that python hashes alike
            check('rand%d-minus-two' % r_, {k: -2 for k in g})
            if len(samples) < 3:
                samples.append({'library': name, 'groups': {str(k): v for k, v in g.items()}})
        # a descriptor with data but outside the basis: synthetic reduced basis
        full = lib.uq_contents
        drop = 0
        keep = [i for i in range(len(D)) if i != drop]
        lib.uq_contents = {'RMSE': full['RMSE'], 'descriptors': [D[i] for i in keep], 'mat': M[np.ix_(keep, keep)], 'dof': full['dof']}
        # the stored matrix written with whole numbers only (an integer array): fractional counts must still count as fractions
        Mi = np.rint(M * 1000).astype('int64')
        lib.uq_contents = {'RMSE': full['RMSE'], 'descriptors': list(D), 'mat': Mi, 'dof': full['dof']}
        M_keep, M = M, Mi.astype(float)
        try:
            check('integer-matrix-fractional-counts', {D[0]: 0.5, D[1]: 1.5})
            check('integer-matrix-half', {D[2]: 0.5})
        finally:
            M = M_keep
            lib.uq_contents = {'RMSE': full['RMSE'], 'descriptors': [D[i] for i in keep], 'mat': M[np.ix_(keep, keep)], 'dof': full['dof']}
        try:
            check('outside-basis', {D[drop]: 1, D[1]: 2}, expect_error=True)
            # a rejected mapping (the bad descriptor is NOT the first key) leaves nothing behind: the next estimates on the same library object
            Dk, Mk = [D[i] for i in keep], M[np.ix_(keep, keep)]
            D_, M_ = D, M
            D, M = Dk, Mk
            try:
                check('outside-basis-late-key', {Dk[1]: 2, Dk[2]: -1, D_[drop]: 1}, expect_error=True)
                check('after-rejected-1', {Dk[3]: 1})
                check('after-rejected-2', {Dk[1]: 1, Dk[4]: 2})
            finally:
                D, M = D_, M_
        finally:
            lib.uq_contents = full
    return {'name': 'standard-errors', 'evaluations': n, 'distinct_nontrivial': distinct, 'violations': viol, 'samples': samples,
            'bound': 'unit vectors + random/scaled/permuted mappings + out-of-basis descriptor on the %d shipped libraries with uncertainty data %s' % (len(libs), libs),
            'rule': 'a case is (library, mapping); distinct by construction'}


# ---------------------------------------------------------------------------------------------- C12 / C13 helpers
def write_library(dirname, filename, units, groups, include=(), scheme_from='XieGA2022'):
    """groups: name -> dict of yaml key -> text"""
    os.makedirs(dirname, exist_ok=True)
    sch = os.path.join(dirname, 'scheme.yaml')
    if not os.path.exists(sch):
        shutil.copy(os.path.join(source.DATA_DIR, scheme_from, 'scheme.yaml'), sch)
    lines = []
    if units is not None:
        lines.append('units:')
        for k, v in units.items():
            lines.append('    %s: %s' % (k, v))
    if include:
        lines.append('include:')
        for i in include:
            lines.append('    - %s' % i)
    if groups:
        lines.append('groups:')
    for name, entries in groups.items():
        if entries is None:                     # a group listed without any property set
            lines.append('    "%s": {}' % name)
            continue
        lines.append('    "%s":' % name)
        lines.append('        thermochem:')
        for k, v in entries.items():
            lines.append('            %s: %s' % (k, v))
    p = os.path.join(dirname, filename)
    with open(p, 'w') as f:
        f.write('\n'.join(lines) + '\n')
    return p


R_SI = 8.314472


def c12_presentations(tier, seed):
    """synthetic groups in several unit presentations, loaded one after the other in this process: identical Cp/R, H/RT,
    S/R; zero like any value; a bare dimensional value without a default unit is rejected."""
    import pgradd.ThermoChem  # noqa: registers the 'thermochem' property set
    from pgradd.GroupAdd.Library import GroupLibrary
    rnd = random.Random(seed)
    ngroups = 6 if tier == 'quick' else 40
    viol, n, samples = [], 0, []
    tmp = tempfile.mkdtemp(prefix='c12_')
    try:
        def pres(kind, H, S, cps, T_ref, rng):
            """H [J/mol], S [J/mol/K], cps [(T K, Cp J/mol/K)]"""
            conv = {'kcal': (1 / 4184.0, 1 / 4.184, 'kcal/mol', 'cal/mol/K'), 'kJ': (1e-3, 1.0, 'kJ/mol', 'J/mol/K'), 'J': (1.0, 1e-3, 'J/mol', 'kJ/(mol K)'),
                    'eV': (1 / 96485.3399 , 1 / 96485.3399, 'eV/molecule', 'eV/molecule/K')}
            if kind in ('kcal', 'kJ', 'J'):
                fh, fs, uh, us = conv[kind]
                units = {'molar enthalpy': uh, 'molar entropy': us, 'molar heat capacity': us, 'temperature': 'K'}
                e = {'T_ref': '%r' % T_ref, 'range': '[%r, %r]' % rng}
                if H is not None:
                    e['H_ref'] = '%r' % (H * fh)
                if S is not None:
                    e['S_ref'] = '%r' % (S * fs)
                if cps:
                    e['Cp_data'] = '[' + ', '.join('[%r, %r]' % (t, c * fs) for t, c in cps) + ']'
                return units, e
            if kind == 'explicit':
                units = {'temperature': 'K'}
                e = {'T_ref': '%r mK' % (T_ref * 1e3), 'range': '[%r K, %r kK]' % (rng[0], rng[1] / 1e3)}
                if H is not None:
                    e['H_ref'] = '%r MJ/kmol' % (H / 1e3)
                if S is not None:
                    e['S_ref'] = '%r cal/mol/K' % (S / 4.184)
                if cps:
                    e['Cp_data'] = '[' + ', '.join('[%r kK, %r kJ/(kmol K)]' % (t / 1e3, c) for t, c in cps) + ']'
                return units, e
            if kind == 'nd':
                units = {'temperature': 'K'}
                e = {'T_ref': '%r' % T_ref, 'range': '[%r, %r]' % rng}
                if H is not None:
                    e['ND_H_ref'] = '%r' % (H / (R_SI * T_ref))
                if S is not None:
                    e['ND_S_ref'] = '%r' % (S / R_SI)
                if cps:
                    e['ND_Cp_data'] = '[' + ', '.join('[%r, %r]' % (t, c / R_SI) for t, c in cps) + ']'
                return units, e
            if kind == 'mixed':
                units = {'molar enthalpy': 'kJ/mol', 'molar heat capacity': 'J/mol/K', 'temperature': 'K'}
                e = {'T_ref': '%r' % T_ref, 'range': '[%r, %r]' % rng}
                if H is not None:
                    e['H_ref'] = '%r' % (H * 1e-3)
                if S is not None:
                    e['ND_S_ref'] = '%r' % (S / R_SI)
                if cps:
                    e['Cp_data'] = '[' + ', '.join('[%r K, %r]' % (t, c) for t, c in cps) + ']'
                return units, e
        kinds = ['kJ', 'kcal', 'J', 'explicit', 'nd', 'mixed']
        for gi in range(ngroups):
            k = rnd.choice([0, 1, 2, 4, 7])
            Ts = sorted(rnd.sample(range(300, 1400, 50), k))
            cps = [(float(t), rnd.choice([0.0, round(rnd.uniform(5, 200), 3)])) for t in Ts]
            H = rnd.choice([None, 0.0, -1.5e5, round(rnd.uniform(-3e5, 3e5), 2)])
            S = rnd.choice([None, 0.0, round(rnd.uniform(0, 400), 3)])
            T_ref = 298.15
            rng = (250.0, 1500.0)
            results = {}
            order = kinds[:]
            rnd.shuffle(order)
            for kind in order:
                units, e = pres(kind, H, S, cps, T_ref, rng)
                d = os.path.join(tmp, 'g%d_%s' % (gi, kind))
                p = write_library(d, 'library.yaml', units, {'C(C)(H)3': e})
                kind_, lib = real.outcome(GroupLibrary.Load, p)
                if kind_ == 'exc':
                    viol.append({'id': 'g%d-%s-load' % (gi, kind), 'input': {'presentation': kind, 'entry': e, 'units': units}, 'observed': lib, 'expected': 'loads'})
                    continue
                c = lib['C(C)(H)3']['thermochem']
                vals = []
                for T in (250.0, 298.15, 611.0, 1500.0):
                    for m in ('get_CpoR', 'get_HoRT', 'get_SoR'):
                        ko, v = real.outcome(getattr(c, m), T)
                        vals.append((ko, v if ko == 'exc' else (float(v) if isinstance(v, (int, float)) or hasattr(v, '__float__') and not hasattr(v, 'units') else 'not-plain:%r' % (v,))))
                results[kind] = vals
            n += len(results)
            base_kind = next(iter(results), None)
            for kind, vals in results.items():
                ok = all((a[0] == b[0]) and (a[0] == 'exc' and a[1] == b[1] or a[0] == 'ok' and isinstance(a[1], float) and isinstance(b[1], float)
                                             and real.close(a[1], b[1], 1e-6, 1e-9)) for a, b in zip(vals, results[base_kind]))
                if not ok and _room(viol, 12):
                    viol.append({'id': 'g%d-%s-vs-%s' % (gi, kind, base_kind), 'input': {'H_J_mol': H, 'S': S, 'Cp': cps, 'presentations': [kind, base_kind], 'load_order': order},
                                 'observed': vals[:6], 'expected': results[base_kind][:6]})
            if len(samples) < 2:
                samples.append({'H_J_mol': H, 'S_J_molK': S, 'Cp': cps, 'presentations': order})
        # a bare dimensional value with no default unit for its kind is rejected
        for key, val in (('S_ref', '12.5'), ('H_ref', '3.0'), ('Cp_data', '[[300, 4.0]]')):
            n += 1
            units = {'temperature': 'K'}
            d = os.path.join(tmp, 'nounit_' + key)
            p = write_library(d, 'library.yaml', units, {'C(C)(H)3': {'T_ref': '298.15', key: val}})
            kind_, lib = real.outcome(GroupLibrary.Load, p)
            if kind_ == 'ok':
                viol.append({'id': 'no-default-unit-' + key, 'input': {key: val, 'units': units}, 'observed': 'loaded', 'expected': 'InputDataError'})
    finally:
        shutil.rmtree(tmp, ignore_errors=True)
    return {'name': 'unit-presentations', 'evaluations': n, 'distinct_nontrivial': ngroups, 'violations': viol, 'samples': samples,
            'bound': '%d synthetic groups x 6 presentations (default kJ/kcal/J blocks, explicit prefixed units, non-dimensional, mixed), loaded in random order in one process' % ngroups,
            'rule': 'a case is (group data, presentation); groups distinct'}


def c13_merges(tier, seed):
    """(a) update(): a group's data split over 1..4 correlations, every order: same union; injected conflicts rejected and the
    target unchanged; merging twice changes nothing.  (b) files with include: every include order, duplicate spellings."""
    import pgradd.ThermoChem  # noqa: registers the 'thermochem' property set
    from pgradd.ThermoChem import ThermochemIncomplete
    from pgradd.Error import ReadOnlyDataError
    from pgradd.GroupAdd.Library import GroupLibrary
    rnd = random.Random(seed)
    viol, n, distinct, samples = [], 0, 0, []

    def rnd12(x):
        # reference values are translated through the table correlation on every merge: equal up to float round-off
        return None if x is None else float('%.12g' % x)

    def state(c):
        # stored fields AND what the correlation answers at its reference temperature (a merged object whose table delegate was not
        # rebuilt stores the right numbers and answers with the old ones), and the class (a merge must not turn a group correlation
        # into its base class)
        ev = tuple(rnd12(real.outcome(getattr(c, m), c.T_ref)[1]) if real.outcome(getattr(c, m), c.T_ref)[0] == 'ok' else 'exc' for m in ('get_HoRT', 'get_SoR'))
        return (rnd12(c.ND_H_ref), rnd12(c.ND_S_ref), tuple(sorted((float(k), float(v)) for k, v in c.ND_Cp_data.items())), c.range, c.T_ref, hasattr(c, '_correlation'), ev, type(c).__name__)
    # pieces of one group given at DIFFERENT reference temperatures (H at 298 K, S at 400 K, the Cp table at 300 K): the union does not depend on the
    # order in which they are merged (recorded finding K11: update() translates an incoming reference value with the Cp data merged SO FAR)
    def piece(k_):
        if k_ == 'a':
            return ThermochemIncomplete(-5.0, None, {}, 298.0, None)
        if k_ == 'b':
            return ThermochemIncomplete(None, 12.0, {}, 400.0, None)
        return ThermochemIncomplete(None, None, {300.: 3.0, 400.: 3.5, 500.: 4.0}, 300.0, (250., 600.))
    res = {}
    for order in itertools.permutations('abc'):
        n += 1
        try:
            with real.quiet():
                acc = piece(order[0]).copy()
                for k_ in order[1:]:
                    acc.update(piece(k_))
                res[order] = (rnd12(acc.get_SoR(400.)), rnd12(acc.get_HoRT(298.)))
        except Exception as e:    # noqa
            res[order] = 'raised ' + type(e).__name__
    if len(set(res.values())) != 1 or next(iter(res.values())) != (12.0, -5.0):
        viol.append({'id': 'references-at-different-T_ref', 'cls': 'K11:references-at-different-T_ref', 'input': {'a': 'H/RT = -5 at 298 K', 'b': 'S/R = 12 at 400 K', 'c': 'Cp/R table 300..500 K, T_ref 300 K'},
                     'observed': {''.join(o_): v_ for o_, v_ in res.items()}, 'expected': '(S/R(400 K), H/RT(298 K)) = (12.0, -5.0) in all six merge orders',
                     'script': "import itertools, pgradd.ThermoChem\nfrom pgradd.ThermoChem import ThermochemIncomplete as TI\nmk = {'a': lambda: TI(-5.0, None, {}, 298.0, None), 'b': lambda: TI(None, 12.0, {}, 400.0, None), 'c': lambda: TI(None, None, {300.: 3.0, 400.: 3.5, 500.: 4.0}, 300.0, (250., 600.))}\nfor o in itertools.permutations('abc'):\n    acc = mk[o[0]]().copy()\n    [acc.update(mk[k]()) for k in o[1:]]\n    print(o, acc.get_SoR(400.), acc.get_HoRT(298.))\n"})
    ncase = 15 if tier == 'quick' else 120
    for ci in range(ncase):
        Ts = sorted(rnd.sample(range(300, 1300, 100), rnd.randint(0, 4)))
        data = {'H': rnd.choice([0.0, 5.0, -7.25]), 'S': rnd.choice([0.0, 3.5]), 'cp': {float(t): rnd.choice([0.0, 4.0, 9.5]) for t in Ts}}
        pieces = [('H', None), ('S', None)] + [('cp', t) for t in data['cp']]
        k = rnd.randint(1, 4)
        parts = [[] for _ in range(k)]
        for pc in pieces:
            parts[rnd.randrange(k)].append(pc)
            if rnd.random() < 0.3:
                parts[rnd.randrange(k)].append(pc)      # the same datum in two files (agreeing)

        def build(pl):
            H = data['H'] if ('H', None) in pl else None
            S = data['S'] if ('S', None) in pl else None
            cp = {t: data['cp'][t] for kk, t in pl if kk == 'cp'}
            return ThermochemIncomplete(H, S, cp, 298.15, (200.0, 1500.0))
        finals = set()
        for order in itertools.permutations(range(k)):
            n += 1
            with real.quiet():
                acc = build(parts[order[0]]).copy()
                for j in order[1:]:
                    acc.update(build(parts[j]))
                s1 = state(acc)
                acc.update(build(parts[order[-1]]))      # merging the same data twice
                s2 = state(acc)
            if s1 != s2:
                viol.append({'id': 'case%d-idempotence' % ci, 'input': {'parts': parts, 'order': order}, 'observed': s2, 'expected': s1})
            finals.add(s1)
        distinct += 1
        want = (data['H'], data['S'], tuple(sorted(data['cp'].items())), (200.0, 1500.0), 298.15, bool(data['cp']), (rnd12(data['H']), rnd12(data['S'])), 'ThermochemIncomplete')
        if len(finals) != 1 or next(iter(finals)) != want:
            if _room(viol, 12):
                viol.append({'id': 'case%d-union' % ci, 'input': {'data': data, 'parts': parts}, 'observed': sorted(finals, key=repr)[:2], 'expected': want})
        # injected conflict: rejected, target unchanged
        full = build(pieces)
        for what in ('H', 'S', 'cp'):
            if what == 'cp' and not data['cp']:
                continue
            n += 1
            other = build(pieces)
            if what == 'H':
                other.ND_H_ref = data['H'] + 1.0
            elif what == 'S':
                other.ND_S_ref = data['S'] - 2.0
            else:
                t0 = sorted(data['cp'])[0]
                other.ND_Cp_data[t0] = data['cp'][t0] + 1.0
                other.ND_Cp_data[777.0] = 1.0
                other._setup_correlation()
            before = state(full)
            try:
                with real.quiet():
                    full.update(other)
                got = 'accepted'
            except ReadOnlyDataError:
                got = 'ReadOnlyDataError'
            except Exception as e:    # noqa
                got = type(e).__name__
            after = state(full)
            if got != 'ReadOnlyDataError' or before != after:
                if _room(viol, 12):
                    viol.append({'id': 'case%d-conflict-%s' % (ci, what), 'input': {'data': data, 'conflicting': what}, 'observed': [got, 'changed' if before != after else 'unchanged'],
                                 'expected': ['ReadOnlyDataError', 'unchanged']})
                full = build(pieces)
        if len(samples) < 2:
            samples.append({'data': data, 'parts': parts})
    # (b) library files
    tmp = tempfile.mkdtemp(prefix='c13_')
    try:
        units = {'molar enthalpy': 'kJ/mol', 'molar entropy': 'J/mol/K', 'molar heat capacity': 'J/mol/K', 'temperature': 'K'}
        base = {'T_ref': '298.15', 'range': '[250, 1500]'}
        fileparts = {'h.yaml': dict(base, H_ref='-10.0'), 's.yaml': dict(base, S_ref='0.0'), 'h0.yaml': dict(base, H_ref='0.0'),
                     'c.yaml': dict(base, Cp_data='[[300, 20.0], [500, 30.0]]'), 'c2.yaml': dict(base, Cp_data='[[500, 30.0], [800, 35.0]]')}
        for fn, e in fileparts.items():
            write_library(tmp, fn, units, {'C(C)(H)3': e})
        ref = None
        for order in itertools.permutations(['h.yaml', 's.yaml', 'c.yaml', 'c2.yaml']):
            n += 1
            p = write_library(tmp, 'library.yaml', units, {'C(C)2(H)2': dict(base, H_ref='1.0')}, include=order)
            kind_, lib = real.outcome(GroupLibrary.Load, p)
            if kind_ == 'exc':
                viol.append({'id': 'include-%s' % '-'.join(order), 'input': list(order), 'observed': lib, 'expected': 'loads'})
                continue
            st = state(lib['C(C)(H)3']['thermochem'])
            ref = ref or st
            if st != ref:
                viol.append({'id': 'include-order-%s' % '-'.join(order), 'input': list(order), 'observed': st, 'expected': ref})
        # nested include
        write_library(tmp, 'mid.yaml', units, {'C(C)(H)3': fileparts['s.yaml']}, include=['c.yaml', 'c2.yaml'])
        p = write_library(tmp, 'library.yaml', units, {'C(C)(H)3': fileparts['h.yaml']}, include=['mid.yaml'])
        n += 1
        kind_, lib = real.outcome(GroupLibrary.Load, p)
        if kind_ == 'exc' or state(lib['C(C)(H)3']['thermochem']) != ref:
            viol.append({'id': 'nested-include', 'input': 'library -> mid -> c, c2', 'observed': lib if kind_ == 'exc' else state(lib['C(C)(H)3']['thermochem']), 'expected': ref})
        # nesting of depth two through a file that says nothing about the group (its entry is created by an include and merged into higher up)
        write_library(tmp, 'silent.yaml', units, {'C(C)2(H)2': dict(base, H_ref='2.0')}, include=['s.yaml', 'c.yaml', 'c2.yaml'])
        write_library(tmp, 'silent2.yaml', units, {}, include=['silent.yaml'])
        for top_inc in (['silent.yaml'], ['silent2.yaml']):
            p = write_library(tmp, 'library.yaml', units, {'C(C)(H)3': fileparts['h.yaml']}, include=top_inc)
            n += 1
            kind_, lib = real.outcome(GroupLibrary.Load, p)
            if kind_ == 'exc' or state(lib['C(C)(H)3']['thermochem']) != ref:
                viol.append({'id': 'nested-include-through-%s' % top_inc[0], 'input': 'library (H) -> %s (other group only) -> s, c, c2' % top_inc[0],
                             'observed': lib if kind_ == 'exc' else state(lib['C(C)(H)3']['thermochem']), 'expected': ref})
        # the same RELATIVE include name in two directories denotes two files: x/a.yaml -> x/common.yaml (H), y/b.yaml -> y/common.yaml (S and the tables)
        write_library(os.path.join(tmp, 'x'), 'common.yaml', units, {'C(C)(H)3': fileparts['h.yaml']})
        write_library(os.path.join(tmp, 'x'), 'a.yaml', units, {}, include=['common.yaml'])
        write_library(os.path.join(tmp, 'y'), 'common.yaml', units, {'C(C)(H)3': fileparts['s.yaml']}, include=['../c.yaml', '../c2.yaml'])
        write_library(os.path.join(tmp, 'y'), 'b.yaml', units, {}, include=['common.yaml'])
        for top_inc in (['x/a.yaml', 'y/b.yaml'], ['y/b.yaml', 'x/a.yaml']):
            p = write_library(tmp, 'library.yaml', units, {}, include=top_inc)
            n += 1
            kind_, lib = real.outcome(GroupLibrary.Load, p)
            if kind_ == 'exc' or state(lib['C(C)(H)3']['thermochem']) != ref:
                viol.append({'id': 'same-include-name-in-two-directories-%s' % top_inc[0][0], 'input': 'library -> %s; x/a.yaml -> common.yaml (H), y/b.yaml -> common.yaml (S, tables)' % top_inc,
                             'observed': lib if kind_ == 'exc' else state(lib['C(C)(H)3']['thermochem']), 'expected': ref})
        # a diamond: one file reached through two includes (the same data twice changes nothing)
        write_library(tmp, 'd1.yaml', units, {}, include=['h.yaml', 's.yaml'])
        write_library(tmp, 'd2.yaml', units, {}, include=['h.yaml', 'c.yaml', 'c2.yaml'])
        p = write_library(tmp, 'library.yaml', units, {}, include=['d1.yaml', 'd2.yaml'])
        n += 1
        kind_, lib = real.outcome(GroupLibrary.Load, p)
        if kind_ == 'exc' or state(lib['C(C)(H)3']['thermochem']) != ref:
            viol.append({'id': 'diamond-include', 'input': 'library -> d1 (h, s), d2 (h, c, c2)', 'observed': lib if kind_ == 'exc' else state(lib['C(C)(H)3']['thermochem']), 'expected': ref})
        # an empty piece: the group is listed without any property set in the including file (or in a sibling), all its data come from includes
        write_library(tmp, 'empty.yaml', units, {'C(C)(H)3': None})
        for label, top_groups, top_inc in (('listed-empty-in-the-including-file', {'C(C)(H)3': None}, ['h.yaml', 's.yaml', 'c.yaml', 'c2.yaml']),
                                           ('listed-empty-in-a-sibling-first', {}, ['empty.yaml', 'h.yaml', 's.yaml', 'c.yaml', 'c2.yaml']),
                                           ('listed-empty-in-a-sibling-last', {}, ['h.yaml', 's.yaml', 'c.yaml', 'c2.yaml', 'empty.yaml'])):
            p = write_library(tmp, 'library.yaml', units, top_groups, include=top_inc)
            n += 1
            kind_, lib = real.outcome(GroupLibrary.Load, p)
            if kind_ == 'exc' or state(lib['C(C)(H)3']['thermochem']) != ref:
                viol.append({'id': 'empty-piece-' + label, 'input': {'groups of the top file': 'C(C)(H)3: {}' if top_groups else 'none', 'include': top_inc},
                             'observed': lib if kind_ == 'exc' else state(lib['C(C)(H)3']['thermochem']), 'expected': ref})
        # conflicting files
        for a, b in (('h.yaml', 'h0.yaml'), ('h0.yaml', 'h.yaml')):
            n += 1
            p = write_library(tmp, 'library.yaml', units, {}, include=[a, b])
            kind_, lib = real.outcome(GroupLibrary.Load, p)
            if not (kind_ == 'exc' and lib == 'ReadOnlyDataError'):
                viol.append({'id': 'conflict-%s-%s' % (a, b), 'input': [a, b], 'observed': [kind_, str(lib)[:60]], 'expected': 'ReadOnlyDataError'})
        # duplicate spellings of one group in one file
        for s1, s2 in (('C(C)(H)3', 'C(H)3(C)'), ('C(H)3(C)', 'C(C)(H)3'), ('C(C)(H)3', 'C(C)(H)(H)2'), ('C(H)(C)(H)2', 'C(H)2(C)(H)')):
            n += 1
            p = write_library(tmp, 'library.yaml', units, {s1: fileparts['h.yaml'], s2: fileparts['s.yaml']})
            kind_, lib = real.outcome(GroupLibrary.Load, p)
            if kind_ == 'ok':
                viol.append({'id': 'duplicate-%s-%s' % (s1, s2), 'input': [s1, s2], 'observed': 'loaded', 'expected': 'rejected (KeyError: multiple definitions)'})
            # ... and the same file reached through an include (one and two levels down): the rejection of an included file is the rejection of the library
            n += 1
            write_library(tmp, 'dup_inner.yaml', units, {s1: fileparts['h.yaml'], s2: fileparts['s.yaml']})
            write_library(tmp, 'dup_mid.yaml', units, {}, include=['dup_inner.yaml'])
            for top_inc in (['dup_inner.yaml'], ['h.yaml', 'dup_mid.yaml']):
                p = write_library(tmp, 'library.yaml', units, {}, include=top_inc)
                kind_, lib = real.outcome(GroupLibrary.Load, p)
                if kind_ == 'ok':
                    viol.append({'id': 'duplicate-in-include-%s-%s-%d' % (s1, s2, len(top_inc)), 'input': {'included file': [s1, s2], 'include': top_inc}, 'observed': 'loaded',
                                 'expected': 'rejected (a group under two spellings in one file)'})
        # two libraries loaded SEPARATELY (each Load builds its own scheme object) and merged with Update: groups are matched by what they are, not by the
        # scheme object they carry -- union, conflict, and nothing listed twice
        n += 1
        with real.quiet():
            A_ = real.outcome(lambda: GroupLibrary.Load(os.path.join(tmp, 'h.yaml')))
            B_ = real.outcome(lambda: GroupLibrary.Load(os.path.join(tmp, 's.yaml')))
            if A_[0] == 'ok' and B_[0] == 'ok':
                k_ = real.outcome(lambda: A_[1].Update(B_[1]))
                names_ = sorted(str(g_) for g_ in A_[1])
                c_ = A_[1]['C(C)(H)3']['thermochem'] if 'C(C)(H)3' in A_[1] else None
                okm = k_[0] == 'ok' and names_.count('C(C)(H)3') == 1 and c_ is not None and c_.ND_H_ref is not None and c_.ND_S_ref is not None
                if not okm:
                    viol.append({'id': 'update-between-separately-loaded-libraries', 'input': "A = Load('h.yaml'); B = Load('s.yaml'); A.Update(B)", 'observed': {'outcome': str(k_)[:80], 'groups': names_,
                                 'H, S': (getattr(c_, 'ND_H_ref', None), getattr(c_, 'ND_S_ref', None))}, 'expected': 'one entry C(C)(H)3 holding H and S'})
                A2_ = GroupLibrary.Load(os.path.join(tmp, 'h.yaml'))
                k2_ = real.outcome(lambda: A2_.Update(GroupLibrary.Load(os.path.join(tmp, 'h0.yaml'))))
                if not (k2_[0] == 'exc' and k2_[1] == 'ReadOnlyDataError'):
                    viol.append({'id': 'conflict-between-separately-loaded-libraries', 'input': "Load('h.yaml').Update(Load('h0.yaml'))", 'observed': str(k2_)[:80], 'expected': 'ReadOnlyDataError'})
        # no aliasing between the merged library and the included one
        n += 1
        p = write_library(tmp, 'library.yaml', units, {}, include=['h.yaml'])
        kind_, lib = real.outcome(GroupLibrary.Load, p)
        if kind_ == 'ok':
            inc = GroupLibrary._Load(os.path.join(tmp, 'h.yaml'), lib.scheme)
            target = GroupLibrary(lib.scheme, {})
            with real.quiet():
                target.Update(inc)
                target.Update(GroupLibrary._Load(os.path.join(tmp, 's.yaml'), lib.scheme))
            if inc['C(C)(H)3']['thermochem'].ND_S_ref is not None:
                viol.append({'id': 'aliasing', 'input': 'Update(inc); Update(other)', 'observed': 'the included library was modified', 'expected': 'copy on first sight'})
    finally:
        shutil.rmtree(tmp, ignore_errors=True)
    return {'name': 'merge-histories', 'evaluations': n, 'distinct_nontrivial': distinct, 'violations': viol, 'samples': samples,
            'bound': '%d random splits over 1..4 correlations x all orders + injected conflicts; 24 include orders, nesting, conflicts, duplicate spellings, aliasing' % ncase,
            'rule': 'a case is (data, split); distinct by construction'}


# ---------------------------------------------------------------------------------------------- C08
def c08_matcher(tier, seed):
    """bounded-exhaustive fragments (<= 2 atoms, <= 1 constraint; every symbol class, prefix, suffix, bond kind, constraint form,
    comparison operator, negation, molecule prefix) x small molecules, against an independent brute-force matcher that reads
    the structured description of the fragment (not its text) and uses RDKit only for elementary observers."""
    from rdkit import Chem
    from pgradd.RINGParser.Reader import Read
    rnd = random.Random(seed)
    smiles = ['C', 'CC', 'C=C', 'C#C', 'CO', 'C=O', 'CCO', 'CC=O', 'C1CC1', 'C1CO1', 'C1CC12CCC2', 'C1CCC2CCCC2C1', '[OH3+]', 'C[CH2+]', 'C[NH2+]C', 'CC[O-]', 'C[CH-]C',      # spiro / fused: atoms in rings of different sizes
              '[CH3]', '[CH2]C', '[CH]=C', 'C[O-]', 'C[NH3+]', 'CN', 'O=C=O',
              '[CH2][CH2]', 'C[C]C', 'C1=CC1', 'OO', 'N#N', '[OH]', 'C1CCC1', 'C12CC1C2', 'c1ccccc1', 'CC(C)=O']
    if tier == 'quick':
        smiles = smiles[:25]
    makers = ['Chem.MolFromSmiles(%r)' % s for s in smiles]
    # the same species under OTHER atom orders: one query object is asked about all of them, one after the other (nothing it learned about a compound
    # may be carried over to another numbering of its atoms)
    makers += ["Chem.MolFromSmiles('OCC')", "Chem.MolFromSmiles('C(O)C')", "Chem.MolFromSmiles('O=CC')", "Chem.MolFromSmiles('OC')", "Chem.MolFromSmiles('C(C)[CH2]')"]
    # molecules handed over with SOME hydrogens already explicit (isotope-labelled H, hydrogens added on selected atoms only, all explicit)
    makers += ["Chem.MolFromSmiles('[2H]CC')", "Chem.AddHs(Chem.MolFromSmiles('CCO'), onlyOnAtoms=[0])", "Chem.AddHs(Chem.MolFromSmiles('C=CO'), onlyOnAtoms=[2])",
               "Chem.AddHs(Chem.MolFromSmiles('CC=O'))"]
    mols = []
    for mk in makers:
        m = Chem.AddHs(eval(mk, {'Chem': Chem}))
        mols.append((mk, m))
    ops = {'>': lambda a, b: a > b, '<': lambda a, b: a < b, '>=': lambda a, b: a >= b, '<=': lambda a, b: a <= b, '=': lambda a, b: a == b}
    symbols = ['C', 'O', 'N', 'H', '$', 'X', '&']
    prefixes = [None, 'ringatom', 'nonringatom', 'allylic', 'aromatic', 'nonaromatic']
    suffixes = [None, '.', ':', '+', '-', '?', '+.', '*']       # '*': one more bond than the default valence and charge +1 (oxonium, ammonium)
    bondkinds = ['single', 'double', 'triple', 'any', 'ring', 'nonring', 'strong', 'aromatic']
    molprefixes = [None, 'positive', 'negative', 'neutral', 'cyclic', 'linear', 'olefinic', 'paraffinic', 'neutral cyclic']

    def sym_ok(sym, a):
        z = a.GetAtomicNum()
        return {'$': z > 0, 'X': z > 1, '&': z in (7, 8, 15, 16)}.get(sym, a.GetSymbol() == sym)

    def type_ok(t, a):
        pre, sym, suf = t
        if not sym_ok(sym, a):
            return False
        if pre == 'ringatom' and not a.IsInRing():
            return False
        if pre == 'nonringatom' and a.IsInRing():
            return False
        if pre == 'aromatic' and not a.GetIsAromatic():
            return False
        if pre == 'nonaromatic' and a.GetIsAromatic():
            return False
        if pre == 'allylic' and not any(b.GetBondType() == Chem.BondType.DOUBLE for b in a.GetBonds()):
            return False
        rad, chg = a.GetNumRadicalElectrons(), a.GetFormalCharge()
        if suf is None:
            return rad == 0 and chg == 0
        if suf == '*':
            return chg == 1 and a.GetTotalValence() == Chem.GetPeriodicTable().GetDefaultValence(a.GetAtomicNum()) + 1
        return {'.': rad == 1, ':': rad == 2, '+': chg == 1, '-': chg == -1, '?': True, '+.': rad == 1 and chg == 1}[suf]

    def bond_ok(kind, b):
        t = b.GetBondType()
        BT = Chem.BondType
        return {'single': t == BT.SINGLE, 'double': t == BT.DOUBLE, 'triple': t == BT.TRIPLE, 'aromatic': t == BT.AROMATIC, 'any': True,
                'ring': b.IsInRing(), 'nonring': not b.IsInRing(), 'strong': t in (BT.DOUBLE, BT.TRIPLE, BT.QUADRUPLE, BT.AROMATIC)}[kind]

    def cons_ok(c, a, m):
        if c is None:
            return True
        kind = c[0]
        if kind == 'conn':
            _, neg, op, n, t, bk = c
            cnt = sum(1 for b in a.GetBonds() if type_ok(t, b.GetOtherAtom(a)) and bond_ok(bk, b))
            return ops[op](cnt, n) != neg
        rings = [r for r in m.GetRingInfo().AtomRings() if a.GetIdx() in r]
        if kind == 'ringsize':
            _, neg, op, n = c
            return any(ops[op](len(r), n) for r in rings) != neg
        if kind == 'nring':
            _, neg, op, n = c
            return ops[op](len(rings), n) != neg
        if kind == 'radical':
            _, neg, op, n = c
            return ops[op](a.GetNumRadicalElectrons(), n) != neg

    def molprefix_ok(p, m):
        if p is None:
            return True
        ok = True
        for w in p.split():
            tot = sum(a.GetFormalCharge() for a in m.GetAtoms())
            nr = m.GetRingInfo().NumRings()
            cc = m.HasSubstructMatch(Chem.MolFromSmiles('C=C'))
            ok = ok and {'positive': tot == 1, 'negative': tot == -1, 'neutral': tot == 0, 'cyclic': nr > 0, 'linear': nr == 0, 'olefinic': cc, 'paraffinic': not cc}[w]
        return ok

    def text_type(t):
        pre, sym, suf = t
        return ((pre + ' ') if pre else '') + sym + (suf or '')

    def text_cons(c):
        if c is None:
            return ''
        kind = c[0]
        neg = '! ' if c[1] else ''
        num = lambda op, n, dflt: '' if (op, n) == dflt else ((op if op != '=' or rnd.random() < 0.5 else '') + str(n) + ' ')
        if kind == 'conn':
            _, _, op, n, t, bk = c
            return '{%sconnected to %s%s%s}' % (neg, num(op, n, ('>=', 1)), text_type(t), '' if bk == 'single' and rnd.random() < 0.5 else ' with %s bond' % bk)
        if kind == 'ringsize':
            return '{%sin ring of size %s%d}' % (neg, c[2] if c[2] != '=' else '', c[3])
        if kind == 'nring':
            return '{%sin %s%d ring}' % (neg, c[2] if c[2] != '=' else '', c[3])
        return '{%shas %s%d radical electrons}' % (neg, c[2] if c[2] != '=' else '', c[3])

    def all_constraints():
        out = [None]
        for neg in (False, True):
            for op, n in (('>=', 1), ('=', 2), ('>', 1), ('<', 2), ('<=', 0), ('=', 0)):
                for t in ((None, 'C', None), (None, 'H', None), (None, 'O', None), (None, '$', '?'), (None, 'C', '.')):
                    for bk in ('single', 'double', 'any'):
                        out.append(('conn', neg, op, n, t, bk))
                out.append(('ringsize', neg, op, n + 2))
                out.append(('ringsize', neg, op, n + 4))
                out.append(('nring', neg, op, n))
                out.append(('radical', neg, op, n))
        return out
    cons = all_constraints()
    frags = []
    for sym in symbols:
        for pre in prefixes:
            for suf in suffixes:
                if suf == '*' and sym in ('$', 'X', '&'):
                    continue          # the valence of 'any atom' is not defined
                frags.append(((pre, sym, suf), None, None, None, None))
    # the same element twice in one fragment with different charge / radical suffixes, in both orders, bonded and as a neighbour constraint
    for s1, s2 in ((None, '+'), ('+', None), (None, '-'), ('-', None), (None, '.'), ('.', None), (None, '?'), ('?', None), ('+', '-')):
        for sym in ('C', 'O', 'N'):
            frags.append(((None, sym, s1), None, (None, sym, s2), 'any', None))
            frags.append(((None, sym, s1), ('conn', True, '>=', 1, (None, sym, s2), 'any'), None, None, None))
            frags.append(((None, sym, s1), ('conn', False, '>=', 1, (None, sym, s2), 'any'), None, None, None))
    for c in cons:
        for sym in ('C', 'O', '$'):
            frags.append(((None, sym, None if sym != '$' else '?'), c, None, None, None))
    for bk in bondkinds:
        for s1 in ('C', 'O', 'X'):
            for s2 in ('C', 'H', 'O', '$'):
                frags.append(((None, s1, None), None, (None, s2, '?' if s2 == '$' else None), bk, None))
    for mp in molprefixes[1:]:
        frags.append(((None, 'C', '?'), None, None, None, mp))
        frags.append(((None, 'O', '?'), ('conn', False, '>=', 1, (None, 'C', '?'), 'any'), None, None, mp))
    if tier == 'quick':
        frags = rnd.sample(frags, 220)
    viol, n, distinct, samples = [], 0, 0, []
    with real.quiet():
        for (t1, c1, t2, bk, mp) in frags:
            lab1, lab2 = rnd.choice([('c1', 'c2'), ('x', 'y_1'), ('AtomLabel', 'b')])
            sp = rnd.choice([' ', '\n  ', '\t', '\r\n', ' \r\n\t'])        # incl. Windows line endings
            text = '%sfragment f{%s%s labeled %s %s' % ((mp + ' ') if mp else '', sp, text_type(t1), lab1, text_cons(c1))
            if t2 is not None:
                text += '%s%s labeled %s %s bond to %s' % (sp, text_type(t2), lab2, bk, lab1)
            text += sp + '}'
            try:
                q = Read(text)
            except Exception as e:    # noqa
                viol.append({'id': 'read-%d' % len(viol), 'input': text, 'observed': 'Read raised %s: %s' % (type(e).__name__, e), 'expected': 'a query'})
                continue
            distinct += 1
            for smi, m in mols:
                n += 1
                want = []
                if molprefix_ok(mp, m):
                    for a in m.GetAtoms():
                        if not (type_ok(t1, a) and cons_ok(c1, a, m)):
                            continue
                        if t2 is None:
                            want.append((a.GetIdx(),))
                        else:
                            for b in a.GetBonds():
                                o = b.GetOtherAtom(a)
                                if type_ok(t2, o) and bond_ok(bk, b):
                                    want.append((a.GetIdx(), o.GetIdx()))
                try:
                    got = [tuple(x) for x in q.GetQueryMatches(eval(smi, {'Chem': Chem}))]
                except Exception as e:    # noqa
                    got = 'raised %s' % type(e).__name__
                if got == 'raised' or sorted(got) != sorted(want):
                    if _room(viol, 15):
                        viol.append({'id': 'match-%d' % len(viol), 'input': {'fragment': text, 'molecule': smi}, 'observed': got if isinstance(got, str) else sorted(got),
                                     'expected': sorted(want),
                                     'script': "from rdkit import Chem\nfrom pgradd.RINGParser.Reader import Read\nprint(Read(%r).GetQueryMatches(%s))  # expected %r\n" % (text, smi, sorted(want))})
            if len(samples) < 4 and (c1 or t2):
                samples.append(text)
    # the NAME of a label carries no meaning: labels that begin with (or are) a word of the language ('labeledx', 'tox', 'ringbondy', 'single1') denote the
    # same fragment as 'x', in every position where a label can stand (atom, bond target, both ends of a ringbond statement, constraint-free)
    ring3 = 'fragment f{ C labeled %(a)s C labeled %(b)s single bond to %(a)s C labeled %(c)s single bond to %(b)s ringbond %(first)s ring bond to %(second)s }'
    with real.quiet():
        ref3 = sorted(map(tuple, Read(ring3 % {'a': 'x', 'b': 'y', 'c': 'z', 'first': 'x', 'second': 'z'}).GetQueryMatches(Chem.MolFromSmiles('C1CC1C'))))
        for lab in ('labeledx', 'labeled_1', 'tox', 'ringbondy', 'single1', 'bondto', 'anyatom', 'fragmentf', 'connected', 'Cx', 'labeled'):
            for where in ('first', 'second'):
                names = {'a': 'x', 'b': 'y', 'c': 'z'}
                names['a' if where == 'first' else 'c'] = lab
                names.update({'first': names['a'], 'second': names['c']})
                t3 = ring3 % names
                n += 1
                try:
                    got = sorted(map(tuple, Read(t3).GetQueryMatches(Chem.MolFromSmiles('C1CC1C'))))
                except Exception as e:    # noqa
                    got = 'raised %s: %s' % (type(e).__name__, str(e)[:60])
                if got != ref3:
                    viol.append({'id': 'label-name-%s-%s' % (lab, where), 'input': {'fragment': t3, 'molecule': 'C1CC1C'}, 'observed': got, 'expected': ref3,
                                 'script': "from rdkit import Chem\nfrom pgradd.RINGParser.Reader import Read\nprint(Read(%r).GetQueryMatches(Chem.MolFromSmiles('C1CC1C')))\n" % t3})
    # layout INSIDE multi-word keywords (known finding K7): the same fragment with two blanks / a tab / a line break inside a keyword
    base_texts = ['fragment f{ C labeled c1 {connected to >1 H} }', 'fragment f{ C labeled c1 O labeled o1 single bond to c1 }', 'fragment f{ any atom labeled x {in ring of size 3} }']
    with real.quiet():
        for bt in base_texts:
            q0 = Read(bt)
            for kw in ('connected to', 'bond to', 'any atom', 'in ring of size'):
                if kw not in bt:
                    continue
                for gap in ('  ', '\t', '\n', ' \n '):
                    t2 = bt.replace(kw, kw.replace(' ', gap, 1), 1)
                    n += 1
                    try:
                        same = all(sorted(map(tuple, Read(t2).GetQueryMatches(eval(mk, {'Chem': Chem})))) == sorted(map(tuple, q0.GetQueryMatches(eval(mk, {'Chem': Chem})))) for mk, _ in mols[:8])
                        got = 'same matches' if same else 'different matches'
                    except Exception as e:    # noqa
                        got = 'Read raised %s' % type(e).__name__
                    if got != 'same matches':
                        viol.append({'id': 'keyword-layout-%d' % n, 'cls': 'K7:whitespace-inside-keyword', 'input': t2, 'observed': got, 'expected': 'the matches of %r' % bt})
    return {'name': 'brute-force-matcher', 'evaluations': n, 'distinct_nontrivial': distinct, 'violations': viol, 'samples': samples,
            'bound': '%d fragments (<= 2 atoms, <= 1 constraint, all symbol classes/prefixes/suffixes/bond kinds/operators/negation/molecule prefixes; random layout and labels) x %d molecules of <= 7 heavy atoms' % (len(frags), len(mols)),
            'rule': 'a case is (fragment, molecule); fragments distinct by construction'}


# ---------------------------------------------------------------------------------------------- C02 / C03 / C04
def _room(viol, cap):
    """the cap on reported violations counts only those that are NOT instances of a recorded finding (they must never crowd out a new one)"""
    return sum(1 for v in viol if not v.get('cls')) < cap


def _norm(d):
    return {k: v for k, v in d.items() if v != 0}


def c02_reference(tier, seed):
    """every shipped scheme read as a program by the independent interpreter (schemeref) on generated molecules: identical
    descriptors, or both fail (pattern-match failure)"""
    from . import schemeref as S
    from rdkit import Chem
    libs = real.LIBS if tier != 'quick' else ['BensonGA', 'GRWSurface2018', 'XieGA2022', 'SalciccioliGA2012']
    viol, n, distinct, samples = [], 0, 0, []
    for name in libs:
        lib = real.load(name)
        for smi in S.molecules_for(name, tier, seed):
            n += 1
            try:
                want = ('ok', _norm(S.ref_descriptors(name, smi)))
            except S.Fail as e:
                want = ('fail', str(e))
            got = S.real_descriptors(lib, smi)
            if got[0] == 'ok':
                got = ('ok', _norm(got[1]))
            same = (got[0] == want[0]) and (got[0] == 'fail' or got[1] == want[1])
            if got[0] == 'fail' and want[0] == 'fail' and got[1] != 'PatternMatchError':
                same = False
            if want[0] == 'ok':
                distinct += 1
            if not same:
                m = Chem.AddHs(Chem.MolFromSmiles(smi))
                cls = 'K2:fused-six-rings' if S.fused_six_rings(m) else None
                if _room(viol, 15) or cls:
                    viol.append({'id': '%s-%s' % (name, smi), 'cls': cls, 'input': {'library': name, 'smiles': smi}, 'observed': got, 'expected': want,
                                 'script': "import pgradd.ThermoChem\nfrom pgradd.GroupAdd.Library import GroupLibrary\nprint(dict(GroupLibrary.Load(%r).GetDescriptors(%r)))  # expected %r\n" % (name, smi, want)})
            elif len(samples) < 4 and want[0] == 'ok' and len(want[1]) > 2:
                samples.append({'library': name, 'smiles': smi, 'descriptors': want[1]})
    # synthetic scheme files (a scheme is user data): an overlapping centre pattern placed last / first, a removed pattern, and
    # smiles- / smarts-based descriptor entries with names shared with RING-based ones
    import tempfile, shutil, yaml
    from pgradd.GroupAdd.Scheme import GroupAdditivityScheme
    tmp = tempfile.mkdtemp(prefix='c02_syn_')
    try:
        for base in (['BensonGA', 'GRWSurface2018'] if tier != 'quick' else ['BensonGA']):
            d0 = yaml.safe_load(open(os.path.join(source.DATA_DIR, base, 'scheme.yaml')))
            dup = {'center_name': 'Cdup', 'periph_name': 'Cdup', 'connectivity': 'fragment a{ C labeled c1 {connected to >2 H} }'}
            variants = {'overlap-last': lambda d: d['patterns'].append(dict(dup)), 'overlap-first': lambda d: d['patterns'].insert(0, dict(dup)),
                        'pattern-removed': lambda d: d['patterns'].pop(0),
                        # remap rules with a negative and a zero coefficient: linear substitution keeps negative totals
                        'negative-remap': lambda d: d.setdefault('remaps', {}).update({'C(C)(H)3': [[1, 'Methyl'], [-0.5, 'Penalty'], [0, 'Nothing']]}),
                        # chained rules (the target of one is the key of another) and a descriptor that carries the name of a group: one linear substitution, names add up
                        'chained-remap': lambda d: d.setdefault('remaps', {}).update({'C(H)3(O)': [[1, 'C(C)(H)3']], 'C(C)(H)3': [[1, 'methyl']]}),
                        # a centre pattern that constrains a NON-centre atom which is interchangeable with another pattern atom: the centre matches when SOME
                        # assignment of the other pattern atoms satisfies the constraints (whatever assignment the matcher happens to list first)
                        'constraint-on-neighbour': lambda d: d['patterns'].append({'center_name': 'Si', 'periph_name': 'Si', 'connectivity':
                                                                                    'fragment a{ Si labeled c1 C labeled c2 single bond to c1 {connected to =3 H} C labeled c3 single bond to c1 }'}),
                        'descriptor-named-as-group': lambda d: d.update({'smarts_based_descriptors': [{'name': 'C(C)(H)3', 'smarts': '[CX4][CX4]', 'useChirality': False}]}),
                        'smiles-smarts-entries': lambda d: d.update({'smiles_based_descriptors': [{'name': 'Cis', 'smarts': '[CX4][OX2H]', 'useChirality': False},
                                                                                               {'name': 'Alcohol', 'smarts': '[OX2H]', 'useChirality': False}],
                                                                      'smarts_based_descriptors': [{'name': 'Alcohol', 'smarts': '[#6][#8][#1]', 'useChirality': False}]})}
            for vn, edit in variants.items():
                d = yaml.safe_load(yaml.safe_dump(d0))
                edit(d)
                path = os.path.join(tmp, '%s_%s.yaml' % (base, vn))
                yaml.safe_dump(d, open(path, 'w'))
                try:
                    with real.quiet():
                        sch = GroupAdditivityScheme.Load(path)
                except Exception as e:    # noqa
                    viol.append({'id': 'syn-%s-%s-load' % (base, vn), 'input': {'scheme': base, 'variant': vn}, 'observed': 'Load raised %s' % type(e).__name__, 'expected': 'scheme loads'})
                    continue
                for smi in (['C', 'CC', 'CCO', 'C=C', 'CC(C)(C)C', 'OCCO', 'C=CO', 'c1ccccc1', 'COCC', 'CCOC', 'CCC'] + (['C[SiH2]CC', 'CC[SiH2]C', 'C([SiH2]C)C', 'CC[SiH2]CC', 'C[SiH2]C'] if vn == 'constraint-on-neighbour' else [])
                            if base == 'BensonGA' else ['CC', 'C([Pt])C', 'CCO', 'OC([Pt])C']):
                    n += 1
                    try:
                        want = ('ok', _norm(S.ref_descriptors(base, smi, scheme_path=path)))
                    except S.Fail as e:
                        want = ('fail', str(e))
                    try:
                        with real.quiet():
                            got = ('ok', _norm({str(k): v for k, v in sch.GetDescriptors(smi).items()}))
                    except Exception as e:    # noqa
                        got = ('fail', type(e).__name__)
                    same = (got[0] == want[0]) and (got[0] == 'fail' and got[1] == 'PatternMatchError' or got[0] == 'ok' and got[1] == want[1])
                    if want[0] == 'ok':
                        distinct += 1
                    if not same and _room(viol, 25):
                        viol.append({'id': 'syn-%s-%s-%s' % (base, vn, smi), 'input': {'scheme': base, 'variant': vn, 'smiles': smi}, 'observed': got, 'expected': want})
    finally:
        shutil.rmtree(tmp, ignore_errors=True)
    return {'name': 'scheme-reference-interpreter', 'evaluations': n, 'distinct_nontrivial': distinct, 'violations': viol, 'samples': samples,
            'bound': 'generated molecules (<= 3-4 heavy atoms over C/O, rings, multiple bonds + curated aromatics/radicals/adsorbates) x %d schemes' % len(libs),
            'rule': 'a case is (scheme, molecule); non-trivial = decomposable by the reference interpreter'}


def c03_spellings(tier, seed):
    """the same molecule written differently: random atom orders / branch orders / ring closures, explicit hydrogens, Kekule vs
    aromatic spelling, molecule object vs string -> identical descriptors or the same failure"""
    from . import schemeref as S
    from rdkit import Chem
    rnd = random.Random(seed)
    libs = real.LIBS if tier != 'quick' else ['BensonGA', 'GRWSurface2018', 'XieGA2022', 'PPY']
    k = 6 if tier == 'quick' else 25
    viol, n, distinct, samples = [], 0, 0, []
    for name in libs:
        lib = real.load(name)
        for smi in S.molecules_for(name, tier, seed):
            base = S.real_descriptors(lib, smi)
            m = Chem.MolFromSmiles(smi)
            forms = [('random', s) for s in S.random_smiles(smi, k, seed)]
            mh = Chem.AddHs(m)
            forms.append(('explicit-H', Chem.MolToSmiles(mh, allHsExplicit=True)))
            try:
                mk = Chem.Mol(m)
                Chem.Kekulize(mk, clearAromaticFlags=True)
                forms.append(('kekule', Chem.MolToSmiles(mk, kekuleSmiles=True)))
            except Exception:    # noqa
                pass
            forms.append(('mol-object', Chem.MolFromSmiles(smi)))
            # molecule objects the caller keeps using: the SAME object handed over twice (all hydrogens explicit, so nothing has to be added), and
            # the object must come back unchanged (no atom properties, no changed bond types or aromatic flags)
            keep = Chem.AddHs(Chem.MolFromSmiles(smi))
            snap = (Chem.MolToSmiles(keep), [sorted(a.GetPropNames()) for a in keep.GetAtoms()], [str(b.GetBondType()) for b in keep.GetBonds()],
                    [a.GetIsAromatic() for a in keep.GetAtoms()])
            forms.append(('mol-object-explicit-H first use', keep))
            forms.append(('mol-object-explicit-H second use of the same object', keep))
            distinct += 1
            fused = S.fused_six_rings(mh)
            for kind, f in forms:
                n += 1
                got = S.real_descriptors(lib, f)
                if got != base:
                    cls = 'K2:fused-six-rings' if fused else None
                    if _room(viol, 15) or cls:
                        viol.append({'id': '%s-%s-%s' % (name, smi, kind), 'cls': cls, 'input': {'library': name, 'molecule': smi, 'form': kind, 'written': f if isinstance(f, str) else 'Chem.Mol'},
                                     'observed': got, 'expected': base,
                                     'script': "import pgradd.ThermoChem\nfrom pgradd.GroupAdd.Library import GroupLibrary\nlib = GroupLibrary.Load(%r)\nprint(dict(lib.GetDescriptors(%r)))\nprint(dict(lib.GetDescriptors(%r)))\n"
                                               % (name, smi, f if isinstance(f, str) else smi)})
            n += 1
            now = (Chem.MolToSmiles(keep), [sorted(a.GetPropNames()) for a in keep.GetAtoms()], [str(b.GetBondType()) for b in keep.GetBonds()],
                   [a.GetIsAromatic() for a in keep.GetAtoms()])
            if now != snap and _room(viol, 15):
                viol.append({'id': '%s-%s-caller-object-modified' % (name, smi), 'input': {'library': name, 'molecule object': 'Chem.AddHs(Chem.MolFromSmiles(%r))' % smi},
                             'observed': 'the molecule object handed to GetDescriptors was modified (atom properties / bond types / aromatic flags)', 'expected': 'the caller\'s object is left as it was',
                             'script': "import pgradd.ThermoChem\nfrom rdkit import Chem\nfrom pgradd.GroupAdd.Library import GroupLibrary\nlib = GroupLibrary.Load(%r)\nm = Chem.AddHs(Chem.MolFromSmiles(%r))\nprint(dict(lib.GetDescriptors(m)))\nprint(dict(lib.GetDescriptors(m)))   # expected the same again\n" % (name, smi)})
            if len(samples) < 3:
                samples.append({'library': name, 'molecule': smi, 'spellings': [f for kd, f in forms if isinstance(f, str)][:4]})
    return {'name': 'spelling-invariance', 'evaluations': n, 'distinct_nontrivial': distinct, 'violations': viol, 'samples': samples,
            'bound': '%d random spellings + explicit-H + Kekule + molecule-object per generated molecule x %d schemes' % (k, len(libs)),
            'rule': 'a case is (molecule, spelling); molecules distinct'}


def c04_mixtures(tier, seed):
    """descriptors('A.B') = descriptors(A) + descriptors(B) (self-pairs included); a failing component makes the pair fail;
    estimated H/RT, S/R, Cp/R of the pair are the sums"""
    from . import schemeref as S
    rnd = random.Random(seed)
    libs = real.LIBS if tier != 'quick' else ['BensonGA', 'GRWSurface2018', 'XieGA2022']
    viol, n, distinct, samples = [], 0, 0, []
    for name in libs:
        lib = real.load(name)
        ms = S.molecules_for(name, tier, seed)
        ms = ms if tier != 'quick' else rnd.sample(ms, min(14, len(ms)))
        single = {s: S.real_descriptors(lib, s) for s in ms}
        pairs = [(a, b) for a in ms for b in ms] if tier != 'quick' else [(a, b) for a in ms for b in rnd.sample(ms, 4)] + [(a, a) for a in ms]
        if name not in S.SURFACE:
            # ring-bearing components in both orders (a component's rings must not influence how the other's rings are judged)
            forced = [('C1CCOCC1', 'c1ccccc1'), ('c1ccccc1', 'C1CCOCC1'), ('C1CC1', 'C1CC1'), ('C1CCCCC1', 'c1ccccc1'), ('C1CCCC1', 'Cc1ccccc1'), ('c1ccccc1', 'c1ccccc1')]
            for a, b in forced:
                for x in (a, b):
                    if x not in single:
                        single[x] = S.real_descriptors(lib, x)
            pairs = forced + pairs
        # components whose decomposition is EMPTY (every atom has a centre named 'none': dioxygen, a bare metal atom, hydrogen on the metal): they decompose,
        # alone and in a mixture, and add nothing
        empties = ['O=O'] + (['[%s]' % S.SURFACE[name], '[H][%s]' % S.SURFACE[name]] if name in S.SURFACE else [])
        others = [m_ for m_ in ms if m_ not in empties][:3]
        extra = [(e_, e_) for e_ in empties] + [(e_, o_) for e_ in empties for o_ in others] + [(o_, e_) for e_ in empties for o_ in others[:1]]
        for a, b in extra:
            for x in (a, b):
                if x not in single:
                    single[x] = S.real_descriptors(lib, x)
        # a component that cannot be decomposed makes the mixture fail wherever it stands -- also behind species that RDKit keeps as explicit hydrogen atoms
        # ([H][H], [H]: their atoms come FIRST in the atom list, before any heavy atom)
        undecomposable = [x for x in ('N', 'CN', 'C[Si]', 'S') if S.real_descriptors(lib, x)[0] == 'fail'][:2]
        for u_ in undecomposable:
            for o_ in ('[H][H]', '[H]', 'CC'):
                extra += [(o_, u_), (u_, o_)]
        for a, b in extra:
            for x in (a, b):
                if x not in single:
                    single[x] = S.real_descriptors(lib, x)
        pairs = extra + pairs
        for a, b in pairs:
            n += 1
            got = S.real_descriptors(lib, a + '.' + b)
            da, db = single[a], single[b]
            if da[0] == 'ok' and db[0] == 'ok':
                want = dict(da[1])
                for k_, v in db[1].items():
                    want[k_] = want.get(k_, 0) + v
                ok = got[0] == 'ok' and _norm(got[1]) == _norm(want)
                distinct += 1
                if ok and (n % 7 == 0):
                    # estimates add up
                    lib.name = a + '.' + b
                    try:
                        with real.quiet():
                            ea, eb, ep = lib.Estimate(da[1], 'thermochem'), lib.Estimate(db[1], 'thermochem'), lib.Estimate(got[1], 'thermochem')
                            r = ep.get_range() or (298.15, 298.15)
                            T = r[0]
                            for mth in ('get_HoRT', 'get_SoR', 'get_CpoR'):
                                x, y, z = real.outcome(getattr(ea, mth), T), real.outcome(getattr(eb, mth), T), real.outcome(getattr(ep, mth), T)
                                if x[0] == y[0] == z[0] == 'ok' and not real.close(x[1] + y[1], z[1], 1e-9, 1e-9):
                                    ok = False
                                    want = ('estimate', mth, x[1] + y[1])
                                    got = ('estimate', mth, z[1])
                    except Exception:    # noqa  (missing data for a group: outside this property)
                        pass
            else:
                want = ('fail', 'a component cannot be decomposed')
                ok = got[0] == 'fail'
            if not ok and _room(viol, 15):
                viol.append({'id': '%s-%s.%s' % (name, a, b), 'input': {'library': name, 'A': a, 'B': b}, 'observed': got, 'expected': want,
                             'script': "import pgradd.ThermoChem\nfrom pgradd.GroupAdd.Library import GroupLibrary\nlib = GroupLibrary.Load(%r)\nfor s in (%r, %r, %r): print(dict(lib.GetDescriptors(s)))\n" % (name, a, b, a + '.' + b)})
        if len(samples) < 3 and pairs:
            samples.append({'library': name, 'pair': list(pairs[0])})
        # the documented sequence GetDescriptors -> Estimate -> property, for A, B and 'A.B', TWICE on the same library object (a table with a second
        # temperature row): every property of the pair, the ones taken relative to the elements included, is the sum of the components' -- in every pass
        good = [(a, b) for a, b in pairs if single.get(a, ('fail',))[0] == 'ok' and single.get(b, ('fail',))[0] == 'ok' and a != b and single[a][1] and single[b][1]][:3]
        for a, b in good:
            for pas, T in ((1, 298.15), (2, 400.0), (3, 500.0)):
                vals = {}
                for x in (a, b, a + '.' + b):
                    try:
                        with real.quiet():
                            est = lib.Estimate(lib.GetDescriptors(x), 'thermochem')
                            vals[x] = [real.outcome(est.get_HoRT, T), real.outcome(est.get_SoR, T), real.outcome(lambda t: est.get_SoR(t, S_elements=True), T),
                                       real.outcome(lambda t: est.get_GoRT(t, S_elements=True), T)]
                    except Exception as e_:    # noqa  (missing data for a group: outside this property)
                        vals[x] = None
                n += 1
                if any(v is None for v in vals.values()):
                    continue
                for i_, what in enumerate(('H/RT', 'S/R', 'S/R relative to the elements', 'G/RT relative to the elements')):
                    x, y, z = vals[a][i_], vals[b][i_], vals[a + '.' + b][i_]
                    if x[0] == y[0] == z[0] == 'ok' and not real.close(x[1] + y[1], z[1], 1e-9, 1e-9) and _room(viol, 15):
                        viol.append({'id': '%s-%s.%s-pass%d-%s' % (name, a, b, pas, what.split()[0]), 'cls': 'pair-property-not-the-sum', 'input': {'library': name, 'A': a, 'B': b, 'T': T, 'pass': pas, 'property': what},
                                     'observed': z[1], 'expected': x[1] + y[1],
                                     'script': "import pgradd.ThermoChem\nfrom pgradd.GroupAdd.Library import GroupLibrary\nlib = GroupLibrary.Load(%r)\nfor T in (298.15, 400.0, 500.0):\n    print([lib.Estimate(lib.GetDescriptors(s), 'thermochem').get_SoR(T, S_elements=True) for s in (%r, %r, %r)])\n" % (name, a, b, a + '.' + b)})
    # a user scheme with an AMBIGUOUS centre (two patterns match one atom) next to patterns listed after it: whether a species is rejected must not depend
    # on what it is mixed with
    import tempfile, shutil, yaml
    from pgradd.GroupAdd.Scheme import GroupAdditivityScheme
    tmp = tempfile.mkdtemp(prefix='c04_syn_')
    try:
        d = yaml.safe_load(open(os.path.join(source.DATA_DIR, 'BensonGA', 'scheme.yaml')))
        d['patterns'].append({'center_name': 'Cq', 'periph_name': 'C', 'connectivity': 'fragment a{ C labeled c1 {connected to =4 C} }'})
        d['patterns'].append({'center_name': 'N', 'periph_name': 'N', 'connectivity': 'fragment a{ N labeled c1 }'})
        path = os.path.join(tmp, 'ambiguous.yaml')
        yaml.safe_dump(d, open(path, 'w'))
        with real.quiet():
            sch = GroupAdditivityScheme.Load(path)

        def dec(smi):
            try:
                with real.quiet():
                    return ('ok', _norm({str(k_): v_ for k_, v_ in sch.GetDescriptors(smi).items()}))
            except Exception as e_:    # noqa
                return ('fail', type(e_).__name__)
        comps = ['CC(C)(C)C', 'CC', 'O', 'N', 'CN', 'CCO', 'CC(C)(C)CC']
        alone = {c_: dec(c_) for c_ in comps}
        for a in comps:
            for b in comps:
                n += 1
                got = dec(a + '.' + b)
                if alone[a][0] == 'ok' and alone[b][0] == 'ok':
                    want = dict(alone[a][1])
                    for k_, v_ in alone[b][1].items():
                        want[k_] = want.get(k_, 0) + v_
                    ok = got[0] == 'ok' and got[1] == _norm(want)
                    distinct += 1
                else:
                    want = ('fail', 'a component cannot be decomposed')
                    ok = got[0] == 'fail'
                if not ok and _room(viol, 15):
                    viol.append({'id': 'ambiguous-scheme-%s.%s' % (a, b), 'input': {'scheme': 'BensonGA + a quaternary-carbon pattern + a nitrogen pattern', 'A': a, 'B': b, 'alone': [alone[a], alone[b]]},
                                 'observed': got, 'expected': want})
    finally:
        shutil.rmtree(tmp, ignore_errors=True)
    return {'name': 'mixture-additivity', 'evaluations': n, 'distinct_nontrivial': distinct, 'violations': viol, 'samples': samples,
            'bound': 'ordered pairs (incl. self-pairs) of generated molecules x %d schemes' % len(libs),
            'rule': 'a case is (scheme, A, B); non-trivial = both components decomposable'}


# ---------------------------------------------------------------------------------------------- C16 / C17
C16_RULES = [
    # (name, reactant pattern, edits as (kind, labels...), text of the edits)
    ('CH-scission', 'C labeled c1 H labeled h1 single bond to c1', [('break', 'c1', 'h1'), ('rad+', 'c1'), ('rad+', 'h1')]),
    ('CC-scission', 'C labeled c1 C labeled c2 single bond to c1', [('break', 'c1', 'c2'), ('rad+', 'c1'), ('rad+', 'c2')]),
    ('OH-scission', 'O labeled o1 H labeled h1 single bond to o1', [('rad+', 'o1'), ('break', 'o1', 'h1'), ('rad+', 'h1')]),
    ('pi-formation', 'C. labeled c1 C. labeled c2 single bond to c1', [('inc', 'c1', 'c2'), ('rad-', 'c1'), ('rad-', 'c2')]),
    ('pi-formation-set', 'C. labeled c1 C. labeled c2 single bond to c1', [('inc', 'c1', 'c2'), ('radset', 'c1', 0), ('radset', 'c2', 0)]),
    ('pi-opening', 'C labeled c1 C labeled c2 double bond to c1', [('dec', 'c1', 'c2'), ('rad+', 'c1'), ('rad+', 'c2')]),
    ('ring-closure', 'C. labeled c1 C labeled c2 single bond to c1 C. labeled c3 single bond to c2', [('form', 'c1', 'c3'), ('rad-', 'c1'), ('rad-', 'c3')]),
    ('H-shift', 'C. labeled c1 C labeled c2 single bond to c1 H labeled h1 single bond to c2', [('break', 'c2', 'h1'), ('form', 'c1', 'h1'), ('rad-', 'c1'), ('rad+', 'c2')]),
    # patterns that leave the bond order open: the same rule object meets single, double and triple bonds, in one molecule and across molecules
    ('step-up-open', 'C. labeled c1 C. labeled c2 any bond to c1', [('inc', 'c1', 'c2'), ('rad-', 'c1'), ('rad-', 'c2')]),
    ('step-down-open', 'C labeled c1 C labeled c2 strong bond to c1', [('dec', 'c1', 'c2'), ('rad+', 'c1'), ('rad+', 'c2')]),
]


def _edit_text(e):
    k = e[0]
    return {'break': 'break bond (%s, %s)', 'form': 'form bond (%s, %s)', 'inc': 'increase bond order (%s, %s)', 'dec': 'decrease bond order (%s, %s)',
            'rad+': 'increase number of radical (%s)', 'rad-': 'decrease number of radical (%s)', 'radset': 'modify number of radical (%s, %s)'}[k] % tuple(e[1:])


def c16_rewriter(tier, seed):
    """unimolecular rules (reactant fragment + balanced or deliberately unbalanced edit sequence) on small molecules: one product set
    per match, each the reactant with exactly the declared edits (independent rewriter on the matched atoms), elements conserved;
    unbalanced rules rejected when read"""
    from rdkit import Chem
    from pgradd.RINGParser.Reader import Read
    from pgradd.Error import RINGReaderError
    rnd = random.Random(seed)
    # (the same species also under other atom orders: a rule object is run on all of them, one after the other)
    smiles = ['C', 'CC', 'CCC', 'C=C', 'CCO', 'OCC', 'C(O)C', 'CO', 'OC', 'C=CC', 'CC=C', '[CH2][CH2]', '[CH2]C[CH2]', '[CH2]C', '[CH2]CC', 'C[CH][CH2]', 'OO', 'C1CC1',
              '[CH]=[CH]', '[CH2][CH]=[CH][CH2]', 'C#C', 'C=CC#C', '[CH2][CH][C]=[CH]']
    viol, n, distinct, samples = [], 0, 0, []
    BT = Chem.BondType
    order = [BT.SINGLE, BT.DOUBLE, BT.TRIPLE, BT.QUADRUPLE]

    def rewrite(mh, labels, match, edits):
        m = Chem.RWMol(mh)
        at = dict(zip(labels, match))
        for e in edits:
            if e[0] == 'break':
                m.RemoveBond(at[e[1]], at[e[2]])
            elif e[0] == 'form':
                m.AddBond(at[e[1]], at[e[2]], BT.SINGLE)
            elif e[0] in ('inc', 'dec'):
                b = m.GetBondBetweenAtoms(at[e[1]], at[e[2]])
                i = order.index(b.GetBondType()) + (1 if e[0] == 'inc' else -1)
                m.RemoveBond(at[e[1]], at[e[2]])
                if i >= 0:
                    m.AddBond(at[e[1]], at[e[2]], order[i])
            else:
                a = m.GetAtomWithIdx(at[e[1]])
                r = a.GetNumRadicalElectrons()
                a.SetNumRadicalElectrons(r + 1 if e[0] == 'rad+' else (r - 1 if e[0] == 'rad-' else e[2]))
        return m

    def canon(mol):
        frs = Chem.GetMolFrags(mol, asMols=True, sanitizeFrags=False)
        return sorted(Chem.MolToSmiles(f) for f in frs)

    def formula(mol):
        from collections import Counter
        return Counter(a.GetSymbol() for a in mol.GetAtoms())
    with real.quiet():
        for name, patt, edits in C16_RULES:
            toks = patt.split()
            labels = [toks[i + 1] for i, w in enumerate(toks) if w == 'labeled']
            text = 'rule %s{ reactant r1{ %s } %s }' % (name.replace('-', '_'), patt, ' '.join(_edit_text(e) for e in edits))
            try:
                q = Read(text)
            except Exception as e:    # noqa
                viol.append({'id': 'read-' + name, 'input': text, 'observed': '%s: %s' % (type(e).__name__, str(e)[:100]), 'expected': 'a balanced rule is readable'})
                continue
            distinct += 1
            frag = Read('fragment f{ %s }' % patt)
            for smi in smiles:
                n += 1
                mol = Chem.MolFromSmiles(smi)
                mh = Chem.AddHs(mol)
                matches = frag.GetQueryMatches(mol)
                want = sorted(canon(rewrite(mh, labels, m, edits)) for m in matches)
                try:
                    prods = q.RunReactants(Chem.MolFromSmiles(smi))
                    got = sorted(sorted(Chem.MolToSmiles(f) for f in ps) for ps in prods)
                    cons = all(sum((formula(f) for f in ps), type(formula(mh))()) == formula(mh) for ps in prods)
                except Exception as e:    # noqa
                    got, cons = 'raised %s: %s' % (type(e).__name__, str(e)[:80]), True
                if got != want or not cons:
                    if _room(viol, 12):
                        viol.append({'id': '%s-%s' % (name, smi), 'input': {'rule': text, 'molecule': smi}, 'observed': got if cons else ['elements not conserved', got], 'expected': want,
                                     'script': "from rdkit import Chem\nfrom pgradd.RINGParser.Reader import Read\nq = Read(%r)\nprint([[Chem.MolToSmiles(f) for f in ps] for ps in q.RunReactants(Chem.MolFromSmiles(%r))])\n" % (text, smi)})
                elif len(samples) < 3 and want:
                    samples.append({'rule': name, 'molecule': smi, 'product_sets': want[:2]})
            # deliberately unbalanced variants: drop one radical/charge edit, or duplicate one
            for i, e in enumerate(edits):
                if e[0] not in ('rad+', 'rad-', 'radset'):
                    continue
                n += 1
                bad = edits[:i] + edits[i + 1:]
                t2 = 'rule x{ reactant r1{ %s } %s }' % (patt, ' '.join(_edit_text(x) for x in bad))
                try:
                    Read(t2)
                    viol.append({'id': 'unbalanced-%s-%d' % (name, i), 'input': t2, 'observed': 'accepted', 'expected': 'RINGReaderError (electron balance)'})
                except RINGReaderError:
                    pass
                except Exception as ex:    # noqa
                    viol.append({'id': 'unbalanced-%s-%d' % (name, i), 'input': t2, 'observed': type(ex).__name__, 'expected': 'RINGReaderError (electron balance)'})
    # unbalanced rules whose per-atom imbalances CANCEL in the total (what one labelled atom gains another loses): still rejected
    frag = 'C labeled c1  C labeled c2 single bond to c1  H labeled h1 single bond to c2'
    # half-electron imbalances (aromatic bond = 1.5 per end): still an imbalance
    for name_, patt_, edits_ in (('single-to-aromatic-one-radical', 'C. labeled c1 C. labeled c2 single bond to c1', 'modify bond (c1, c2, aromatic) decrease number of radical (c1)'),
                                 ('aromatic-formed-two-radicals', 'C. labeled c1 C labeled x single bond to c1 C. labeled c2 single bond to x', 'form aromatic bond (c1, c2) decrease number of radical (c1) decrease number of radical (c2)'),
                                 ('aromatic-broken-one-radical-each', 'C labeled c1 C labeled c2 aromatic bond to c1', 'break aromatic bond (c1, c2) increase number of radical (c1) increase number of radical (c2)')):
        n += 1
        t2 = 'rule x{ reactant r1{ %s } %s }' % (patt_, edits_)
        try:
            Read(t2)
            viol.append({'id': 'half-electron-%s' % name_, 'input': t2, 'observed': 'accepted', 'expected': 'rejected (a labelled atom is half an electron off)',
                         'script': "from pgradd.RINGParser.Reader import Read\nRead(%r)   # expected RINGReaderError\n" % t2})
        except (RINGReaderError, NotImplementedError):
            pass
        except Exception as ex:    # noqa
            viol.append({'id': 'half-electron-%s' % name_, 'input': t2, 'observed': type(ex).__name__, 'expected': 'RINGReaderError'})
    # a pattern may use one label for several atoms (hydrogens nobody refers to): the edits still land on the atoms they name
    rep = 'rule r{ reactant r1{ C labeled c1 H labeled h single bond to c1 H labeled h single bond to c1 C labeled c2 single bond to c1 } break bond (c1, c2) increase number of radical (c1) increase number of radical (c2) }'
    dis = rep.replace('H labeled h single bond to c1 H labeled h ', 'H labeled h single bond to c1 H labeled g ')
    with real.quiet():
        for smi in ('CC', 'CCC', 'CCO'):
            n += 1
            try:
                a_ = sorted(sorted(Chem.MolToSmiles(f) for f in ps) for ps in Read(rep).RunReactants(Chem.MolFromSmiles(smi)))
                b_ = sorted(sorted(Chem.MolToSmiles(f) for f in ps) for ps in Read(dis).RunReactants(Chem.MolFromSmiles(smi)))
            except Exception as ex:    # noqa
                a_, b_ = 'raised %s' % type(ex).__name__, None
            if a_ != b_:
                viol.append({'id': 'repeated-label-%s' % smi, 'input': {'rule': rep, 'molecule': smi}, 'observed': a_, 'expected': b_,
                             'script': "from rdkit import Chem\nfrom pgradd.RINGParser.Reader import Read\nprint([[Chem.MolToSmiles(f) for f in ps] for ps in Read(%r).RunReactants(Chem.MolFromSmiles(%r))])\n" % (rep, smi)})
    # an untyped 'break bond' means a single bond: on a double- or triple-bond pattern one radical per end does not balance it
    for bk in ('double', 'triple'):
        n += 1
        t2 = 'rule x{ reactant r1{ C labeled c1 C labeled c2 %s bond to c1 } break bond (c1, c2) increase number of radical (c1) increase number of radical (c2) }' % bk
        try:
            Read(t2)
            viol.append({'id': 'untyped-break-of-%s-bond' % bk, 'input': t2, 'observed': 'accepted', 'expected': 'RINGReaderError (bond does not match / electrons unbalanced)',
                         'script': "from pgradd.RINGParser.Reader import Read\nRead(%r)   # expected RINGReaderError\n" % t2})
        except RINGReaderError:
            pass
        except Exception as ex:    # noqa
            viol.append({'id': 'untyped-break-of-%s-bond' % bk, 'input': t2, 'observed': type(ex).__name__, 'expected': 'RINGReaderError'})
    for name_, edits_ in (('move-H', 'break bond (c2, h1) form bond (c1, h1)'),
                          ('radical-shift', 'increase number of radical (c1) decrease number of radical (c2)'),
                          ('wrong-atom', 'break bond (c2, h1) increase number of radical (c1) increase number of radical (h1)'),
                          ('order-vs-break', 'increase bond order (c1, c2) break bond (c2, h1)')):
        n += 1
        t2 = 'rule x{ reactant r1{ %s } %s }' % (frag, edits_)
        try:
            Read(t2)
            viol.append({'id': 'cancelling-imbalance-%s' % name_, 'input': t2, 'observed': 'accepted', 'expected': 'RINGReaderError (electron balance of each labelled atom)',
                         'script': "from pgradd.RINGParser.Reader import Read\nRead(%r)   # expected RINGReaderError\n" % t2})
        except RINGReaderError:
            pass
        except Exception as ex:    # noqa
            viol.append({'id': 'cancelling-imbalance-%s' % name_, 'input': t2, 'observed': type(ex).__name__, 'expected': 'RINGReaderError (electron balance)'})
    # K10 (recorded finding): the reader books every edit against the bond / radical count the PATTERN declares, not against the state the earlier edits
    # of the same rule left.  A second edit on the same bond or atom is therefore mis-booked: unbalanced rules are read, balanced ones refused.
    # The verdict expected below is the one of a reader that follows the edits in order; where the rule is read, its effect on a molecule is shown.
    P_ = 'C labeled c1 C labeled c2 single bond to c1'
    H_ = 'C labeled c1 H labeled h single bond to c1'
    k10 = [('increase-then-break', P_, 'increase bond order (c1, c2) break bond (c1, c2)', 'rejected', 'CC'),          # 1 -> 2 -> no bond, no radical: each carbon one electron short
           ('break-twice', P_, 'break bond (c1, c2) break bond (c1, c2) increase number of radical (c1) increase number of radical (c1) increase number of radical (c2) increase number of radical (c2)', 'rejected', 'CC'),
           ('radical-set-after-increase', H_, 'break bond (c1, h) increase number of radical (h) increase number of radical (c1) modify number of radical (c1, 0)', 'rejected', 'C'),
           ('double-then-single', P_, 'modify bond (c1, c2, double) modify bond (c1, c2, single)', 'accepted', 'CC'),       # net no-op: balanced
           ('radical-set-twice', H_, 'modify number of radical (c1, 1) modify number of radical (c1, 0)', 'accepted', 'C')]  # net no-op: balanced
    with real.quiet():
        for name_, patt_, edits_, want_, smi_ in k10:
            n += 1
            t2 = 'rule x{ reactant r1{ %s } %s }' % (patt_, edits_)
            try:
                q_ = Read(t2)
                got_ = 'accepted'
            except RINGReaderError:
                got_ = 'rejected'
            except Exception as ex:    # noqa
                got_ = 'raised %s' % type(ex).__name__
            if got_ != want_:
                effect = None
                if got_ == 'accepted':
                    try:
                        effect = sorted(sorted(Chem.MolToSmiles(f) for f in ps) for ps in q_.RunReactants(Chem.MolFromSmiles(smi_)))[:2]
                    except Exception as ex:    # noqa
                        effect = 'RunReactants raised %s' % type(ex).__name__
                viol.append({'id': 'sequential-booking-%s' % name_, 'cls': 'K10:edits-booked-against-declared-state', 'input': t2, 'observed': [got_, {'products of ' + smi_: effect}],
                             'expected': want_ + ' (electron balance of each labelled atom, edits taken in order)'})
    # K12 (recorded finding): a balanced rule that declares a second reactant as a duplicate of the first (a construct of the grammar) can be read
    dup_ = ('rule r{ reactant r1{ C labeled c1 H labeled h1 single bond to c1 } reactant r2 duplicates r1 ( c1 => c2, h1 => h2 ) '
            'break bond (%s, %s) increase number of radical (%s) increase number of radical (%s) }')
    for a_, h_ in (('c1', 'h1'), ('c2', 'h2')):
        n += 1
        t2 = dup_ % (a_, h_, a_, h_)
        try:
            with real.quiet():
                Read(t2)
        except Exception as ex:    # noqa
            viol.append({'id': 'duplicates-reactant-%s' % a_, 'cls': 'K12:duplicates-reactant-unreadable', 'input': t2, 'observed': '%s: %s' % (type(ex).__name__, str(ex)[:100]),
                         'expected': 'a balanced rule is readable',
                         'script': "from pgradd.RINGParser.Reader import Read\nprint(Read(%r))   # expected: a reaction query\n" % t2})
    return {'name': 'independent-graph-rewriter', 'evaluations': n, 'distinct_nontrivial': distinct, 'violations': viol, 'samples': samples,
            'bound': '%d unimolecular rules (1-3 atom reactant, break/form/increase/decrease bond, radical +/-/set) and their unbalanced variants x %d molecules' % (len(C16_RULES), len(smiles)),
            'rule': 'a case is (rule, molecule); rules distinct'}


def c17_closure(tier, seed):
    """seeds x rule sets (reaction SMARTS): every seed present, same species set as an independent breadth-first closure keyed by
    canonical SMILES, no species twice"""
    from rdkit import Chem
    from rdkit.Chem.AllChem import ReactionFromSmarts
    from rdkit.Chem.rdchem import GetPeriodicTable
    from pgradd.RDkitWrapper.GenRxnNet import GenerateRxnNet
    rules = {'CH': '[C:1][H:2]>>[C:1].[H:2]', 'CC': '[C:1][C:2]>>[C:1].[C:2]', 'OH': '[O:1][H:2]>>[O:1].[H:2]', 'CO': '[C:1][O:2]>>[C:1].[O:2]'}
    rulesets = [['CH'], ['CC'], ['CH', 'CC'], ['OH'], ['CO', 'OH']] if tier == 'quick' else [['CH'], ['CC'], ['CH', 'CC'], ['OH'], ['CO', 'OH'], ['CH', 'CO'], ['CH', 'CC', 'OH', 'CO']]
    seedsets = [['C'], ['CC'], ['CO'], ['CC', '[CH2]C'], ['C', 'CC'], ['CO', 'C']] if tier == 'quick' else [['C'], ['CC'], ['CO'], ['CC', '[CH2]C'], ['C', 'CC'], ['CO', 'C'], ['CCC'], ['CCO'], ['[CH3]', 'C']]
    # two rules that give the same new species from one reactant; seeds that carry an atom above its default valence (the valence
    # filter applies to generated species: a seed is always part of the answer)
    rulesets += [['CH', 'OH']]
    rulesets += [[], ['CH', 'CCnr']]          # no rule at all (the closure is the seeds); a rule whose SMARTS uses a ring primitive (needs ring information on products)
    rules['CCnr'] = '[C:1]!@[C:2]>>[C:1].[C:2]'
    seedsets += [['CC', 'CC'], ['C', 'CC', 'C']]          # the same species given twice among the seeds
    seedsets += [['[C-]#[O+]'], ['C[N+](=O)[O-]'], ['CS(C)=O', 'C']] if tier != 'quick' else [['[C-]#[O+]', 'C'], ['C[N+](=O)[O-]']]
    viol, n, distinct, samples = [], 0, 0, []
    pt = GetPeriodicTable()

    def norm(m):
        m = Chem.AddHs(m)
        for a in m.GetAtoms():
            a.SetNoImplicit(True)
        return m

    def key(m):
        m2 = Chem.RemoveHs(m, sanitize=False)
        try:
            Chem.SanitizeMol(m2)
        except Exception:    # noqa
            pass
        return Chem.MolToSmiles(m2)

    def closure(seeds, rs):
        rxns = [ReactionFromSmarts(rules[r]) for r in rs]
        todo = []
        for s in seeds:
            m = Chem.MolFromSmiles(s, sanitize=False)
            Chem.SanitizeMol(m)
            todo.append(norm(m))
        seen = {}
        for m in todo:
            seen.setdefault(key(m), m)
        todo = list(seen.values())
        while todo:
            m = todo.pop()
            for rx in rxns:
                for ps in rx.RunReactants((m,)):
                    for p in ps:
                        for a in p.GetAtoms():
                            a.SetNoImplicit(True)
                            a.UpdatePropertyCache(strict=False)
                        Chem.AssignRadicals(p)
                        Chem.GetSymmSSSR(p)            # products of RunReactants carry no ring information; ring primitives in a rule (@, R<n>, r<n>) are defined over the SSSR
                        if any(pt.GetDefaultValence(a.GetAtomicNum()) < a.GetTotalValence() for a in p.GetAtoms()):
                            continue
                        k = key(p)
                        if k not in seen:
                            seen[k] = p
                            todo.append(p)
            if len(seen) > 400:
                break
        return set(seen)
    # seeds that differ only in charge are different species (both are part of the answer)
    seedsets += [['N', '[NH3+]']]
    rules['NH'] = '[N:1][H:2]>>[N:1].[H:2]'
    rules['CN'] = '[C:1][N:2]>>[C:1].[N:2]'
    rules['UP'] = '[C:1][C:2]>>[C:1]=[C:2]'
    # deterministic cases of the recorded findings K8 (the generator's species comparison ignores charge and isotope: a generated species that
    # differs from a listed one only in these is dropped) and K9 (an aromatic seed and its generated Kekule form are listed as two species)
    rules['DOWN'] = '[C:1]=[C:2]>>[C:1][C:2]'
    # bond-order rules (species of unchanged size are regenerated: ethene -> the diradical -> ethene) next to seeds with the SAME number of atoms
    extra_cases = [(['C=C', 'CO'], ['UP', 'DOWN']), (['CO', 'C=C'], ['UP', 'DOWN']), (['C=C'], ['DOWN', 'UP']), (['C=CC', 'CCO'], ['DOWN', 'UP', 'CH'][:2]), (['[CH2][CH2]', 'OO'], ['UP', 'DOWN'])]
    # ring primitives that count rings / give the smallest ring size, on a fused bicycle (bicyclobutane): the ring membership of every generated species matters
    rules['r3'] = '[C;r3:1][H:2]>>[C:1].[H:2]'
    rules['R2'] = '[C;R2:1][H:2]>>[C:1].[H:2]'
    extra_cases += [(['C1C2CC12'], ['r3']), (['C1C2CC12'], ['R2']), (['[CH]1C2CC12'], ['r3'])]
    known_cases = [(['[2H]C'], ['CH'], 'K8:lax-species-identity'), (['C[NH3+]', 'N'], ['CN'], 'K8:lax-species-identity'), (['N', '[NH4+]'], ['NH'], 'K8:lax-species-identity'),
                   (['c1ccccc1', 'C1=C[CH][CH]C=C1'], ['UP'], 'K9:kekule-form-listed-twice')]
    with real.quiet():
        for seeds, rs, kcls in [(s_, r_, None) for s_ in seedsets for r_ in rulesets] + [(s_, r_, None) for s_, r_ in extra_cases] + known_cases:
            if True:
                n += 1
                try:
                    net = GenerateRxnNet(list(seeds), [rules[r] for r in rs])
                    got = [Chem.MolToSmiles(m) for m in net]
                except Exception as e:    # noqa
                    got = 'raised %s: %s' % (type(e).__name__, str(e)[:80])
                want = closure(seeds, rs)
                distinct += 1
                bad = None
                if isinstance(got, str):
                    bad = got
                else:
                    gk = [Chem.MolToSmiles(Chem.MolFromSmiles(s)) if Chem.MolFromSmiles(s) is not None else s for s in got]
                    wk = set(Chem.MolToSmiles(Chem.MolFromSmiles(s)) if Chem.MolFromSmiles(s) is not None else s for s in want)
                    if len(gk) != len(set(gk)):
                        bad = 'species listed twice: %s' % sorted(s for s in set(gk) if gk.count(s) > 1)
                    elif set(gk) != wk:
                        bad = 'species set differs: missing %s, extra %s' % (sorted(wk - set(gk)), sorted(set(gk) - wk))
                    elif not all((Chem.MolToSmiles(Chem.MolFromSmiles(s)) in set(gk)) for s in seeds):
                        bad = 'a seed is missing'
                if bad and kcls and ((kcls.startswith('K8') and bad.startswith('species set differs: missing') and bad.endswith('extra []')) or (kcls.startswith('K9') and bad.startswith('species listed twice'))):
                    viol.append({'id': '%s-%s' % ('+'.join(seeds), '+'.join(rs)), 'cls': kcls, 'input': {'seeds': seeds, 'rules': [rules[r] for r in rs]}, 'observed': [bad, got], 'expected': sorted(want)})
                elif bad and _room(viol, 16):
                    viol.append({'id': '%s-%s' % ('+'.join(seeds), '+'.join(rs)), 'input': {'seeds': seeds, 'rules': [rules[r] for r in rs]}, 'observed': bad if isinstance(got, str) else [bad, got],
                                 'expected': sorted(want),
                                 'script': "from rdkit import Chem\nfrom pgradd.RDkitWrapper.GenRxnNet import GenerateRxnNet\nprint([Chem.MolToSmiles(m) for m in GenerateRxnNet(%r, %r)])\n" % (list(seeds), [rules[r] for r in rs])})
                elif len(samples) < 3:
                    samples.append({'seeds': seeds, 'rules': rs, 'species': sorted(want)[:8]})
    # rules given as RING text, several calls in one process: the same species arriving again with its atoms in another order, the same
    # rule text used again (nothing may be carried from one call to the next)
    ring = {'CH': 'rule r{ reactant r1{ C? labeled c1 H labeled h1 single bond to c1 } break bond (c1, h1) increase number of radical (c1) increase number of radical (h1) }',
            'OH': 'rule r{ reactant r1{ O? labeled o1 H labeled h1 single bond to o1 } break bond (o1, h1) increase number of radical (o1) increase number of radical (h1) }'}
    with real.quiet():
        # a RING rule whose two carbons are described differently (radical carbon / closed-shell carbon), on both atom orders of the seed
        ring['RC'] = 'rule rc{ reactant r1{ C. labeled c1 C labeled c2 single bond to c1 } increase number of radical (c1) increase number of radical (c2) break bond (c1, c2) }'
        ring['CR'] = 'rule cr{ reactant r1{ C labeled c1 C. labeled c2 single bond to c1 } increase number of radical (c1) increase number of radical (c2) break bond (c1, c2) }'
        rules['RC'] = '[CX3:1]-[CX4:2]>>[C:1].[C:2]'
        rules['CR'] = '[CX4:1]-[CX3:2]>>[C:1].[C:2]'
        # a pattern with automorphisms (three-membered ring) whose edit is NOT symmetric under them: every mapping of the same three atoms breaks another bond
        ring['RO3'] = ('rule ro{ reactant r1{ C labeled c1 C labeled c2 single bond to c1 C labeled c3 single bond to c2 ringbond c3 single bond to c1 } '
                       'break bond (c1, c2) increase number of radical (c1) increase number of radical (c2) }')
        rules['RO3'] = '[C:1]1-[C:2]-[C:3]-1>>[C:1]-[C:3]-[C:2]'
        for rk, spellings in (('CH', ['CCO', 'OCC', 'C(O)C']), ('OH', ['OCC', 'CCO']), ('CH', ['CO', 'OC']), ('RC', ['C[CH2]', '[CH2]C']), ('CR', ['C[CH2]', '[CH2]C']),
                              ('RO3', ['CC1CC1', 'C1CC1C', 'OC1CC1', 'C1CC1'])):
            # ONE rule list object for all the calls of a row: the generator replaces its entries by parsed rule objects in place, so the later
            # calls run the very rule object the first call built
            shared_rules = [ring[rk]]
            for smi in spellings:
                n += 1
                try:
                    got = sorted(Chem.MolToSmiles(Chem.MolFromSmiles(Chem.MolToSmiles(m))) for m in GenerateRxnNet([smi], shared_rules))
                except Exception as e:    # noqa
                    got = 'raised %s: %s' % (type(e).__name__, str(e)[:80])
                want = sorted(Chem.MolToSmiles(Chem.MolFromSmiles(x)) if Chem.MolFromSmiles(x) is not None else x for x in closure([smi], [rk]))
                distinct += 1
                if got != want and _room(viol, 16):
                    viol.append({'id': 'ring-text-%s-%s' % (rk, smi), 'input': {'seed': smi, 'rule (RING text)': ring[rk], 'earlier calls in this process': 'same rule on other spellings of the species'},
                                 'observed': got, 'expected': want,
                                 'script': "from rdkit import Chem\nfrom pgradd.RDkitWrapper.GenRxnNet import GenerateRxnNet\nR = %r\nfor s in %r:\n    print(s, sorted(Chem.MolToSmiles(m) for m in GenerateRxnNet([s], [R])))\n" % (ring[rk], spellings)})
    return {'name': 'independent-bfs-closure', 'evaluations': n, 'distinct_nontrivial': distinct, 'violations': viol, 'samples': samples,
            'bound': '%d seed sets of 1..2 small molecules x %d rule sets of bond-scission SMARTS' % (len(seedsets), len(rulesets)),
            'rule': 'a case is (seed set, rule set); distinct by construction'}


# ---------------------------------------------------------------------------------------------- C15
def c15_histories(tier, seed):
    """random interleavings of {load, decompose, estimate from an earlier decomposition, evaluate (with / without the elemental
    reference), merge a library} over three libraries; every result is compared with the same single operation on freshly
    loaded objects, and the libraries' data are fingerprinted before and after"""
    import pgradd.ThermoChem  # noqa
    from pgradd.GroupAdd.Library import GroupLibrary
    rnd = random.Random(seed)
    libs = ['BensonGA', 'XieGA2022', 'GRWSurface2018']
    mols = {'BensonGA': ['CC', 'CCO', 'C=CC', 'CC(C)C', 'C1CCCCC1', 'CCCC', 'C/C=C/C', 'C/C=C\\C', 'CC=CC'],       # incl. a cis / trans / unspecified triple
 'XieGA2022': ['CC', 'CCC', '[Ru]C([Ru])C([Ru])([Ru])C', 'CC(C)(C)C'],
            'GRWSurface2018': ['C([Pt])C', '[Pt]C([Pt])C([Pt])([Pt])C=O', 'C([Pt])C[Pt]', 'C(=O)([Pt])O']}
    nhist = 6 if tier == 'quick' else 40
    viol, n, distinct, samples = [], 0, 0, []
    ref_cache = {}

    def build(rcp):
        lib = real.load(rcp[0], fresh=True)
        for other in rcp[1:]:
            with real.quiet():
                try:
                    lib.Update(real.load(other, fresh=True), overwrite=True)
                except Exception:    # noqa
                    pass
        return lib

    def fresh_ref(rcp, smi, what, T, se):
        key = (rcp, smi, what, T, se)
        if key not in ref_cache:
            lib = build(rcp)
            with real.quiet():
                d = lib.GetDescriptors(smi)
                if what == 'descriptors':
                    ref_cache[key] = ('ok', {str(k): v for k, v in d.items()})
                else:
                    ref_cache[key] = real.outcome(lambda: getattr(lib.Estimate(d, 'thermochem'), what)(T, **({'S_elements': se} if what == 'get_SoR' else {})))
        return ref_cache[key]

    def fp(lib):
        return tuple(sorted((str(g), lib[g]['thermochem'].yaml_format()) for g in lib if 'thermochem' in lib[g]))
    # scripted histories first: evaluate, merge another library INTO the evaluated one, evaluate the same thing again
    scripts = []
    for A in libs:
        for B in libs:
            if A != B:
                m0 = mols[A][0]
                ev = [{'op': 'estimate', 'name': A, 'what': w, 'se': None, 'T': 400.0} for w in ('get_SoR', 'get_HoRT', 'get_CpoR')]
                scripts.append([{'op': 'load', 'name': A}, {'op': 'decompose', 'name': A, 'smi': m0}] + ev + [{'op': 'merge-live', 'name': A, 'other': B}] + ev)
    if tier == 'quick':
        scripts = rnd.sample(scripts, 3)
    # stereo isomers of one constitution on one library object, in both orders (the answer for one must not depend on which came first)
    for order in (['C/C=C/C', 'C/C=C\\C', 'CC=CC'], ['CC=CC', 'C/C=C\\C', 'C/C=C/C']):
        scripts.append([{'op': 'load', 'name': 'BensonGA'}] + [{'op': 'decompose', 'name': 'BensonGA', 'smi': x} for x in order]
                       + [{'op': 'estimate', 'name': 'BensonGA', 'what': 'get_HoRT', 'se': None, 'T': 400.0}] * 2)
    # known finding K1, every run: the estimate of an EARLIER decomposition asked for the entropy relative to the elements after the library
    # decomposed another molecule
    scripts.append([{'op': 'load', 'name': 'BensonGA'}, {'op': 'decompose', 'name': 'BensonGA', 'smi': 'CCO'}, {'op': 'decompose', 'name': 'BensonGA', 'smi': 'CC'},
                    {'op': 'estimate', 'name': 'BensonGA', 'smi': 'CCO', 'what': 'get_SoR', 'se': True, 'T': 400.0}])
    # a batch: decompose a homologous series first (the same group NAMES in different numbers), then estimate each member from its own decomposition
    series = ['CCC', 'CCCC', 'CCCCCC']
    scripts.append([{'op': 'load', 'name': 'BensonGA'}] + [{'op': 'decompose', 'name': 'BensonGA', 'smi': x} for x in series]
                   + [{'op': 'estimate', 'name': 'BensonGA', 'smi': x, 'what': w, 'se': None, 'T': 400.0} for x in series for w in ('get_HoRT', 'get_CpoR')])
    cur = {'script': None, 'step': 0}

    def pick(field, options):
        sc = cur['script']
        if sc is not None and field in sc[cur['step']]:
            return sc[cur['step']][field]
        return rnd.choice(options)
    fp_clean = {nm: fp(real.load(nm, fresh=True)) for nm in libs}        # what a load gives before anything else happened in this process
    for h in range(nhist + len(scripts)):
        live = {}
        recipe = {}
        decomp = []      # (libname, smiles, descriptors)
        last_decomposed = {}
        cur['script'] = scripts[h] if h < len(scripts) else None
        L = len(cur['script']) if cur['script'] else (rnd.randint(2, 12) if tier == 'quick' else rnd.randint(2, 40))
        trace = []
        fps0 = {}
        for step in range(L):
            cur['step'] = step
            op = pick('op', ['load', 'decompose', 'decompose', 'estimate', 'estimate', 'estimate', 'merge', 'merge-live'])
            if op == 'load' or not live:
                name = pick('name', libs)
                live[name] = real.load(name, fresh=True)
                fps0[name] = fp(live[name])
                last_decomposed[name] = None     # a new library object has decomposed nothing yet
                recipe[name] = (name,)
                trace.append(('load', name))
                continue
            name = pick('name', list(live))
            lib = live[name]
            if op == 'decompose':
                smi = pick('smi', mols[name])
                with real.quiet():
                    d = lib.GetDescriptors(smi)
                got = ('ok', {str(k): v for k, v in d.items()})
                decomp.append((name, smi, d))
                last_decomposed[name] = smi
                trace.append(('decompose', name, smi))
                n += 1
                want = fresh_ref(recipe[name], smi, 'descriptors', None, None)
                if got != want and _room(viol, 10):
                    viol.append({'id': 'h%d-s%d' % (h, step), 'input': {'history': trace[:]}, 'observed': got, 'expected': want})
            elif op == 'estimate' and any(x[0] == name for x in decomp):
                cands = [x for x in decomp if x[0] == name]
                want_smi = cur['script'][cur['step']].get('smi') if cur['script'] is not None else None
                nm, smi, d = next((x for x in cands if x[1] == want_smi), None) or rnd.choice(cands)
                what = pick('what', ['get_HoRT', 'get_SoR', 'get_CpoR', 'get_SoR'])
                se = pick('se', [None, True]) if what == 'get_SoR' else None
                T = pick('T', [300.0, 400.0, 500.0])
                with real.quiet():
                    got = real.outcome(lambda: getattr(lib.Estimate(d, 'thermochem'), what)(T, **({'S_elements': se} if what == 'get_SoR' else {})))
                trace.append(('estimate', name, smi, what, se))
                n += 1
                want = fresh_ref(recipe[name], smi, what, T, se)
                same = got[0] == want[0] and (got[0] == 'exc' or real.close(got[1], want[1], 1e-12, 1e-12))
                if not same:
                    cls = 'K1:library-name-channel' if (se and last_decomposed.get(name) != smi) else None
                    if _room(viol, 10) or cls:
                        viol.append({'id': 'h%d-s%d' % (h, step), 'cls': cls, 'input': {'history': trace[:]}, 'observed': got, 'expected': want,
                                     'script': "import pgradd.ThermoChem\nfrom pgradd.GroupAdd.Library import GroupLibrary\nlib = GroupLibrary.Load(%r)\nd1 = lib.GetDescriptors(%r)\nlib.GetDescriptors(%r)\n"
                                               "print(lib.Estimate(d1, 'thermochem').get_SoR(%r, S_elements=True))\n" % (name, smi, last_decomposed.get(name), T)})
            elif op == 'merge':
                other = rnd.choice(libs)
                tgt = GroupLibrary(lib.scheme, {})
                with real.quiet():
                    try:
                        tgt.Update(lib)
                        tgt.Update(real.load(other, fresh=True), overwrite=True)
                    except Exception:    # noqa
                        pass
                trace.append(('merge-into-new', name, other))
            elif op == 'merge-live':
                # merge another library INTO a live one (after it may already have been evaluated): later results must equal those of
                # a fresh load + the same merges
                other = pick('other', [x for x in libs if x != name])
                with real.quiet():
                    try:
                        lib.Update(real.load(other, fresh=True), overwrite=True)
                    except Exception:    # noqa
                        pass
                recipe[name] = recipe[name] + (other,)
                trace.append(('merge-into-live', name, other))
        distinct += 1
        for nm in libs:
            # a load AFTER the history gives what a load gave before it (nothing cached, shared or rewritten behind the scenes)
            n += 1
            if fp(real.load(nm, fresh=True)) != fp_clean[nm] and _room(viol, 14):
                viol.append({'id': 'h%d-later-load-%s' % (h, nm), 'input': {'history': trace, 'then': 'GroupLibrary.Load(%r)' % nm}, 'observed': 'contents differ from a load made before the history',
                             'expected': 'a load is independent of earlier merges into other library objects'})
        distinct += 1
        for name, lib in live.items():
            n += 1
            if len(recipe[name]) == 1 and fp(lib) != fps0[name]:
                viol.append({'id': 'h%d-data-%s' % (h, name), 'input': {'history': trace}, 'observed': 'library data changed', 'expected': 'computing does not alter any library\'s data'})
        if len(samples) < 2:
            samples.append(trace[:10])
    # the same molecule OBJECT decomposed again (same library, another library, after a failed call): a decomposition leaves nothing behind on the
    # caller's object that a later decomposition could trip over.  Objects with and without implicit hydrogens, and hydrogen-free ones.
    from rdkit import Chem
    makers_ = [("Chem.AddHs(Chem.MolFromSmiles('CC'))", 'BensonGA'), ("Chem.MolFromSmiles('O=C=O')", 'BensonGA'), ("Chem.MolFromSmiles('CCO')", 'BensonGA'),
               ("Chem.AddHs(Chem.MolFromSmiles('c1ccccc1C'))", 'BensonGA'), ("Chem.AddHs(Chem.MolFromSmiles('C([Pt])C'))", 'GRWSurface2018'), ("Chem.MolFromSmiles('O=C=[Pt]')", 'GRWSurface2018')]
    for mk_, ln_ in makers_:
        n += 1
        with real.quiet():
            want_ = real.outcome(lambda: {str(k_): v_ for k_, v_ in real.load(ln_, fresh=True).GetDescriptors(eval(mk_, {'Chem': Chem})).items()})
            lib_ = real.load(ln_, fresh=True)
            m_ = eval(mk_, {'Chem': Chem})
            seq_ = []
            seq_.append(real.outcome(lambda: {str(k_): v_ for k_, v_ in lib_.GetDescriptors(m_).items()}))
            real.outcome(lambda: real.load('XieGA2022', fresh=True).GetDescriptors(m_))          # another library (may fail for this molecule: that is fine)
            seq_.append(real.outcome(lambda: {str(k_): v_ for k_, v_ in lib_.GetDescriptors(m_).items()}))
            seq_.append(real.outcome(lambda: {str(k_): v_ for k_, v_ in real.load(ln_, fresh=True).GetDescriptors(m_).items()}))
        if any(x_ != want_ for x_ in seq_):
            viol.append({'id': 'same-mol-object-%s' % mk_, 'input': {'library': ln_, 'molecule object': mk_, 'history': 'decompose; decompose with another library; decompose again; decompose with a freshly loaded library'},
                         'observed': [str(x_)[:160] for x_ in seq_], 'expected': str(want_)[:200],
                         'script': "import pgradd.ThermoChem\nfrom rdkit import Chem\nfrom pgradd.GroupAdd.Library import GroupLibrary\nlib = GroupLibrary.Load(%r)\nm = %s\nprint(dict(lib.GetDescriptors(m)))\nprint(dict(lib.GetDescriptors(m)))\n" % (ln_, mk_)})
    return {'name': 'operation-histories', 'evaluations': n, 'distinct_nontrivial': distinct, 'violations': viol, 'samples': samples,
            'bound': '%d scripted (evaluate / merge into the evaluated library / evaluate again) + %d random histories of length 2..%d over 3 libraries, each result compared with the single operation on freshly loaded objects' % (len(scripts), nhist, 12 if tier == 'quick' else 40),
            'rule': 'a case is one history; distinct by seed'}


# ---------------------------------------------------------------------------------------------- C11
def c11_algebra(tier, seed):
    """random expressions over quantities (chains of *, /, ** with integer and fractional powers, then +, -, the six comparisons, abs, neg)
    against an independent model: a quantity is (SI magnitude, 7 exact Fraction exponents); + - < <= > >= demand equal exponents (a bare zero
    is the only plain number accepted), == is False and != True across dimensions, * / ** add / subtract / scale exponents and give a plain
    number when all exponents cancel"""
    from fractions import Fraction as F
    from pgradd.Units import eval_qty
    from pgradd.Error import UnitsError
    rnd = random.Random(seed)
    base = {'m': (1.0, (1, 0, 0, 0, 0, 0, 0)), 's': (1.0, (0, 0, 1, 0, 0, 0, 0)), 'kg': (1.0, (0, 1, 0, 0, 0, 0, 0)), 'kJ': (1000.0, (2, 1, -2, 0, 0, 0, 0)),
            'K': (1.0, (0, 0, 0, 0, 1, 0, 0)), 'cm': (0.01, (1, 0, 0, 0, 0, 0, 0))}
    Z = (0,) * 7

    def leaf():
        if rnd.random() < 0.15:
            v = rnd.choice([0, 0.0, 2, 1e-9, -3.5])
            return ('num', v), v, (float(v), tuple(F(0) for _ in range(7)))
        nm = rnd.choice(list(base))
        import numpy as np
        k = rnd.choice([1.0, 2.0, 0.5, -3.0, 0.0, 3, np.float64(1.5)])      # (numpy integers / float32 bring numpy's own arithmetic rules: they are exercised in the array cases above)
        q = k * eval_qty('1 ' + nm)
        return ('qty', repr(k), nm), q, (float(k) * base[nm][0], tuple(F(e) for e in base[nm][1]))

    def build(depth):
        """-> (description, real value, model (mag, exps))"""
        if depth == 0 or rnd.random() < 0.3:
            return leaf()
        op = rnd.choice(['*', '/', '**', '**', '*'])
        d1, r1, m1 = build(depth - 1)
        if op == '**':
            # fractional powers are dyadic (0.5, 0.25, 1.5): their sums and products are exact in binary floating point, so that the exact
            # comparison of exponents in the real code and the Fraction model agree (1/3 + 2/3 != 1 in floats is round-off, outside this property)
            p = rnd.choice([2, 3, -1, 0.5, 0.25, 1.5, 2.0, 0, -2])
            pf = float(p)
            if m1[0] < 0 and pf != int(pf):
                p, pf = 2, 2.0
            if m1[0] == 0 and pf <= 0:
                p, pf = 2, 2.0
            return ('**', d1, str(p)), r1 ** (p if not isinstance(p, F) else float(p)), (m1[0] ** pf, tuple(e * F(p).limit_denominator(1000) for e in m1[1]))
        d2, r2, m2 = build(depth - 1)
        if op == '*':
            return ('*', d1, d2), r1 * r2, (m1[0] * m2[0], tuple(a + b for a, b in zip(m1[1], m2[1])))
        if m2[0] == 0:
            return ('*', d1, d2), r1 * r2, (m1[0] * m2[0], tuple(a + b for a, b in zip(m1[1], m2[1])))
        return ('/', d1, d2), r1 / r2, (m1[0] / m2[0], tuple(a - b for a, b in zip(m1[1], m2[1])))

    def parts(r):
        """(SI magnitude, exponents) of a real result"""
        if hasattr(r, 'units'):
            return float(r.value), tuple(F(float(e)).limit_denominator(1000) for e in r.units.exps)
        return float(r), tuple(F(0) for _ in range(7))
    viol, n, distinct, samples = [], 0, 0, []
    # array quantities: elements of integer arrays, in-place operators (numpy's own in-place operators know nothing about units)
    import numpy as np
    from pgradd.Units.qty import ArrayQuantity
    with real.quiet():
        ai = ArrayQuantity([1, 2], units='m')
        for nm_, f, want in (('ai[0] + ai[1]', lambda: (ai[0] + ai[1]).value, 3), ('-ai[0]', lambda: (-ai[0]).value, -1), ('abs(-ai[1])', lambda: abs(-ai[1]).value, 2),
                             ('ai[0] < ai[1]', lambda: bool(ai[0] < ai[1]), True), ('(ai[0] * ai[1]).units', lambda: [float(e) for e in (ai[0] * ai[1]).units.exps][:1], [2.0])):
            n += 1
            got = real.outcome(f)
            if got != ('ok', want):
                viol.append({'id': 'int-array-element-%s' % nm_, 'input': "ai = ArrayQuantity([1, 2], units='m'); " + nm_, 'observed': str(got), 'expected': want})

        def inplace(op, mk_other):
            a = np.array([1.0, 2.0]) * eval_qty('1 m')
            o = mk_other()
            if op == '+=':
                a += o
            elif op == '-=':
                a -= o
            elif op == '*=':
                a *= o
            elif op == '/=':
                a /= o
            else:
                a **= o
            return a
        sec = lambda: np.array([1.0, 2.0]) * eval_qty('1 s')
        met = lambda: np.array([3.0, 4.0]) * eval_qty('1 m')
        for op, other, want in (('+=', sec, 'UnitsError'), ('-=', sec, 'UnitsError'), ('+=', lambda: 1, 'UnitsError'), ('+=', met, ([4.0, 6.0], [1, 0, 0])), ('-=', met, ([-2.0, -2.0], [1, 0, 0])),
                                ('*=', sec, ([1.0, 4.0], [1, 0, 1])), ('/=', met, ([1 / 3.0, 0.5], [0, 0, 0])), ('**=', lambda: 2, ([1.0, 4.0], [2, 0, 0]))):
            n += 1
            try:
                r = inplace(op, other)
                got = ([float(x) for x in np.asarray(r)], [int(e) for e in getattr(r, '_units').exps[:3]] if hasattr(r, '_units') else [0, 0, 0])
            except UnitsError:
                got = 'UnitsError'
            except Exception as e:    # noqa
                got = type(e).__name__
            good = got == want if isinstance(want, str) else (isinstance(got, tuple) and got[1] == want[1] and all(abs(x - y) < 1e-12 for x, y in zip(got[0], want[0])))
            if not good:
                viol.append({'id': 'array-inplace-%s-%s' % (op, getattr(other, '__name__', 'x')), 'input': "a = np.array([1., 2.]) * metre; a %s <%s>" % (op, 'seconds' if other is sec else 'metres' if other is met else other()),
                             'observed': str(got), 'expected': str(want)})
    # binary operators on array quantities leave their operands alone (the result is a new object): asked twice, the same answer
    with real.quiet():
        for opn, f in (('+', lambda x, y: x + y), ('-', lambda x, y: x - y), ('*', lambda x, y: x * y), ('/', lambda x, y: x / y)):
            for mk_b in (lambda: np.array([3.0, 4.0]) * eval_qty('1 m'), lambda: np.array([3, 4]) * eval_qty('1 m')):
                a, b = np.array([1.0, 2.0]) * eval_qty('1 m'), mk_b()
                n += 1
                try:
                    r1 = f(a, b)
                    r2 = f(a, b)
                    ok_ = [float(x) for x in np.asarray(a)] == [1.0, 2.0] and [float(x) for x in np.asarray(b)] == [3.0, 4.0] and \
                        [float(x) for x in np.asarray(r1)] == [float(x) for x in np.asarray(r2)] and r1 is not a
                    got_ = {'a after': [float(x) for x in np.asarray(a)], 'first': [float(x) for x in np.asarray(r1)], 'second': [float(x) for x in np.asarray(r2)]}
                except Exception as e:    # noqa
                    ok_, got_ = False, 'raised %s' % type(e).__name__
                if not ok_:
                    viol.append({'id': 'array-operands-%s-%s' % (opn, str(np.asarray(b).dtype)), 'input': 'a = [1., 2.] m; b = %s m; a %s b, twice' % (list(np.asarray(b)), opn), 'observed': got_,
                                 'expected': 'operands unchanged, the same result both times'})
    N = 400 if tier == 'quick' else 4000
    with real.quiet():
        for it in range(N):
            try:
                d1, r1, m1 = build(rnd.choice([1, 2, 3]))
                if rnd.random() < 0.5 and any(e != 0 for e in m1[1]):
                    # the SAME dimension built another way (product of SI base units raised to the exponents): must be compatible
                    k = rnd.choice([1.5, -2.0, 1.0])
                    r2, mag = k, k
                    for nm_, e in zip(('m', 'kg', 's', 'A', 'K', 'mol', 'cd'), m1[1]):
                        if e != 0:
                            r2 = r2 * eval_qty('1 ' + nm_) ** (int(e) if e.denominator == 1 else float(e))
                    d2, m2 = ('same-dimension', k), (mag, m1[1])
                else:
                    d2, r2, m2 = build(rnd.choice([0, 1, 2]))
            except (ZeroDivisionError, OverflowError):
                continue
            n += 1
            g1 = parts(r1)
            ok1 = g1[1] == m1[1] and real.close(g1[0], m1[0], 1e-9, 1e-300) and (hasattr(r1, 'units') == any(e != 0 for e in m1[1]))
            if not ok1:
                if _room(viol, 12):
                    viol.append({'id': 'value-%d' % it, 'input': str(d1), 'observed': [g1[0], [str(e) for e in g1[1]], type(r1).__name__], 'expected': [m1[0], [str(e) for e in m1[1]]]})
                continue
            distinct += 1
            same_dim = m1[1] == m2[1]
            bare_zero = lambda m, r: all(e == 0 for e in m[1]) and m[0] == 0 and not hasattr(r, 'units')
            compatible = same_dim or bare_zero(m1, r1) or bare_zero(m2, r2)
            if not (hasattr(r1, 'units') or hasattr(r2, 'units')):
                continue
            for opn, f, mf in (('+', lambda a, b: a + b, lambda a, b: a + b), ('-', lambda a, b: a - b, lambda a, b: a - b),
                               ('<', lambda a, b: a < b, lambda a, b: a < b), ('<=', lambda a, b: a <= b, lambda a, b: a <= b),
                               ('>', lambda a, b: a > b, lambda a, b: a > b), ('>=', lambda a, b: a >= b, lambda a, b: a >= b),
                               ('==', lambda a, b: a == b, lambda a, b: a == b), ('!=', lambda a, b: a != b, lambda a, b: a != b)):
                n += 1
                try:
                    got = ('ok', f(r1, r2))
                except UnitsError:
                    got = ('UnitsError', None)
                except Exception as e:    # noqa
                    got = (type(e).__name__, None)
                if opn in ('==', '!='):
                    want = ('ok', mf(m1[0], m2[0]) if compatible else (opn == '!='))
                    close_call = compatible and abs(m1[0] - m2[0]) <= 1e-9 * max(abs(m1[0]), abs(m2[0]))
                    good = got[0] == 'ok' and (close_call or bool(got[1]) == want[1])
                elif not compatible:
                    want = ('UnitsError', None)
                    good = got[0] == 'UnitsError'
                elif opn in ('+', '-'):
                    want = ('ok', mf(m1[0], m2[0]))
                    good = got[0] == 'ok' and real.close(parts(got[1])[0], want[1], 1e-9, 1e-12 * max(abs(m1[0]), abs(m2[0]), 1e-300))
                else:
                    want = ('ok', mf(m1[0], m2[0]))
                    close_call = abs(m1[0] - m2[0]) <= 1e-9 * max(abs(m1[0]), abs(m2[0]))
                    good = got[0] == 'ok' and (close_call or bool(got[1]) == want[1])
                if not good and _room(viol, 12):
                    viol.append({'id': 'op-%d-%s' % (it, opn), 'input': {'a': str(d1), 'op': opn, 'b': str(d2)}, 'observed': str(got), 'expected': str(want)})
            if len(samples) < 3:
                samples.append({'a': str(d1), 'b': str(d2)})
    # conversions one after the other in one process: what an earlier conversion to a unit text found must not decide a later one; != on arrays of
    # different dimension is True (not an element-wise comparison of magnitudes)
    import numpy as _np
    from pgradd.Units import with_units, ArrayQuantity
    texts = ['K', 'm', 'kJ/mol', 's', 'cm']
    for u1 in texts:
        for u2 in texts:
            n += 1
            try:
                with_units(2.0, u1).in_units(u1)
                got = with_units(3.0, u2).in_units(u1)
            except UnitsError:
                got = 'UnitsError'
            except Exception as e:    # noqa
                got = 'raised ' + type(e).__name__
            compatible = base.get(u1, (None, ('x',)))[1] == base.get(u2, (None, ('y',)))[1] if (u1 in base and u2 in base) else (u1 == u2)
            ok = (got != 'UnitsError' and not str(got).startswith('raised')) if compatible else got == 'UnitsError'
            if not ok:
                viol.append({'id': 'conversion-sequence-%s-%s' % (u1, u2), 'input': "with_units(2.0, %r).in_units(%r); with_units(3.0, %r).in_units(%r)" % (u1, u1, u2, u1),
                             'observed': str(got), 'expected': 'a number' if compatible else 'UnitsError'})
    # a numpy scalar (an element of a plain array) on the LEFT of an operator whose right operand is an array quantity: the same answer as with a
    # Python number on the left (numpy turns scalar-first expressions into ufunc calls; the reflected operators of the quantity must still decide)
    aq = ArrayQuantity([1., 2.], units='m')
    import operator as _op
    for opn, fn in (('+', _op.add), ('-', _op.sub), ('*', _op.mul), ('/', _op.truediv), ('<', _op.lt), ('>=', _op.ge), ('==', _op.eq), ('!=', _op.ne), ('**', _op.pow)):
        for left in (2.0, 0.0):
            n += 1
            def outcome_(x):
                try:
                    r_ = fn(x, aq)
                    if isinstance(r_, ArrayQuantity):
                        return ('array quantity', [float(v_) for v_ in _np.asarray(r_)], str(r_._units))
                    return (type(r_).__name__ if not isinstance(r_, (bool, _np.bool_)) else 'bool', [float(v_) for v_ in _np.ravel(_np.asarray(r_, dtype=float))])
                except Exception as e:    # noqa
                    return ('raised', type(e).__name__)
            want_ = outcome_(left)
            for mk_ in (_np.float64, _np.float32, _np.int64):
                got_ = outcome_(mk_(left))
                if got_ != want_:
                    viol.append({'id': 'numpy-scalar-left-%s-%s-%s' % (fn.__name__, mk_.__name__, left), 'input': 'numpy.%s(%r) %s ArrayQuantity([1., 2.], units="m")' % (mk_.__name__, left, opn),
                                 'observed': str(got_), 'expected': str(want_) + '  (the answer for the Python number %r)' % left,
                                 'script': "import numpy as np\nfrom pgradd.Units import ArrayQuantity\na = ArrayQuantity([1., 2.], units='m')\nprint(np.%s(%r) %s a)\n" % (mk_.__name__, left, opn)})
    # '//' is the classes' division (they define it so): a plain number on the left divides like '/' does
    for left in (2.0, 2, _np.float64(2)):
        n += 1
        try:
            r1, r2 = left // aq, left / aq
            ok_ = isinstance(r1, ArrayQuantity) and isinstance(r2, ArrayQuantity) and str(r1._units) == str(r2._units) and [float(v_) for v_ in _np.asarray(r1)] == [float(v_) for v_ in _np.asarray(r2)]
            got_ = (type(r1).__name__, str(getattr(r1, '_units', None)))
        except Exception as e:    # noqa
            ok_, got_ = False, 'raised ' + type(e).__name__
        if not ok_:
            viol.append({'id': 'floordiv-number-left-%s' % type(left).__name__, 'input': '%r // ArrayQuantity([1., 2.], units="m")' % (left,), 'observed': str(got_), 'expected': 'an array quantity in 1/m, as for /'})
    # in-place operators agree with the binary ones -- also on INTEGER arrays (a non-integral sum must not be cut down to the array's dtype)
    for mk_ in (lambda: ArrayQuantity([1, 2, 3], units='m'), lambda: ArrayQuantity([1., 2., 3.], units='m')):
        for opn_, f_in, f_bin in (('+=', lambda a_, b_: a_.__iadd__(b_), lambda a_, b_: a_ + b_), ('-=', lambda a_, b_: a_.__isub__(b_), lambda a_, b_: a_ - b_)):
            n += 1
            b_ = eval_qty('50 cm')
            try:
                r_in, r_bin = f_in(mk_(), b_), f_bin(mk_(), b_)
                got_, want_ = [float(v_) for v_ in _np.asarray(r_in)], [float(v_) for v_ in _np.asarray(r_bin)]
            except Exception as e:    # noqa
                got_, want_ = 'raised ' + type(e).__name__, None
            if got_ != want_:
                viol.append({'id': 'inplace-%s-%s' % ('iadd' if opn_ == '+=' else 'isub', _np.asarray(mk_()).dtype), 'input': 'a = %s m (dtype %s); a %s 50 cm' % (list(_np.asarray(mk_())), _np.asarray(mk_()).dtype, opn_),
                             'observed': str(got_), 'expected': str(want_)})
    # views and copies of an array quantity that has ALREADY been used in an operation carry their own magnitudes (nothing remembered by the parent is inherited)
    par = ArrayQuantity([1., 2., 5.], units='m')
    _ = par + par, par < par, -par
    for name_, der in (('reversed view', lambda: par[::-1]), ('slice', lambda: par[1:]), ('fancy index', lambda: par[[2, 0]]), ('copy', lambda: par.copy())):
        n += 1
        try:
            d_ = der()
            fresh_ = ArrayQuantity([float(v_) for v_ in _np.asarray(d_)], units='m')
            pairs_ = [((-d_), (-fresh_)), (abs(d_), abs(fresh_)), (d_ + d_, fresh_ + fresh_), (d_ * 2.0, fresh_ * 2.0)]
            ok_ = all([float(v_) for v_ in _np.asarray(x_)] == [float(v_) for v_ in _np.asarray(y_)] for x_, y_ in pairs_) and [bool(v_) for v_ in _np.ravel(d_ == fresh_)] == [True] * len(_np.asarray(d_)) if _np.ndim(d_ == fresh_) else bool(d_ == fresh_)
            got_ = [[float(v_) for v_ in _np.asarray(x_)] for x_, _y in pairs_]
        except Exception as e:    # noqa
            ok_, got_ = False, 'raised ' + type(e).__name__
        if not ok_:
            viol.append({'id': 'derived-array-%s' % name_.replace(' ', '-'), 'input': 'p = [1, 2, 5] m; p + p; d = %s of p; -d, abs(d), d + d, d * 2' % name_, 'observed': str(got_)[:200], 'expected': 'the results for a fresh array with the magnitudes of d'})
    am, as_ = ArrayQuantity([1., 2., -3.], units='m'), ArrayQuantity([1., 2., -3.], units='s')
    for name_, f_, want_ in (('array != other dimension', lambda: am != as_, True), ('array == other dimension', lambda: am == as_, False),
                             ('array != plain list', lambda: am != [1., 2., -3.], True), ('array != plain number', lambda: am != 1.0, True)):
        n += 1
        try:
            r_ = f_()
            got = bool(r_) if _np.ndim(r_) == 0 else [bool(x) for x in _np.ravel(r_)]
        except Exception as e:    # noqa
            got = 'raised ' + type(e).__name__
        if got != want_:
            viol.append({'id': name_.replace(' ', '-'), 'input': name_ + ' ([1, 2, -3] m against [1, 2, -3] s / a bare list / 1.0)', 'observed': str(got), 'expected': str(want_)})
    return {'name': 'quantity-algebra-random-expressions', 'evaluations': n, 'distinct_nontrivial': distinct, 'violations': viol, 'samples': samples,
            'bound': '%d random pairs of expressions (depth <= 3; dyadic powers 2, 3, -1, 0.5, 0.25, 1.5, 0, -2; half of the partners have the same dimension built another way) x 8 binary operations, against exact Fraction exponents' % N,
            'rule': 'a case is (expression a, operation, expression b); non-trivial = a evaluates to the modelled magnitude and exponents'}
