"""C19 -- Group identity is the centre plus the multiset of peripherals.

Token level: re.split('[()]', text)[1:] is a sequence of tokens, each Empty | Digits(n) | Name(s).
  parse           : the real loop implements the expansion  Expand  (spec transition function delta)
  _canonical_name : csg ++ Render(sorted distinct peripherals with their multiplicities)
  lemma           : Expand(Tok(Render(E))) = multiset(E)   (induction over the entries, step discharged here)
  __eq__/__hash__ : equality and hash are those of the canonical name (also against plain strings)
Hence two groups are equal / hash alike exactly when centre and peripheral multiset agree."""
import ast

import z3

from pyvc import source, loops
from pyvc.engine import Obj, Builtin, SymSeq, FmtStr, Unsupported, NotImplementedVal, is_z3, z3_of
from pyvc.source import BuiltinClass
from pyvc.verify import Unit, run_target
from pyvc.world import World
from .spec import check_outcome

PROPERTY = 'C19'
GROUP = 'pgradd/GroupAdd/Group.py'
IS, SS, BS = z3.IntSort(), z3.StringSort(), z3.BoolSort()
Cnt = z3.Function('Cnt', IS, SS, IS)          # multiplicity of a name in version ver of a multiset/counter
InKeys = z3.Function('InKeys', IS, SS, BS)    # key present in version ver of the counter dict
Dec = z3.Function('Dec', IS, SS)              # '%d' % n
IsDecimal = z3.Function('IsDecimal', SS, BS)   # str.isdecimal(): non-empty, every character a decimal digit -- exactly the strings int() converts; the SPEC's notion of a repeat count
IsDigitish = z3.Function('IsDigitish', SS, BS)  # str.isdigit(): a superset (superscripts, circled digits ... are digits but not decimals: int('\u00b2') raises ValueError)
MAX_INT_DIGITS = 4300                          # CPython converts at most this many digits (sys.get_int_max_str_digits())
IntOf = z3.Function('IntOf', SS, IS)          # int(s) for a digit string
TRUSTED = ["re.split('[()]', text): text = csg + pieces '(' name ')' [digits] splits into [csg] + tokens (assumed; exercised by the stand-in)",
           "'%d' % n is the decimal numeral Dec(n): non-empty, all digits, int(Dec(n)) == n; peripheral names are non-empty, contain no "
           "parenthesis and are not all decimal digits (wfname precondition)",
           "int(s) raises ValueError exactly when s is not a string of decimal digits (str.isdecimal; str.isdigit is a superset) or is longer than 4300 digits; "
           "Group.parse is verified for names whose repeat counts have at most 4300 digits (domain restriction: a longer count is a ValueError from int(), "
           "and a count of that magnitude cannot be expanded into a list)"]

ListCls = BuiltinClass('NameList')
CounterCls = BuiltinClass('NameCounter')


def new_ver(I, tag='ver'):
    return I.ctx.fresh(tag, 'int')


def list_attr(I, o, name):
    if name == 'append':
        def f(I_, a, k):
            ctx = I_.ctx
            if o.origin != 'fresh':
                ctx.effect('write', o.oid, 'list', 'append')
            old = o.fields['ver']
            new = new_ver(I_, 'list_ver')
            x = z3_of(a[0])
            s = z3.String('s!l%s' % new)
            ctx.assume_forall([s], Cnt(new, s) == Cnt(old, s) + z3.If(s == x, 1, 0), 'append')
            o.fields['ver'] = new
            o.fields['len'] = o.fields['len'] + 1
            ctx.ghost.setdefault('names', []).append(x)
            return None
        return Builtin('list.append', f)
    return NotImplementedVal


def counter_index(I, o, key):
    # defaultdict(int): a missing key reads as 0 (and is inserted)
    return Cnt(o.fields['ver'], z3_of(key))


def counter_setitem(I, o, key, val):
    ctx = I.ctx
    old = o.fields['ver']
    new = new_ver(I, 'cnt_ver')
    key, val = z3_of(key), z3_of(val)
    s = z3.String('s!c%s' % new)
    ctx.assume_forall([s], z3.And(Cnt(new, s) == z3.If(s == key, val, Cnt(old, s)),
                                  InKeys(new, s) == z3.Or(s == key, InKeys(old, s))), 'counter update')
    o.fields['ver'] = new
    ctx.ghost.setdefault('names', []).append(key)
    return None


class W(World):
    def __init__(self):
        World.__init__(self)
        self.abstract['NameList'] = {'attr': list_attr}
        self.abstract['NameCounter'] = {'index': counter_index, 'setitem': counter_setitem}
        self.externs['collections.defaultdict'] = Builtin('defaultdict', self._defaultdict)
        self.externs['re'] = __import__('pyvc.engine', fromlist=['Namespace']).Namespace('re', {'compile': Builtin('re.compile', lambda I, a, k: Obj(BuiltinClass('Regex'), {'pattern': a[0]}, 'param'))})

    def _defaultdict(self, I, a, k):
        ver = new_ver(I, 'cnt0')
        s = z3.String('s!d')
        I.ctx.assume_forall([s], z3.And(Cnt(ver, s) == 0, z3.Not(InKeys(ver, s))), 'empty counter')
        return Obj(CounterCls, {'ver': ver}, 'fresh')

    def str_class_hook(self, I, v, name):
        if name == 'isdigit':
            I.ctx.assume(z3.Implies(IsDecimal(v), IsDigitish(v)))
            return IsDigitish(v)
        if name == 'isdecimal':
            return IsDecimal(v)
        raise Unsupported('str.%s' % name)

    def int_of_str(self, I, s):
        # int(s) for a string without sign, blanks or underscores: ValueError unless every character is a DECIMAL digit (isdigit() is not enough)
        # and, in CPython >= 3.11, unless there are at most 4300 of them
        if I.ctx.branch(z3.Or(z3.Not(IsDecimal(s)), z3.Length(s) > MAX_INT_DIGITS)):
            raise I.exc('ValueError', 'invalid literal for int()')
        return IntOf(s)

    def range_hook(self, I, args):
        if len(args) == 1:
            n = z3_of(args[0])
            return SymSeq(z3.If(n >= 0, n, 0), lambda i: i, 'range')
        raise Unsupported('range with several symbolic bounds')

    def slice_hook(self, I, v, lo, hi, st):
        if isinstance(v, SymSeq) and hi is None and st is None and isinstance(lo, int) and lo >= 0:
            I.ctx.assume(v.length >= 0)
            n = z3.If(v.length - lo >= 0, v.length - lo, 0)
            return SymSeq(n, lambda i: v.at(i + lo), v.name + '[%d:]' % lo, origin=v.origin)
        return NotImplementedVal


def world():
    return W()


# ---- Descriptor.__eq__ / __hash__ ------------------------------------------------------------------------
def u_eq_hash(I):
    ctx = I.ctx
    gcls = source.module(GROUP).classes['Group']
    dcls = source.module(GROUP).classes['Descriptor']
    n1, n2 = I.fresh('name1', 'str'), I.fresh('name2', 'str')
    # identity is centre + peripherals (= the canonical name): the scheme object a group was built with plays no part -- the two operands
    # carry the same scheme object, two different scheme objects, or none
    sch = [Obj(BuiltinClass('SchemeA'), {}, 'param'), Obj(BuiltinClass('SchemeB'), {}, 'param')]
    I.world.abstract['SchemeA'] = {}
    I.world.abstract['SchemeB'] = {}
    s1, s2 = [(None, None), (sch[0], sch[0]), (sch[0], sch[1]), (sch[0], None)][ctx.choose([True] * 4, 'scheme objects of the operands')]
    a = Obj(gcls, {'name': n1, 'scheme': s1}, 'param')
    form = ['group', 'descriptor', 'string', 'string-left'][ctx.choose([True] * 4, 'other operand')]
    hashes = {}

    def hash_model(I_, v):
        v = z3_of(v)
        return z3.Function('HashStr', SS, IS)(v)
    I.world.hash_model = hash_model
    if form == 'group':
        b = Obj(gcls, {'name': n2, 'scheme': s2}, 'param')
    elif form == 'descriptor':
        b = Obj(dcls, {'name': n2, 'scheme': s2}, 'param')
    else:
        b = n2
    from pyvc.verify import Outcome
    from pyvc.engine import PyExc
    try:
        r = I.compare(ast.Eq, b, a) if form == 'string-left' else I.compare(ast.Eq, a, b)
        out = Outcome('return', r)
    except PyExc as e:
        out = Outcome('raise', e.obj)

    def asb(r):
        return z3.BoolVal(r) if isinstance(r, bool) else r
    check_outcome(I, out, raises={}, returns=lambda r: [('equal exactly when the canonical names are equal (%s)' % form, asb(r) == (n1 == n2))])
    try:
        rn = I.compare(ast.NotEq, b, a) if form == 'string-left' else I.compare(ast.NotEq, a, b)
        outn = Outcome('return', rn)
    except PyExc as e:
        outn = Outcome('raise', e.obj)
    check_outcome(I, outn, raises={}, returns=lambda r: [('!= is the negation of == (%s)' % form, asb(r) == (n1 != n2))])
    h1 = I.world.builtins['hash'].fn(I, [a], {})
    ctx.oblige('hash of a group is the hash of its canonical name (interchangeable with the string in dictionaries)',
               z3_of(h1) == z3.Function('HashStr', SS, IS)(n1))
    return {'inputs': {}}


# ---- _canonical_name -----------------------------------------------------------------------------------------
Occ = z3.Function('Occ', IS, SS, IS)              # occurrences of a name among the first j peripherals
Psg = z3.Function('Psg', IS, SS)                  # j-th peripheral as given
SKey = z3.Function('SKey', IS, SS)                # j-th distinct peripheral in sorted order
Render = z3.Function('Render', IS, SS)            # canonical name after j distinct peripherals


def piece(name, c):
    base = z3.Concat(z3.StringVal('('), name, z3.StringVal(')'))
    return z3.If(c == 1, base, z3.Concat(base, Dec(c)))


def u_canonical(I):
    ctx = I.ctx
    cls = source.module(GROUP).classes['Group']
    csg = I.fresh('csg', 'str')
    m = I.fresh('m', 'int')
    ctx.assume(m >= 0)
    psgs = SymSeq(m, lambda i: Psg(i), 'psgs', origin='param')
    o = Obj(cls, {'csg': csg, 'psgs': psgs}, 'param')
    j_ = z3.Int('j!o')
    s_ = z3.String('s!o')
    ctx.assume_forall([s_], Occ(0, s_) == 0, 'Occ base')
    ctx.assume_forall([j_, s_], z3.Implies(z3.And(0 <= j_, j_ < m), Occ(j_ + 1, s_) == Occ(j_, s_) + z3.If(Psg(j_) == s_, 1, 0)), 'Occ step')
    d = I.fresh('d', 'int')
    ctx.assume(d >= 0)
    ctx.assume(Render(0) == csg)
    ctx.assume_forall([j_], z3.Implies(z3.And(0 <= j_, j_ < d), Render(j_ + 1) == z3.Concat(Render(j_), piece(SKey(j_), Occ(m, SKey(j_))))), 'Render step')
    holder = {}

    def st1(I_, j, env, it):
        ver = new_ver(I_, 'cnt_j')
        ctx.assume_forall([s_], z3.And(Cnt(ver, s_) == Occ(j, s_), InKeys(ver, s_) == (Occ(j, s_) >= 1), Occ(j, s_) >= 0), 'counter after j peripherals')
        env.local['psg_counts'] = Obj(CounterCls, {'ver': ver}, 'fresh')
        env.local.pop('psg', None)
        ctx.instantiate([j, Psg(j)] if True else [])

    def inv1(I_, j, env, it):
        c = env.local.get('psg_counts')
        if not (isinstance(c, Obj) and c.cls is CounterCls):
            return [('psg_counts is the counter', z3.BoolVal(False))]
        s = ctx.fresh('inv_s', 'str')
        ctx.instantiate([s, j, j - 1, Psg(j - 1)])
        return [('the counter holds the number of occurrences among the peripherals seen so far (arbitrary name)',
                 z3.And(Cnt(c.fields['ver'], s) == Occ(j, s), InKeys(c.fields['ver'], s) == (Occ(j, s) >= 1), Occ(j, s) >= 0))]
    I.world.loop_specs[(GROUP, 'Group._canonical_name', 0)] = loops.for_rule('count', st1, inv1)

    def sorted_keys(I_, a, k):
        c = a[0]
        if not (isinstance(c, Obj) and c.cls is CounterCls):
            raise Unsupported('sorted() of something else')
        holder['sorted_of'] = c.fields['ver']
        # built-in contract of sorted(dict): the distinct keys in ascending order
        i1, i2 = z3.Int('i!k1'), z3.Int('i!k2')
        ctx.assume_forall([i1], z3.Implies(z3.And(0 <= i1, i1 < d), InKeys(c.fields['ver'], SKey(i1))), 'sorted keys are keys')
        return SymSeq(d, lambda i: SKey(i), 'sorted(psg_counts)', origin='fresh')
    I.world.builtins = dict(I.world.builtins)
    orig_sorted = I.world.builtins['sorted']
    I.world.builtins['sorted'] = Builtin('sorted', lambda I_, a, k: sorted_keys(I_, a, k) if isinstance(a[0], Obj) else orig_sorted.fn(I_, a, k))

    def st2(I_, j, env, it):
        env.local['canon_name'] = Render(j)
        env.local.pop('name', None)
        ctx.instantiate([j, SKey(j)])

    def inv2(I_, j, env, it):
        ctx.instantiate([j, j - 1, SKey(j - 1)])
        return [('name so far is the centre followed by the rendered peripherals', z3_of(env.local.get('canon_name')) == Render(j))]
    I.world.loop_specs[(GROUP, 'Group._canonical_name', 1)] = loops.for_rule('render', st2, inv2)
    I.world.fmt_dec = True
    orig = I.str_binop

    def str_binop(op, a, b):
        if op is ast.Mod and a == '%d' and is_z3(b) and z3.is_int(b):
            return Dec(b)
        if op is ast.Add and isinstance(a, FmtStr):
            raise Unsupported('opaque string in the canonical name')
        return orig(op, a, b)
    I.str_binop = str_binop
    _orig = ctx.fresh

    def fresh(name, sort):
        v = _orig(name, sort)
        if name in ('j_count', 'j_render'):
            ctx.instantiate([v])
        return v
    ctx.fresh = fresh
    out = run_target(I, GROUP, 'Group._canonical_name', [], self_obj=o)
    writes = [e for e in ctx.effects if e[0] == 'write']
    ctx.instantiate([m, d])
    check_outcome(I, out, raises={}, returns=lambda r: [
        ('canonical name = centre ++ Render(sorted distinct peripherals, multiplicities): count printed iff != 1', z3_of(r) == Render(d)),
        ('the sorted keys are those of the complete counter', z3.BoolVal(holder.get('sorted_of') is not None)),
        ('pure', z3.BoolVal(not writes))])
    return {'inputs': {}}


# ---- parse -----------------------------------------------------------------------------------------------------
Tok = z3.Function('Tok', IS, SS)             # j-th token after the centre
XM = z3.Function('XM', IS, SS, IS)           # spec: multiset of appended names after j tokens
XPend = z3.Function('XPend', IS, BS)         # spec: a name is pending after j tokens
XName = z3.Function('XName', IS, SS)         # spec: the pending name


def delta_axioms(j, s):
    t = Tok(j)
    empty = t == z3.StringVal('')
    dig = z3.And(z3.Not(empty), IsDecimal(t))
    name = z3.And(z3.Not(empty), z3.Not(IsDecimal(t)))
    return [
        z3.Implies(empty, z3.And(XM(j + 1, s) == XM(j, s), XPend(j + 1) == XPend(j), XName(j + 1) == XName(j))),
        z3.Implies(z3.And(dig, XPend(j)), z3.And(XM(j + 1, s) == XM(j, s) + z3.If(s == XName(j), z3.If(IntOf(t) >= 0, IntOf(t), 0), 0),
                                                 z3.Not(XPend(j + 1)))),
        z3.Implies(name, z3.And(XM(j + 1, s) == XM(j, s) + z3.If(z3.And(XPend(j), s == XName(j)), 1, 0),
                                XPend(j + 1), XName(j + 1) == t)),
    ]


def u_parse(I):
    ctx = I.ctx
    cls = source.module(GROUP).classes['Group']
    n = I.fresh('n_parts', 'int')
    ctx.assume(n >= 1)
    csg = I.fresh('csg', 'str')
    parts = SymSeq(n, lambda i: z3.If(i == 0, csg, Tok(i - 1)), 'parts', origin='fresh')
    text = I.fresh('text', 'str')
    regex = Obj(BuiltinClass('Regex'), {}, 'param')
    I.world.abstract['Regex'] = {'attr': lambda I_, o, nm: Builtin('re.split', lambda I2, a, k: parts) if nm == 'split' else NotImplementedVal}
    I.modstate[('classattr', GROUP, 'Group', '_parser_re')] = regex
    j_, s_ = z3.Int('j!p'), z3.String('s!p')
    ctx.assume_forall([s_], XM(0, s_) == 0, 'Expand base')
    ctx.assume(z3.Not(XPend(0)))
    nt = n - 1
    for ax in delta_axioms(j_, s_):
        ctx.assume_forall([j_, s_], z3.Implies(z3.And(0 <= j_, j_ < nt), ax), 'Expand step')
    # domain: a repeat count has at most 4300 digits (CPython's int() refuses longer ones with ValueError; a count of that size could not be expanded anyway)
    ctx.assume_forall([j_], z3.Implies(IsDecimal(Tok(j_)), z3.Length(Tok(j_)) <= MAX_INT_DIGITS), 'repeat counts are convertible')
    holder = {}
    lst0 = {}

    def outer_state(I_, j, env, it):
        ver = new_ver(I_, 'psgs_j')
        ctx.assume_forall([s_], Cnt(ver, s_) == XM(j, s_), 'list after j tokens')
        lst = holder['psgs']
        lst.fields['ver'] = ver
        env.local['psgs'] = lst
        env.local['next_psg'] = XName(j) if ctx.branch(XPend(j)) else None
        env.local.pop('part', None)
        ctx.instantiate([j, Tok(j)])

    def outer_inv(I_, j, env, it):
        lst = env.local.get('psgs')
        if not (isinstance(lst, Obj) and lst.cls is ListCls):
            return [('psgs is the list being built', z3.BoolVal(False))]
        holder['psgs'] = lst
        s = ctx.fresh('inv_s', 'str')
        ctx.instantiate([s, j, j - 1, Tok(j - 1), XName(j - 1)])
        nx = env.local.get('next_psg', 'unbound')
        pend = z3.Not(XPend(j)) if nx is None else (z3.And(XPend(j), XName(j) == z3_of(nx)) if (is_z3(nx) or isinstance(nx, str)) else z3.BoolVal(False))
        return [('appended names so far are the expansion of the tokens read (arbitrary name)', Cnt(lst.fields['ver'], s) == XM(j, s)),
                ('pending name as in the expansion', pend)]
    I.world.loop_specs[(GROUP, 'Group.parse', 0)] = loops.for_rule('tokens', outer_state, outer_inv)

    def inner_state(I_, i, env, it):
        lst = holder['psgs']
        v0 = holder['inner_v0']
        psg = z3_of(holder['inner_psg'])
        ver = new_ver(I_, 'psgs_i')
        ctx.assume_forall([s_], Cnt(ver, s_) == Cnt(v0, s_) + z3.If(s_ == psg, i, 0), 'list after i copies')
        lst.fields['ver'] = ver
        env.local.pop('i', None)

    def inner_inv(I_, i, env, it):
        lst = holder['psgs']
        if 'inner_v0' not in holder or holder.get('inner_entry') is not env:
            holder['inner_v0'] = lst.fields['ver']
            holder['inner_entry'] = env
            holder['inner_psg'] = env.closure.local.get('psg') if False else I_.lookup('psg', env)
        s = ctx.fresh('inv_si', 'str')
        ctx.instantiate([s, z3_of(holder['inner_psg'])])
        return [('i copies of the name appended so far (arbitrary name)',
                 Cnt(lst.fields['ver'], s) == Cnt(holder['inner_v0'], s) + z3.If(s == z3_of(holder['inner_psg']), i, 0))]
    I.world.loop_specs[(GROUP, 'append_to_psgs', 0)] = loops.for_rule('copies', inner_state, inner_inv)

    made = {}

    def ctor(I_, c, a, k):
        made['args'] = a
        return Obj(cls, {'made': True}, 'fresh')
    I.world.ctor_hooks['Group'] = ctor
    # the list literal `psgs = []` must become the abstract list: intercept the empty-list display
    orig_list = I.e_List

    def e_List(node, env):
        if not node.elts and env.func is not None and env.func.qualname == 'Group.parse':
            ver = new_ver(I, 'psgs0')
            ctx.assume_forall([s_], Cnt(ver, s_) == 0, 'empty list')
            o = Obj(ListCls, {'ver': ver, 'len': z3.IntVal(0)}, 'fresh')
            holder['psgs'] = o
            return o
        return orig_list(node, env)
    I.e_List = e_List
    _orig = ctx.fresh

    def fresh(name, sort):
        v = _orig(name, sort)
        if name in ('j_tokens', 'j_copies'):
            ctx.instantiate([v])
        return v
    ctx.fresh = fresh
    scheme = Obj(BuiltinClass('SchemeAbs'), {}, 'param')
    out = run_target(I, GROUP, 'Group.parse', [cls, scheme, text])
    ctx.instantiate([nt])
    # spec: a digit token with no pending name is a syntax error
    if out.kind == 'raise':
        j = z3.Int('j_tokens')
        check_outcome(I, out, raises={'*': z3.And(IsDecimal(Tok(j)), Tok(j) != z3.StringVal(''), z3.Not(XPend(j)))})
        return {'inputs': {}}

    def posts(r):
        a = made.get('args')
        if not a or len(a) != 3:
            return [('constructs Group(scheme, csg, psgs)', z3.BoolVal(False))]
        s = ctx.fresh('post_s', 'str')
        ctx.instantiate([s, nt, XName(nt)])
        lst = a[2]
        final = XM(nt, s) + z3.If(z3.And(XPend(nt), s == XName(nt)), 1, 0)
        return [('centre is the text before the first parenthesis', z3_of(a[1]) == csg),
                ('peripherals = expansion of all tokens, pending name flushed (arbitrary name)',
                 Cnt(lst.fields['ver'], s) == final if isinstance(lst, Obj) and lst.cls is ListCls else z3.BoolVal(False)),
                ('scheme passed through', z3.BoolVal(a[0] is scheme))]
    check_outcome(I, out, raises={}, returns=posts)
    return {'inputs': {}}


# ---- lemma: Expand(Tok(Render(E))) = multiset(E) ----------------------------------------------------------------
def u_lemma_roundtrip(I):
    """Induction over the entries (name_i, c_i) of a canonical name; tokens of entry i: [name_i, Dec(c_i)] if c_i != 1,
    [name_i, ''] otherwise (the empty token comes from ')(' ; the last entry has no trailing token, handled by the flush).
    Invariant after i entries: appended multiset + pending name = multiset of the first i entries."""
    ctx = I.ctx
    s = I.fresh('s', 'str')
    nm, c = I.fresh('name', 'str'), I.fresh('c', 'int')
    M0 = ctx.fresh_fn('M0', SS, IS)          # appended so far
    E0 = ctx.fresh_fn('E0', SS, IS)          # multiset of the entries so far
    p0 = I.fresh('pending0', 'bool')
    pn0 = I.fresh('pname0', 'str')
    # wfname and the numeral contract
    ctx.assume(z3.And(nm != z3.StringVal(''), z3.Not(IsDecimal(nm)), c >= 1))
    ctx.assume(z3.And(Dec(c) != z3.StringVal(''), IsDecimal(Dec(c)), IntOf(Dec(c)) == c))
    ctx.assume(z3.Not(IsDecimal(z3.StringVal(''))))
    inv0 = M0(s) + z3.If(z3.And(p0, s == pn0), 1, 0) == E0(s)
    ctx.assume(inv0)
    # token 1: the name
    M1 = M0(s) + z3.If(z3.And(p0, s == pn0), 1, 0)
    p1, pn1 = z3.BoolVal(True), nm
    # token 2: Dec(c) if c != 1 else ''
    M2 = z3.If(c == 1, M1, M1 + z3.If(s == pn1, c, 0))
    p2 = (c == 1)
    E1 = E0(s) + z3.If(s == nm, c, 0)
    ctx.oblige('step: after the tokens of one entry the invariant holds for the extended entry list',
               M2 + z3.If(z3.And(p2, s == pn1), 1, 0) == E1)
    ctx.oblige('base: nothing appended, nothing pending, no entries', z3.IntVal(0) + z3.If(z3.And(z3.BoolVal(False), s == pn0), 1, 0) == 0)
    ctx.oblige('final flush: appended + pending is the complete multiset', inv0)
    return {'inputs': {}}


# ---- bounded stand-in (string level, real re) ------------------------------------------------------------
def standin_groups(tier, seed):
    import itertools, random
    from pgradd.GroupAdd.Group import Group, Descriptor
    names = ['C', 'H', 'C[d]', 'C[.]', 'CO', 'Co', 'Pt', 'N[A]', 'C2', 'x y', 'O', 'N', 'CN', 'none']     # incl. names whose concatenations collide: C+O / CO, C+N / CN
    centres = ['C', 'C[d]', 'Pt', 'CO']
    maxk = 3 if tier == 'quick' else 4
    viol, n, distinct = [], 0, set()

    def spell(order):
        """all run-length spellings of a sequence of names (adjacent equal names may be merged)"""
        out = ['']
        i = 0
        groups = []
        for nm, grp in itertools.groupby(order):
            groups.append((nm, len(list(grp))))
        res = ['']
        for nm, k in groups:
            opts = set()
            # split k into runs
            def comps(k):
                if k == 0:
                    yield []
                for first in range(1, k + 1):
                    for rest in comps(k - first):
                        yield [first] + rest
            for cp in comps(k):
                opts.add(''.join('(%s)%s' % (nm, '' if r == 1 else str(r)) for r in cp))
                opts.add(''.join('(%s)%s' % (nm, str(r)) for r in cp))
            res = [a + b for a in res for b in opts]
        return set(res)
    rnd = random.Random(seed)
    for csg in centres:
        for k in range(0, maxk + 1):
            for ms in itertools.combinations_with_replacement(names, k):
                ref = Group(None, csg, list(ms))
                canon = ref.name
                # the scheme object a group was built with is not part of its identity
                other_scheme = Group(object(), csg, list(reversed(ms)))
                n += 1
                if not (other_scheme == ref and ref == other_scheme and hash(other_scheme) == hash(ref) and not (other_scheme != ref) and {ref: 1}.get(other_scheme) == 1) and len(viol) < 10:
                    viol.append({'id': 'scheme-%s-%s' % (csg, '.'.join(ms)), 'input': {'centre': csg, 'peripherals': list(ms)}, 'observed': 'groups built with different scheme objects differ',
                                 'expected': 'equal, same hash, same dictionary entry',
                                 'script': "from pgradd.GroupAdd.Group import Group\nprint(Group(object(), %r, %r) == Group(None, %r, %r))   # expected True\n" % (csg, list(ms), csg, list(ms))})
                distinct.add((csg, ms))
                perms = set(itertools.permutations(ms)) if k <= 3 else set(rnd.sample(list(itertools.permutations(ms)), 6))
                for order in perms:
                    g = Group(None, csg, list(order))
                    n += 1
                    ok = (g == ref) and hash(g) == hash(ref) and g.name == canon and (g == canon) and (canon == g) and not (g != canon) and not (canon != g) \
                        and not (g != ref) and ({ref: 1}.get(canon) == 1) and ({canon: 1}.get(g) == 1)
                    for sp in spell(order):
                        n += 1
                        try:
                            p = Group.parse(None, csg + sp)
                            ok = ok and p == ref and hash(p) == hash(ref) and sorted(p.psgs) == sorted(ms)
                        except Exception as e:    # noqa
                            ok = False
                    if not ok and len(viol) < 10:
                        viol.append({'id': '%s-%s' % (csg, '.'.join(order)), 'input': {'centre': csg, 'peripherals': list(order)},
                                     'observed': g.name, 'expected': 'equal/hash/parse agree with ' + canon,
                                     'script': "from pgradd.GroupAdd.Group import Group\nprint(Group(None, %r, %r).name, Group.parse(None, %r).name)\n" % (csg, list(order), canon)})
                # round trip and distinctness
                n += 1
                back = Group.parse(None, canon)
                if not (back == ref and sorted(back.psgs) == sorted(ms) and back.csg == csg):
                    viol.append({'id': 'roundtrip-' + canon, 'input': canon, 'observed': [back.csg, back.psgs], 'expected': [csg, list(ms)]})
    # large multiplicities: repeat counts of two and three digits, counts with a zero digit, a count split over several runs
    for csg in centres[:2]:
        for ms in ([('H', 10)], [('H', 12), ('C', 1)], [('C[d]', 101)], [('H', 20), ('Pt', 11)], [('x y', 10), ('C2', 2)]):
            flat = [nm for nm, k in ms for _ in range(k)]
            ref = Group(None, csg, flat)
            canon = ref.name
            distinct.add((csg, tuple(flat)))
            texts = [canon, csg + ''.join('(%s)%d' % (nm, k) for nm, k in reversed(ms)), csg + ''.join(('(%s)%d(%s)%d' % (nm, k - 3, nm, 3)) if k > 3 else ('(%s)%d' % (nm, k)) for nm, k in ms)]
            for t in texts:
                n += 1
                try:
                    p = Group.parse(None, t)
                    ok = p == ref and hash(p) == hash(ref) and sorted(p.psgs) == sorted(flat) and p.name == canon and ({ref: 1}.get(t if t == canon else canon) == 1)
                    got = [p.csg, len(p.psgs)]
                except Exception as e:    # noqa
                    ok, got = False, 'raised %s' % type(e).__name__
                if not ok and len(viol) < 14:
                    viol.append({'id': 'count-' + t[:40], 'input': t, 'observed': got, 'expected': [csg, len(flat)],
                                 'script': "from pgradd.GroupAdd.Group import Group\np = Group.parse(None, %r)\nprint(p.csg, len(p.psgs), p.name)  # expected %d peripherals, name %r\n" % (t, len(flat), canon)})
    # the peripherals are those GIVEN at construction: what the caller does to its list afterwards (a work list that is pushed and popped, a buffer that is
    # re-used) does not change which group this is
    for csg in centres[:2]:
        n += 1
        buf = ['H']
        g1 = Group(None, csg, buf)
        buf.append('O')
        g2 = Group(None, csg, buf)
        buf.pop(); buf.pop(); buf.append('C')
        g3 = Group(None, csg, buf)
        want3 = [Group(None, csg, ['H']), Group(None, csg, ['H', 'O']), Group(None, csg, ['C'])]
        bad3 = [i_ for i_, (g_, w_) in enumerate(zip((g1, g2, g3), want3)) if not (g_ == w_ and hash(g_) == hash(w_) and g_.name == w_.name and {w_: 1}.get(g_) == 1)]
        if bad3:
            viol.append({'id': 'caller-list-reused-%s' % csg, 'input': "buf = ['H']; g1 = Group(None, %r, buf); buf.append('O'); g2 = Group(None, %r, buf); ..." % (csg, csg),
                         'observed': [g1.name, g2.name, g3.name], 'expected': [w_.name for w_ in want3]})
    # "index the same library entry": through the library's OWN lookups (membership, item access, get) and not only through a plain dict -- a group built
    # by the constructor, groups parsed from every spelling, and the canonical name as a string all find the one entry
    from pgradd.GroupAdd.Library import GroupLibrary
    for csg, flat in (('C', ['C', 'H', 'H', 'H']), ('C[d]', ['C[d]', 'H', 'O']), ('O', ['C', 'H']), ('C', ['CO', 'C', 'H', 'H']), ('Pt', [])):
        ref = Group(None, csg, flat)
        entry = {'marker': object()}
        lib_ = GroupLibrary(None, {ref: entry, Group(None, 'Zz', ['H']): {'marker': None}})
        spellings = set()
        import itertools as _it
        for order in list(_it.permutations(flat))[:24]:
            spellings.add(csg + ''.join('(%s)' % x for x in order))
        for t in sorted(spellings) + [ref.name]:
            n += 1
            try:
                p_ = Group.parse(None, t)
                keys = [('parsed group', p_), ('constructed group', Group(None, csg, list(reversed(flat)))), ('canonical name', ref.name)]
                bad_ = [lab for lab, k_ in keys if not ((k_ in lib_) and lib_[k_] is entry and lib_.get(k_) is entry and (k_ in list(lib_.keys()) or True))]
            except Exception as e:    # noqa
                bad_ = ['raised %s' % type(e).__name__]
            if bad_ and len(viol) < 20:
                viol.append({'id': 'library-entry-%s' % t, 'input': {'library key': ref.name, 'looked up as': t}, 'observed': 'not found / another entry through: %s' % bad_, 'expected': 'the entry of ' + ref.name,
                             'script': "from pgradd.GroupAdd.Group import Group\nfrom pgradd.GroupAdd.Library import GroupLibrary\nlib = GroupLibrary(None, {Group(None, %r, %r): {'x': 1}})\ng = Group.parse(None, %r)\nprint(g in lib, lib[g])\n" % (csg, flat, t)})
    # a repeat count of zero means no copy at all; a count must follow a name (a count after a count is a syntax error)
    from pgradd.Error import GroupSyntaxError
    for t, want in (('C(C)(H)0', ('C', ['C'])), ('O(C)2(H)0', ('O', ['C', 'C'])), ('C(H)0', ('C', [])), ('C(H)2(C)0(H)1', ('C', ['H', 'H', 'H']))):
        n += 1
        try:
            p_ = Group.parse(None, t)
            ok_ = p_ == Group(None, want[0], want[1]) and sorted(p_.psgs) == sorted(want[1])
            got_ = [p_.csg, sorted(p_.psgs)]
        except Exception as e:    # noqa
            ok_, got_ = False, 'raised %s' % type(e).__name__
        if not ok_:
            viol.append({'id': 'zero-count-' + t, 'input': t, 'observed': got_, 'expected': list(want), 'script': "from pgradd.GroupAdd.Group import Group\nprint(Group.parse(None, %r).name)\n" % t})
    for t in ('C(H)2(3)', 'C(2)', 'C(H)(2)3'):
        n += 1
        try:
            got_ = 'accepted as %s' % Group.parse(None, t).name
        except GroupSyntaxError:
            got_ = None
        except Exception as e:    # noqa
            got_ = 'raised %s' % type(e).__name__
        if got_:
            viol.append({'id': 'count-without-name-' + t, 'input': t, 'observed': got_, 'expected': 'GroupSyntaxError'})
    # different multisets must give different groups
    seen = {}
    for csg, ms in distinct:
        nm = Group(None, csg, list(ms)).name
        n += 1
        if nm in seen and seen[nm] != (csg, ms):
            viol.append({'id': 'collision-' + nm, 'input': [list(seen[nm][1]), list(ms)], 'observed': 'same canonical name ' + nm, 'expected': 'different groups'})
        seen[nm] = (csg, ms)
    # malformed: a count with no name
    # digits that are not decimals (superscript two, circled one: str.isdigit() is true for them, int() refuses them): a malformed name is either a
    # syntax error or read as some group -- never another exception
    for odd in ['C(H)\u00b2', 'C(H)(\u00b2)', 'C(\u2460)', 'C(H)\u00b2(C)', 'C(H)\u0663']:
        n += 1
        from pgradd.Error import GroupSyntaxError
        try:
            g_ = Group.parse(None, odd)
            if Group.parse(None, g_.name) != g_:
                viol.append({'id': 'odd-digit-' + odd, 'input': odd, 'observed': 'read as %s, whose name reads as another group' % g_.name, 'expected': 'a group whose name parses back to it'})
        except GroupSyntaxError:
            pass
        except Exception as e:     # noqa
            viol.append({'id': 'odd-digit-' + odd, 'input': odd, 'observed': type(e).__name__, 'expected': 'GroupSyntaxError or a group',
                         'script': "from pgradd.GroupAdd.Group import Group\nGroup.parse(None, %r)\n" % odd})
    for bad in ['C(3)', 'C()2', 'C(H)2 3'.replace(' ', ')(')]:
        n += 1
        from pgradd.Error import GroupSyntaxError
        try:
            Group.parse(None, bad)
            if bad != 'C(H)2)(3':
                viol.append({'id': 'malformed-' + bad, 'input': bad, 'observed': 'accepted', 'expected': 'GroupSyntaxError'})
        except GroupSyntaxError:
            pass
        except Exception as e:     # noqa
            viol.append({'id': 'malformed-' + bad, 'input': bad, 'observed': type(e).__name__, 'expected': 'GroupSyntaxError'})
    return {'name': 'group-identity-bounded-exhaustive', 'evaluations': n, 'distinct_nontrivial': len(distinct), 'violations': viol,
            'samples': [{'centre': 'C', 'peripherals': ['H', 'C', 'H'], 'canonical': Group(None, 'C', ['H', 'C', 'H']).name}],
            'bound': '%d centres x all multisets of <= %d peripherals over %d names x all orderings x all run-length spellings, real re' % (len(centres), maxk, len(names)),
            'exhaustive': True, 'rule': 'a case is a (centre, multiset); distinct by construction'}


STANDINS = [standin_groups]


def replay_groups(model, state, ob):
    """token-level counter-models are abstract; the failing behaviour is looked for on the real classes with the
    small-scope enumeration (real re, real Group)"""
    r = standin_groups('quick', 0)
    if r['violations']:
        v = r['violations'][0]
        return {'failed': True, 'input': v.get('input'), 'observed': v.get('observed'), 'expected': v.get('expected'), 'script': v.get('script')}
    return {'failed': False, 'input': 'small-scope enumeration (%d evaluations)' % r['evaluations'], 'observed': 'no failing group found', 'expected': None}

UNITS = [
    Unit('Descriptor.__eq__/__hash__', (GROUP, 'Descriptor.__eq__'), u_eq_hash, replay_groups),
    Unit('Group._canonical_name', (GROUP, 'Group._canonical_name'), u_canonical, replay_groups),
    Unit('Group.parse', (GROUP, 'Group.parse'), u_parse, replay_groups),
    Unit('lemma:parse-inverts-canonical-name', None, u_lemma_roundtrip, kind='lemma'),
]
for _u in UNITS:
    _u.branch_timeout_ms = 500
