"""Helpers to state contracts over Outcomes."""
import z3
from pyvc.engine import is_z3


def zor(cs):
    cs = [c for c in cs if c is not False]
    if any(c is True for c in cs):
        return z3.BoolVal(True)
    return z3.Or(cs) if cs else z3.BoolVal(False)


def zand(cs):
    cs = [c for c in cs if c is not True]
    if any(c is False for c in cs):
        return z3.BoolVal(False)
    return z3.And(cs) if cs else z3.BoolVal(True)


def check_outcome(I, out, raises=None, returns=None, site=''):
    """raises: dict class-name -> z3 condition under which (exactly) that exception is the specified outcome ('*' = an exception of any class: use it
    where the property does not name the error, so that a maintainer's other choice of exception class is not reported).
    returns: callable(value) -> list of (label, formula).  Anything else is an unexpected outcome."""
    raises = raises or {}
    W = I.world
    if out.kind == 'raise':
        cname = out.value.cls.name
        for spec_name, cond in raises.items():
            # '*': the property only says "is rejected / fails / raises an error" -- any exception class is the specified outcome
            if spec_name == '*' or cname == spec_name or any(c.name == spec_name for c in W.mro(out.value.cls)):
                I.ctx.oblige('raises-%s-only-when-specified' % spec_name, cond, site=site)
                return
        I.ctx.oblige('no-unexpected-exception(%s)' % cname, z3.BoolVal(False), site=site,
                     exc_args=str(out.value.fields.get('args'))[:200])
        return
    # normal return: must not be a case where the spec demands an exception
    if raises:
        I.ctx.oblige('returns-only-when-no-exception-specified', z3.Not(zor(list(raises.values()))), site=site)
    if returns is not None:
        for label, f in returns(out.value):
            I.ctx.oblige(label, f, site=site)
