"""C20 -- Standard errors are the scaled quadratic form of the descriptors.

SE_X(T) = |RMSE_X(T)| * sqrt(x' M x): x holds the descriptor counts in the order of the uncertainty basis, M is the
stored matrix; a descriptor outside the basis is an error; the result is a non-negative plain number."""
import z3

from pyvc import source, loops, npmodel
from pyvc.engine import Obj, Builtin, SymSeq, NDArr, Unsupported, NotImplementedVal, is_z3, z3_of, ite_value
from pyvc.source import BuiltinClass
from pyvc.verify import Unit, run_target
from . import gd, C01
from .gd import GDWorld, GD, Key, Count, CorrOf, HasThermo, Val, Raises, corr, key_obj, GroupCls
from .spec import check_outcome

PROPERTY = 'C20'
IS, RS, BS = z3.IntSort(), z3.RealSort(), z3.BoolSort()
Basis = z3.Function('Basis', IS, IS)            # i-th descriptor of the uncertainty basis
BasisIdx = z3.Function('BasisIdx', IS, IS)      # position of a descriptor in the basis
InBasis = z3.Function('InBasis', IS, BS)
KeyPos = z3.Function('KeyPos', IS, IS)          # position of a descriptor in the mapping (inverse of Key)
VecCls = BuiltinClass('AbsVector')
RowCls = BuiltinClass('AbsRowTimesMatrix')
MatCls = BuiltinClass('AbsMatrix')
TRUSTED = ['numpy (symbolic size): np.zeros((m,1)) is the zero column; v[i] = c replaces entry i; '
           'np.dot(np.dot(np.transpose(x), M), x) is the 1x1 array [[x\'Mx]]; float() of an array requires ndim == 0 '
           '(installed numpy 2.x; probed)',
           'x\'Mx >= 0 for the stored matrices (positive semi-definiteness is a data obligation of C14)',
           'sqrt: s = np.sqrt(a) satisfies s >= 0 and s*s == a for a >= 0']


class W(GDWorld):
    def __init__(self):
        GDWorld.__init__(self)
        np = self.externs['numpy'].members
        zeros0 = np['zeros']

        def zeros(I, a, k):
            shape = a[0]
            if isinstance(shape, tuple) and len(shape) == 2 and is_z3(shape[0]) and shape[1] == 1:
                return Obj(VecCls, {'m': shape[0], 'at': (lambda i: z3.RealVal(0)), 'T': False}, 'fresh')
            return zeros0.fn(I, a, k)
        np['zeros'] = Builtin('np.zeros', zeros)
        tr0 = np['transpose']

        def transpose(I, a, k):
            v = a[0]
            if isinstance(v, Obj) and v.cls is VecCls:
                return Obj(VecCls, {'m': v.fields['m'], 'at': v.fields['at'], 'T': not v.fields['T'], 'of': v}, 'fresh')
            return tr0.fn(I, a, k)
        np['transpose'] = Builtin('np.transpose', transpose)
        dot0 = np['dot']

        def dot(I, a, k):
            x, y = a
            if isinstance(x, Obj) and x.cls is VecCls and x.fields['T'] and isinstance(y, Obj) and y.cls is MatCls:
                return Obj(RowCls, {'vec': x.fields.get('of'), 'mat': y}, 'fresh')
            if isinstance(x, Obj) and x.cls is RowCls and isinstance(y, Obj) and y.cls is VecCls and not y.fields['T']:
                q = I.ctx.fresh('xMx', 'real')
                I.ctx.assume(q >= 0)
                I.ctx.ghost.setdefault('quads', {})[q.get_id()] = (x.fields['vec'], x.fields['mat'], y)
                return NDArr((1, 1), [q])
            if isinstance(x, Obj) or isinstance(y, Obj):
                raise Unsupported('np.dot on abstract operands of this shape')
            return dot0.fn(I, a, k)
        np['dot'] = Builtin('np.dot', dot)
        sqrt0 = np['sqrt']

        def sqrt(I, a, k):
            r = sqrt0.fn(I, a, k)
            items = r.items if isinstance(r, NDArr) else [r]
            args = a[0].items if isinstance(a[0], NDArr) else [a[0]]
            for s, x in zip(items, args):
                x = z3_of(x)
                I.ctx.oblige('sqrt argument non-negative', x >= 0, site='np.sqrt')
                I.ctx.assume(z3.And(s >= 0, s * s == x))
            return r
        np['sqrt'] = Builtin('np.sqrt', sqrt)
        self.abstract['AbsVector'] = {'setitem': vec_setitem, 'attr': lambda I, v, n: NotImplementedVal}
        self.symseq_index = basis_index


def vec_setitem(I, v, idx, val):
    if v.origin != 'fresh':
        I.ctx.effect('write', v.oid, 'vector', 'item')
    old = v.fields['at']
    idx = z3_of(idx)
    val = z3_of(val)
    val = z3.ToReal(val) if z3.is_int(val) else val
    v.fields['at'] = lambda i: z3.If(i == idx, val, old(i))
    return None


def basis_index(I, seq, item):
    """list.index on the uncertainty basis: position of the descriptor, ValueError if it is not in the basis"""
    if seq.name != 'uq-descriptors' or not (isinstance(item, Obj) and item.cls is GroupCls):
        raise Unsupported('index() on this symbolic sequence')
    gid = item.fields['gid']
    if I.ctx.branch(InBasis(gid)):
        i = BasisIdx(gid)
        I.ctx.assume(z3.And(0 <= i, i < seq.length, Basis(i) == gid))
        return i
    raise I.exc('ValueError', 'not in list')


def world():
    return W()


def mk_uq(I):
    m = I.fresh('m_basis', 'int')
    I.ctx.assume(m >= 1)
    D = SymSeq(m, lambda i: key_obj(Basis(i)), 'uq-descriptors', origin='param')
    i, j = z3.Int('i!b1'), z3.Int('j!b1')
    I.ctx.assume_forall([i, j], z3.Implies(z3.And(0 <= i, i < j, j < m), Basis(i) != Basis(j)), 'basis descriptors distinct')
    I.ctx.assume_forall([i], z3.Implies(z3.And(0 <= i, i < m), z3.And(InBasis(Basis(i)), BasisIdx(Basis(i)) == i)), 'index of a basis descriptor')
    mat = Obj(MatCls, {}, 'param')
    rmse_corr = corr(z3.IntVal(-7))
    rmse = Obj(BuiltinClass('RMSEPropertySets'), {'thermochem': rmse_corr}, 'param')
    dof = I.fresh('dof', 'int')
    return {'RMSE': rmse, 'descriptors': D, 'mat': mat, 'dof': dof}, m, mat, rmse_corr


def in_map_first(gid, j, n):
    """descriptor gid is one of the first j keys of the mapping"""
    p = KeyPos(gid)
    return z3.And(0 <= p, p < j, Key(p) == gid)


def init_loop2(selfobj, holder, m, n):
    def state_at(I, j, env, it):
        xp = Obj(VecCls, {'m': m, 'at': (lambda i: z3.If(in_map_first(Basis(i), j, n), Count(Basis(i)), z3.RealVal(0))), 'T': False}, 'fresh')
        env.local['xp'] = xp
        holder['xp'] = xp
        t = z3.Int('t!inb')
        I.ctx.assume_forall([t], z3.Implies(z3.And(0 <= t, t < j), InBasis(Key(t))), 'processed keys are in the basis')
        for v in ('count', 'group', 'i'):
            env.local.pop(v, None)

    def check_inv(I, j, env, it):
        xp = env.local.get('xp')
        if not (isinstance(xp, Obj) and xp.cls is VecCls):
            return [('xp is the count vector', z3.BoolVal(False))]
        i = I.ctx.fresh('inv_b', 'int')
        t = I.ctx.fresh('inv_t', 'int')
        I.ctx.instantiate([i, j, j - 1, KeyPos(Basis(i)), t])
        return [('every processed key is in the basis (arbitrary t)', z3.Implies(z3.And(0 <= t, t < j), InBasis(Key(t)))),
                ('entry i of x is the count of basis descriptor i if it is among the processed keys, else 0 (arbitrary i)',
                 z3.Implies(z3.And(0 <= i, i < m),
                            xp.fields['at'](i) == z3.If(in_map_first(Basis(i), j, n), Count(Basis(i)), z3.RealVal(0)))),
                ('x has one entry per basis descriptor', xp.fields['m'] == m)]
    return loops.for_rule('basis', state_at, check_inv)


def u_init_uq(I):
    ctx = I.ctx
    uq, m, mat, rmse_corr = mk_uq(I)
    lib = gd.mk_lib(I, uq=uq)
    groups, n = gd.mk_groups(I)
    cls = source.module(GD).classes['ThermochemGroupAdditive']
    o = Obj(cls, {}, origin='fresh')
    i = z3.Int('i!h')
    ctx.assume_forall([i], z3.Implies(z3.And(0 <= i, i < n), HasThermo(Key(i))), 'every descriptor has data')
    ctx.assume_forall([i], z3.Implies(z3.And(0 <= i, i < n), KeyPos(Key(i)) == i), 'KeyPos inverts Key')
    ctx.assume(z3.Not(C01.AnyRange(0)))
    jj = z3.Int('j!r')
    for ax in C01.range_fold_axioms(jj):
        ctx.assume_forall([jj], z3.Implies(z3.And(0 <= jj, jj < n), ax), 'range fold definition')
    holder = {}
    I.world.loop_specs[(GD, 'ThermochemGroupAdditive.__init__', 0)] = C01.init_loop1(o)
    I.world.loop_specs[(GD, 'ThermochemGroupAdditive.__init__', 1)] = init_loop2(o, holder, m, n)
    _orig = ctx.fresh

    def fresh(name, sort):
        v = _orig(name, sort)
        if name in ('j_terms', 'j_basis'):
            ctx.instantiate([v])
        return v
    ctx.fresh = fresh
    out = run_target(I, GD, 'ThermochemGroupAdditive.__init__', [lib, groups], self_obj=o)
    k = ctx.fresh('k', 'int')
    ctx.assume(z3.And(0 <= k, k < n))
    ctx.instantiate([k])
    outside = z3.Not(InBasis(Key(ctx.fresh('j_out', 'int')))) if False else None
    if out.kind == 'raise' and out.value.cls.name == 'ValueError':
        # raised inside the arbitrary iteration j of the second loop: that key is outside the basis
        j = z3.Int('j_basis')
        ctx.oblige('ValueError only for a descriptor outside the uncertainty basis', z3.Not(InBasis(Key(j))))
        return {'inputs': {}}

    def posts(_):
        f = o.fields
        ps = [('every descriptor of the mapping is in the basis (arbitrary k): none is silently ignored', InBasis(Key(k)))]
        q = f.get('Xp_invXX_Xp')
        qt = q.items[0] if isinstance(q, NDArr) and len(q.items) == 1 else q
        ok = is_z3(qt) and qt.get_id() in ctx.ghost.get('quads', {})
        ps.append(('Xp_invXX_Xp is the quadratic form x\'Mx', z3.BoolVal(bool(ok))))
        ps.append(('x\'Mx is stored as a 0-dimensional value, so that float(sqrt(RMSE^2 * x\'Mx)) is defined (numpy >= 2)',
                   z3.BoolVal(not isinstance(q, NDArr) or q.shape == ())))
        if ok:
            v1, M, v2 = ctx.ghost['quads'][qt.get_id()]
            ps.append(('both factors are the same count vector and M is the stored matrix', z3.BoolVal(v1 is v2 and M is mat and v1 is not None)))
            b = ctx.fresh('b', 'int')
            ctx.instantiate([b, KeyPos(Basis(b))])
            present = z3.And(0 <= KeyPos(Basis(b)), KeyPos(Basis(b)) < n, Key(KeyPos(Basis(b))) == Basis(b))
            ps.append(('x[b] is the count of basis descriptor b if the mapping has it, else 0 (arbitrary b)',
                       z3.Implies(z3.And(0 <= b, b < m), v2.fields['at'](b) == z3.If(present, Count(Basis(b)), z3.RealVal(0)))))
        ps.append(('RMSE correlation and dof taken from the library', z3.BoolVal(f.get('RMSE') is rmse_corr and f.get('dof') is uq['dof'])))
        return ps
    check_outcome(I, out, raises={'*': z3.And(C01.AnyRange(n), C01.CMax(n) < C01.CMin(n))}, returns=posts)
    return {'inputs': {}}


def se_unit(X, method):
    def run(I):
        ctx = I.ctx
        o, n, CorrAt, CountAt = C01.mk_estimate(I)
        q = I.fresh('xMx', 'real')
        ctx.assume(q >= 0)
        rid = z3.IntVal(-7)
        o.fields['RMSE'] = corr(rid)
        # class invariant established by __init__ (unit above): x'Mx is stored as a 0-dimensional value
        o.fields['Xp_invXX_Xp'] = q
        T = I.fresh('T', 'real')
        out = run_target(I, GD, 'ThermochemGroupAdditive.' + method, [T], self_obj=o)
        r = Val[X](rid, T)

        def posts(s):
            plain = is_z3(s) and z3.is_real(s)
            if not plain:
                return [('standard error is a plain number', z3.BoolVal(False))]
            absr = z3.If(r >= 0, r, -r)
            return [('standard error is a plain non-negative number', s >= 0),
                    ('SE^2 == RMSE(T)^2 * x\'Mx', s * s == r * r * q)]
        check_outcome(I, out, raises={'IncompleteDataError': Raises[X](rid, T)}, returns=posts, site=method)
        return {'inputs': {}}
    return run


def replay_se(model, state, ob):
    import io, contextlib
    import pgradd.ThermoChem
    from pgradd.GroupAdd.Library import GroupLibrary
    with contextlib.redirect_stdout(io.StringIO()):
        lib = GroupLibrary.Load('GRWSurface2018')
        d = lib.GetDescriptors('C([Pt])C')
        est = lib.Estimate(d, 'thermochem')
        try:
            got = est.get_HoRT_SE(400.)
            ok = isinstance(got, float) and got >= 0
        except Exception as e:
            got, ok = 'raised %s: %s' % (type(e).__name__, e), False
    return {'failed': not ok, 'input': "GRWSurface2018 C([Pt])C get_HoRT_SE(400)", 'observed': got, 'expected': 'a non-negative float',
            'script': "import pgradd.ThermoChem\nfrom pgradd.GroupAdd.Library import GroupLibrary\nlib = GroupLibrary.Load('GRWSurface2018')\n"
                      "est = lib.Estimate(lib.GetDescriptors('C([Pt])C'), 'thermochem')\nprint(est.get_HoRT_SE(400.))\n"}


def u_lemma_se(I):
    """From SE >= 0 and SE^2 = r^2 q with q >= 0: SE = |r| sqrt(q); scaling all counts by c scales q by c^2
    (homogeneity of the quadratic form, a property of x'Mx) and hence SE by |c|."""
    ctx = I.ctx
    r, q, s, c, s2, sq = (I.fresh(nm, 'real') for nm in ('r', 'q', 's', 'c', 's2', 'sq'))
    ctx.assume(z3.And(q >= 0, s >= 0, s * s == r * r * q, sq >= 0, sq * sq == q))
    absr = z3.If(r >= 0, r, -r)
    absc = z3.If(c >= 0, c, -c)
    ctx.oblige('SE == |RMSE| * sqrt(x\'Mx)', s == absr * sq)
    ctx.assume(z3.And(s2 >= 0, s2 * s2 == r * r * (c * c * q)))
    ctx.oblige('SE(c*x) == |c| * SE(x)', s2 == absc * s)
    return {'inputs': {}}


UNITS = [
    Unit('ThermochemGroupAdditive.__init__(uncertainty)', (GD, 'ThermochemGroupAdditive.__init__'), u_init_uq, replay_se),
    Unit('ThermochemGroupAdditive.get_CpoR_SE', (GD, 'ThermochemGroupAdditive.get_CpoR_SE'), se_unit('CpoR', 'get_CpoR_SE'), replay_se),
    Unit('ThermochemGroupAdditive.get_HoRT_SE', (GD, 'ThermochemGroupAdditive.get_HoRT_SE'), se_unit('HoRT', 'get_HoRT_SE'), replay_se),
    Unit('ThermochemGroupAdditive.get_SoR_SE', (GD, 'ThermochemGroupAdditive.get_SoR_SE'), se_unit('SoR', 'get_SoR_SE'), replay_se),
    Unit('lemma:standard-error', None, u_lemma_se, kind='lemma'),
]

from . import standins
STANDINS = [standins.c20_se]
