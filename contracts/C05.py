"""C05 -- Correlations are thermodynamically consistent with their data.

Top-level postconditions come from the property text: T*H/RT changes by the integral of Cp/R, S/R by the integral
of Cp/(R*T), with Cp held at its end values outside the tabulated span; H/RT(T_ref) = H_ref, S/R(T_ref) = S_ref."""
import z3

from pyvc import source
from pyvc.engine import Obj, is_z3, z3_of, NDArr
from pyvc.verify import Unit, run_target, concretize
from . import common, thermo
from .common import ThermoWorld, SplineVal, SplineInt, SplineIntOverT, Ln, fval
from .spec import check_outcome
from .thermo import RAW, BASE, RawSym, clamp

PROPERTY = 'C05'


class W(ThermoWorld):
    def __init__(self):
        ThermoWorld.__init__(self)

    def log_hook(self, I, x):
        """np.log(a/b) = Ln(a) - Ln(b) for a, b > 0 (library lemma; side obligations a>0, b>0)."""
        if z3.is_app(x) and x.decl().kind() == z3.Z3_OP_DIV:
            a, b = x.arg(0), x.arg(1)
            I.ctx.oblige('log-arguments-positive', z3.And(a > 0, b > 0), site='np.log')
            return Ln(a) - Ln(b)
        I.ctx.oblige('log-argument-positive', x > 0, site='np.log')
        return Ln(x)


def world():
    return W()


# ---------------------------------------------------------------------------------------------
def replay_raw(method, expect):
    """Replay a counter-model on the real ThermochemRawData.<method>."""
    def rp(model, state, ob):
        vals = concretize(model, state['inputs'])
        T = fval(vals.pop('T'))
        try:
            obj, v, Ts, Cps = thermo.build_real_rawdata(vals)
        except Exception as e:
            return {'failed': None, 'error': 'model not constructible through the real constructor: %r' % (e,),
                    'input': {k: str(x) for k, x in vals.items()}}
        iH, iS = thermo.ref_integrals(Ts, Cps, v['T_ref'], T)
        try:
            got = getattr(obj, method)(T)
        except Exception as e:
            got = 'raised %s' % type(e).__name__
        if expect == 'H':
            want = (v['H_ref'] * v['T_ref'] + iH) / T
        elif expect == 'S':
            want = v['S_ref'] + iS
        else:
            want = None
        failed = isinstance(got, str) or (want is not None and abs(got - want) > 1e-6 * max(1.0, abs(want)))
        script = ("from pgradd.ThermoChem.raw_data import ThermochemRawData\n"
                  "o = ThermochemRawData(%r, %r, %r, %r, %r, (%r, %r))\nprint(o.%s(%r))  # expected %r\n"
                  % (v['H_ref'], v['S_ref'], Ts, Cps, v['T_ref'], v['lo'], v['hi'], method, T, want))
        return {'failed': bool(failed), 'input': {'table': list(zip(Ts, Cps)), 'T_ref': v['T_ref'], 'H_ref': v['H_ref'],
                                                  'S_ref': v['S_ref'], 'range': [v['lo'], v['hi']], 'T': T},
                'observed': got, 'expected': want, 'script': script}
    return rp


def u_get_HoRT(I):
    s = RawSym(I)
    T = I.fresh('T', 'real')
    for f in s.integral_axioms([s.min_T, s.max_T]):
        I.ctx.assume(f)
    out = run_target(I, RAW, 'ThermochemRawData.get_HoRT', [T], self_obj=s.obj)
    check_outcome(I, out, raises={'OutsideCorrelationError': z3.Not(s.in_range(T))},
                  returns=lambda r: [('post: T*H/RT == H_ref*T_ref + integral of CpExt from T_ref to T',
                                      r * T == s.H_ref * s.T_ref + s.IntCp(s.T_ref, T))],
                  site='ThermochemRawData.get_HoRT')
    st = s.inputs()
    st['T'] = T
    return {'inputs': st}


def u_get_SoR(I):
    s = RawSym(I)
    T = I.fresh('T', 'real')
    for f in s.integral_axioms([s.min_T, s.max_T]):
        I.ctx.assume(f)
    out = run_target(I, RAW, 'ThermochemRawData.get_SoR', [T], self_obj=s.obj)
    check_outcome(I, out, raises={'OutsideCorrelationError': z3.Not(s.in_range(T))},
                  returns=lambda r: [('post: S/R == S_ref + integral of CpExt(t)/t from T_ref to T',
                                      r == s.S_ref + s.IntCpT(s.T_ref, T))],
                  site='ThermochemRawData.get_SoR')
    st = s.inputs()
    st['T'] = T
    return {'inputs': st}


def u_get_CpoR(I):
    s = RawSym(I)
    T = I.fresh('T', 'real')
    out = run_target(I, RAW, 'ThermochemRawData.get_CpoR', [T], self_obj=s.obj)
    check_outcome(I, out, raises={'OutsideCorrelationError': z3.Not(s.in_range(T))},
                  returns=lambda r: [('post: Cp/R == CpExt(T)', r == s.CpExt(T))],
                  site='ThermochemRawData.get_CpoR')
    st = s.inputs()
    st['T'] = T
    return {'inputs': st}


def u_const_spline(I):
    """ConstantSpline refines the assumed spline contract: value constant, integral c*(b-a)."""
    cls = source.module(RAW).classes['ConstantSpline']
    c = I.fresh('c', 'real')
    a, b, t = I.fresh('a', 'real'), I.fresh('b', 'real'), I.fresh('t', 'real')
    o = Obj(cls, {}, origin='fresh')
    out0 = run_target(I, RAW, 'ConstantSpline.__init__', [c], self_obj=o)
    check_outcome(I, out0, returns=lambda r: [])
    out = run_target(I, RAW, 'ConstantSpline.integral', [a, b], self_obj=o)
    check_outcome(I, out, returns=lambda r: [('integral == c*(b-a)', r == c * (b - a)),
                                             ('integral over empty interval == 0 (refines extern axiom)',
                                              z3.Implies(a == b, r == 0))])
    out2 = run_target(I, RAW, 'ConstantSpline.__call__', [t], self_obj=o)
    check_outcome(I, out2, returns=lambda r: [('value == c (interpolates its single knot)', r == c)])
    return {'inputs': {}}


def u_GoRT(I):
    """G/RT = H/RT - S/R on any correlation (base class), whatever get_HoRT/get_SoR return."""
    cls = source.module(BASE).classes['ThermochemBase']
    h, sv = I.fresh('h', 'real'), I.fresh('s', 'real')
    T = I.fresh('T', 'real')
    se = I.ctx.choose([True, True, True])
    se_val = [None, True, False][se]
    calls = []
    from pyvc.engine import Builtin
    o = Obj(cls, {}, origin='param')
    o.fields['get_HoRT'] = Builtin('get_HoRT', lambda I_, a, k: (calls.append(('H', a, k)), h)[1])
    o.fields['get_SoR'] = Builtin('get_SoR', lambda I_, a, k: (calls.append(('S', a, k)), sv)[1])
    out = run_target(I, BASE, 'ThermochemBase.get_GoRT', [T], {'S_elements': se_val}, self_obj=o)
    check_outcome(I, out, returns=lambda r: [('G/RT == H/RT - S/R', r == h - sv)])
    ok = len(calls) == 2 and calls[0][0] == 'H' and calls[1][0] == 'S' and calls[1][2].get('S_elements') is se_val \
        and calls[0][1][0] is T and calls[1][1][0] is T
    I.ctx.oblige('calls get_HoRT(T) and get_SoR(T, S_elements=S_elements) once each', z3.BoolVal(ok))
    return {'inputs': {}}


def u_init(I):
    """ThermochemRawData.__init__ for a table of any length n >= 1 with distinct temperatures, in any order."""
    from pyvc.engine import SymSeq
    ctx = I.ctx
    n = ctx.fresh('n', 'int')
    TsF = ctx.fresh_fn('Ts', z3.IntSort(), z3.RealSort())
    CpF = ctx.fresh_fn('Cps', z3.IntSort(), z3.RealSort())
    Ts = SymSeq(n, lambda k: TsF(k), 'Ts')
    Cps = SymSeq(n, lambda k: CpF(k), 'ND_Cps')
    i, j = z3.Int('i!q'), z3.Int('j!q')
    ctx.assume(n >= 1)
    ctx.assume_forall([i, j], z3.Implies(z3.And(0 <= i, i < j, j < n), TsF(i) != TsF(j)), 'distinct temperatures')
    H, S_, T_ref = ctx.fresh('H_ref', 'real'), ctx.fresh('S_ref', 'real'), ctx.fresh('T_ref', 'real')
    has_range = ctx.choose([True, True]) == 0
    lo, hi = ctx.fresh('lo', 'real'), ctx.fresh('hi', 'real')
    rng = (lo, hi) if has_range else None
    cls = source.module(RAW).classes['ThermochemRawData']
    o = Obj(cls, {}, origin='fresh')
    out = run_target(I, RAW, 'ThermochemRawData.__init__', [H, S_, Ts, Cps, T_ref, rng], self_obj=o)
    # spec: extremes of the table, whatever the supply order
    kmin, kmax = ctx.fresh('kmin', 'int'), ctx.fresh('kmax', 'int')
    ctx.assume(z3.And(0 <= kmin, kmin < n, 0 <= kmax, kmax < n))
    ctx.assume_forall([i], z3.Implies(z3.And(0 <= i, i < n), z3.And(TsF(kmin) <= TsF(i), TsF(i) <= TsF(kmax))), 'kmin/kmax are the extremes')
    tmin, tmax = TsF(kmin), TsF(kmax)
    elo, ehi = (lo, hi) if has_range else (tmin, tmax)
    bad = z3.Or(tmin < elo, tmax > ehi, T_ref < elo, T_ref > ehi)

    def posts(_):
        f = o.fields
        ps = []
        need = ['Ts', 'ND_Cps', 'min_T', 'max_T', 'min_ND_Cp', 'max_ND_Cp', 'ND_H_ref', 'ND_S_ref', 'T_ref', 'range', 'spline']
        missing = [k for k in need if k not in f]
        ps.append(('all fields defined', z3.BoolVal(not missing)))
        if missing:
            return ps
        ps.append(('min_T is the smallest tabulated temperature and min_ND_Cp its Cp (any supply order)',
                   z3.And(f['min_T'] == tmin, f['min_ND_Cp'] == CpF(kmin))))
        ps.append(('max_T is the largest tabulated temperature and max_ND_Cp its Cp (any supply order)',
                   z3.And(f['max_T'] == tmax, f['max_ND_Cp'] == CpF(kmax))))
        r = f['range']
        ps.append(('range is the declared one, else the table span', z3.And(r[0] == elo, r[1] == ehi)
                   if isinstance(r, tuple) and len(r) == 2 else z3.BoolVal(False)))
        ps.append(('reference values stored', z3.And(f['ND_H_ref'] == H, f['ND_S_ref'] == S_, f['T_ref'] == T_ref)))
        sT, sC = f['Ts'], f['ND_Cps']
        if isinstance(sT, SymSeq) and isinstance(sC, SymSeq) and hasattr(sT, 'length'):
            ps.append(('stored table is sorted ascending', z3.Implies(z3.And(0 <= k, k < k2, k2 < n), sT.at(k) < sT.at(k2))))
            ps.append(('stored table has the n points', z3.And(sT.length == n, sC.length == n)))
        else:
            ps.append(('stored table is a sequence', z3.BoolVal(False)))
        sp = f['spline']
        if isinstance(sp, Obj) and sp.cls.name == 'ConstantSpline':
            ps.append(('constant spline only for a single point, with its Cp', z3.And(n == 1, sp.fields.get('ND_Cp') == CpF(kmin))))
        elif isinstance(sp, Obj) and sp.cls is common.SplineCls:
            x, y, kk = sp.fields['x'], sp.fields['y'], sp.fields['k']
            ps.append(('spline built on the sorted table', z3.BoolVal(x is sT and y is sC)))
            ps.append(('spline order is min(3, n-1) and n >= 2', z3.And(n >= 2, z3_of(kk) == z3.If(n > 3, 3, n - 1))))
            ps.append(('spline abscissae strictly increasing (precondition of the scipy constructor)',
                       z3.Implies(z3.And(0 <= k, k < k2, k2 < n), x.at(k) < x.at(k2))))
        else:
            ps.append(('spline object built', z3.BoolVal(False)))
        return ps
    k = ctx.fresh('k', 'int')
    k2 = ctx.fresh('k2', 'int')
    if ctx.ghost.get('perms'):
        P, Q = ctx.ghost['perms'][0]
        ctx.instantiate([0, n - 1, kmin, kmax, k, k2, P(z3.IntVal(0)), P(n - 1), P(k), P(k2), Q(kmin), Q(kmax)])
    else:
        ctx.instantiate([0, n - 1, kmin, kmax])
    check_outcome(I, out, raises={'ValueError': bad}, returns=posts, site='ThermochemRawData.__init__')
    return {'inputs': {'n': n}}


def replay_init(model, state, ob):
    """Bounded counter-model search is not needed: any unsorted 3-point table exhibits an order dependence."""
    from pgradd.ThermoChem.raw_data import ThermochemRawData
    a = ThermochemRawData(1.0, 2.0, [300., 400., 500.], [3., 4., 5.], 298.15, (200., 600.))
    b = ThermochemRawData(1.0, 2.0, [500., 300., 400.], [5., 3., 4.], 298.15, (200., 600.))
    obs = {'sorted': [a.min_T, a.max_T, a.get_HoRT(550.)], 'unsorted': [b.min_T, b.max_T, b.get_HoRT(550.)]}
    failed = obs['sorted'] != obs['unsorted']
    return {'failed': failed, 'input': {'Ts': [500., 300., 400.], 'Cps': [5., 3., 4.]}, 'observed': obs['unsorted'],
            'expected': obs['sorted'],
            'script': "from pgradd.ThermoChem.raw_data import ThermochemRawData\n"
                      "a = ThermochemRawData(1.0, 2.0, [300., 400., 500.], [3., 4., 5.], 298.15, (200., 600.))\n"
                      "b = ThermochemRawData(1.0, 2.0, [500., 300., 400.], [5., 3., 4.], 298.15, (200., 600.))\n"
                      "print(a.min_T, a.max_T, a.get_HoRT(550.)); print(b.min_T, b.max_T, b.get_HoRT(550.))\n"}


# ---- lemmas over the contracts (corollaries named in the property) ------------------------------
def u_lemmas(I):
    """From the posts of get_HoRT/get_SoR: values at T_ref, and additivity of the changes between any two
    temperatures (needs the assumed additivity of the exact integrals)."""
    s = RawSym(I)
    T1, T2 = I.fresh('T1', 'real'), I.fresh('T2', 'real')
    h1, h2, s1, s2 = (I.fresh(n, 'real') for n in ('h1', 'h2', 's1', 's2'))
    ctx = I.ctx
    ctx.assume(z3.And(s.in_range(T1), s.in_range(T2)))
    # contracts of the two calls
    ctx.assume(h1 * T1 == s.H_ref * s.T_ref + s.IntCp(s.T_ref, T1))
    ctx.assume(h2 * T2 == s.H_ref * s.T_ref + s.IntCp(s.T_ref, T2))
    ctx.assume(s1 == s.S_ref + s.IntCpT(s.T_ref, T1))
    ctx.assume(s2 == s.S_ref + s.IntCpT(s.T_ref, T2))
    c = lambda x: clamp(x, s.min_T, s.max_T)
    for F in (SplineInt, SplineIntOverT):
        ctx.assume(F(s.sid, c(s.T_ref), c(s.T_ref)) == 0)
        ctx.assume(F(s.sid, c(s.T_ref), c(T1)) + F(s.sid, c(T1), c(T2)) == F(s.sid, c(s.T_ref), c(T2)))
    ctx.oblige('H/RT(T_ref) == H_ref', z3.Implies(T1 == s.T_ref, h1 == s.H_ref))
    ctx.oblige('S/R(T_ref) == S_ref', z3.Implies(T1 == s.T_ref, s1 == s.S_ref))
    ctx.oblige('T2*H(T2) - T1*H(T1) == integral of CpExt over [T1,T2]', h2 * T2 - h1 * T1 == s.IntCp(T1, T2))
    ctx.oblige('S(T2) - S(T1) == integral of CpExt/t over [T1,T2]', s2 - s1 == s.IntCpT(T1, T2))
    return {'inputs': {}}


from .incomplete import INC_UNITS

UNITS = [
    Unit('ThermochemRawData.get_HoRT', (RAW, 'ThermochemRawData.get_HoRT'), u_get_HoRT, replay_raw('get_HoRT', 'H')),
    Unit('ThermochemRawData.get_SoR', (RAW, 'ThermochemRawData.get_SoR'), u_get_SoR, replay_raw('get_SoR', 'S')),
    Unit('ThermochemRawData.get_CpoR', (RAW, 'ThermochemRawData.get_CpoR'), u_get_CpoR, replay_raw('get_CpoR', None)),
    Unit('ThermochemRawData.__init__', (RAW, 'ThermochemRawData.__init__'), u_init, replay_init),
    Unit('ConstantSpline', (RAW, 'ConstantSpline.integral'), u_const_spline),
    Unit('ThermochemBase.get_GoRT', (BASE, 'ThermochemBase.get_GoRT'), u_GoRT),
    Unit('lemma:consistency', None, u_lemmas, kind='lemma'),
] + INC_UNITS

from . import standins
STANDINS = [standins.c05_tables]

from . import C05init     # noqa: E402
UNITS = UNITS + C05init.UNITS      # coupling invariant of ThermochemIncomplete (constructor / _setup_correlation), default-table frame

from . import C13     # noqa: E402
for _u in C13.UNITS:
    if _u.name.startswith('ThermochemIncomplete.update['):
        # update() must PRESERVE the coupling invariant (delegate rebuilt from the merged data): correlations assembled by merges are
        # correlations with data too
        if getattr(_u, 'world_factory', None) is None:
            _u.world_factory = C13.world
        UNITS.append(_u)
