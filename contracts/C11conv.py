"""C10 / C11 (shared part) -- conversions between quantities: GenericQuantity.in_units with the target given as a quantity and as text.
"Converting between quantities whose dimensions differ raises the units error" is a clause of C11; the value of a conversion is a clause of C10."""
import z3

from pyvc.engine import z3_of
from pyvc.verify import Unit, run_target
from .units import QTY, mk_qty, is_qty, same
from .spec import check_outcome


def u_in_units(I):
    ctx = I.ctx
    a, v1, e1 = mk_qty(I, 'a')
    b, v2, e2 = mk_qty(I, 'b')
    ctx.assume(v2 != 0)
    out = run_target(I, QTY, 'GenericQuantity.in_units', [b], self_obj=a)
    check_outcome(I, out, raises={'UnitsError': z3.Not(same(e1, e2))},
                  returns=lambda r: [('in_units returns the ratio of the SI magnitudes as a plain number',
                                      z3.And(z3.BoolVal(not is_qty(r)), z3_of(r) * v2 == v1) if not is_qty(r) else z3.BoolVal(False))])
    return {'inputs': {}}


def u_in_units_text(I):
    """in_units with the target given as TEXT, twice on the same process state: a first conversion (of any quantity, compatible or not) and then a second
    quantity with the same text.  Each call answers for ITS OWN quantity -- what an earlier call learned about the text must not replace the dimension test --
    and the conversion writes no shared state.  eval_expr(text) is stubbed by its contract (the C10 parser units): the quantity the text denotes."""
    ctx = I.ctx
    a, v1, e1 = mk_qty(I, 'a')
    c, v3, e3 = mk_qty(I, 'c')
    b, v2, e2 = mk_qty(I, 'b')
    ctx.assume(v2 != 0)
    text = 'K'
    I.world.contracts[(QTY, 'eval_expr')] = lambda I_, a_, k_: b if a_[0] == text else _unsup_text()
    PARSER_MOD = 'pgradd/Units/parser.py'
    I.world.contracts[(PARSER_MOD, 'eval_expr')] = I.world.contracts[(QTY, 'eval_expr')]
    first = run_target(I, QTY, 'GenericQuantity.in_units', [text], self_obj=a)
    check_outcome(I, first, raises={'UnitsError': z3.Not(same(e1, e2))},
                  returns=lambda r: [('first conversion: ratio of the SI magnitudes as a plain number', z3.And(z3.BoolVal(not is_qty(r)), z3_of(r) * v2 == v1) if not is_qty(r) else z3.BoolVal(False))])
    second = run_target(I, QTY, 'GenericQuantity.in_units', [text], self_obj=c)
    check_outcome(I, second, raises={'UnitsError': z3.Not(same(e3, e2))},
                  returns=lambda r: [('a later conversion to the same text still tests the dimension of ITS quantity and returns its own ratio',
                                      z3.And(z3.BoolVal(not is_qty(r)), z3_of(r) * v2 == v3) if not is_qty(r) else z3.BoolVal(False))])
    writes = [e for e in ctx.effects if e[0].startswith('write')]
    ctx.oblige('a conversion writes no shared state (class attributes, module tables, the unit database)', z3.BoolVal(not writes))
    return {'inputs': {}}


def _unsup_text():
    from pyvc.engine import Unsupported
    raise Unsupported('eval_expr of another text')


def replay_in_units_text(model, state, ob):
    from pgradd.Units import eval_qty, with_units
    from pgradd.Error import UnitsError
    res = []
    for first, second, u in (((300.0, 'K'), (2.0, 's'), 'K'), ((1.0, 'kJ/mol'), (5.0, 'm'), 'kJ/mol'), ((3.0, 'm'), (4.0, 'K'), 'm')):
        with_units(*first).in_units(u)
        try:
            got = with_units(*second).in_units(u)
        except UnitsError:
            got = 'UnitsError'
        except Exception as e:    # noqa
            got = 'raised ' + type(e).__name__
        res.append(('%r.in_units(%r) after a successful %r.in_units(%r)' % (second, u, first, u), got))
    bad = [r for r in res if r[1] != 'UnitsError']
    return {'failed': bool(bad), 'input': (bad or res)[0][0], 'observed': str((bad or res)[0][1]), 'expected': 'UnitsError',
            'script': "from pgradd.Units import with_units\nwith_units(300.0, 'K').in_units('K')\nprint(with_units(2.0, 's').in_units('K'))   # expected UnitsError\n"}


replay_in_units_text.model_free = True


UNITS = [
    Unit('GenericQuantity.in_units', (QTY, 'GenericQuantity.in_units'), u_in_units),
    Unit('GenericQuantity.in_units[text target, two calls]', (QTY, 'GenericQuantity.in_units'), u_in_units_text, replay_in_units_text),
]
