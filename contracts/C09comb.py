"""C09 (part 2) -- the parser combinators and ParseState.parse / __enter__ / __exit__ against the PARSER CONTRACT.

The text is never looked at here: combinators only move a position, so the contract is over integers, no string theory.

PARSER CONTRACT  K(p)  for `stream.parse(p, output)` / `p(stream, output)` at a state with 0 <= sidx <= N, lineno, colno >= 1:
   returns => sidx <= sidx' <= N, and sidx + 1 <= sidx' when p is not nullable; lineno', colno' >= 1;
              the backtracking stack is what it was; `output` was only extended (a rule name appends exactly one item)
   raises  => the exception is a RINGSyntaxError; 0 <= sidx' <= N; the stack is what it was; `output` is what it was
              (for `stream.parse`; a parser object applied directly may leave tokens of its abandoned attempt in the list it was
              given -- which is why ParseState.parse hands it a copy)
Each combinator body is verified ASSUMING K for the parsers it calls (abstract children) and PROVING K for itself
(plus what it adds: Optional / ZeroOrMore never fail, Either restores the position before failing, ZeroOrMore terminates).
By induction over (N - sidx, nesting of the grammar) -- well-founded because of the data obligations of C09 (every referenced
rule defined, no rule re-enters itself without consuming, every ZeroOrMore body non-nullable, every Either non-empty) -- every
parse of every text terminates with a tree or a RINGSyntaxError.  The induction itself is a paper step; its premises are the
obligations below, the scanner units and the data obligations."""
import ast

import z3

from pyvc import source, loops
from pyvc.engine import Obj, Builtin, SymSeq, PyExc, Unsupported, NotImplementedVal, is_z3, z3_of
from pyvc.source import BuiltinClass
from pyvc.verify import Unit, run_target
from pyvc.world import World
from .spec import check_outcome

PARSER = 'pgradd/RINGParser/Parser.py'
ERR = 'pgradd/Error.py'
IS, BS = z3.IntSort(), z3.BoolSort()
AbsParser = BuiltinClass('AbsParser')
Null = z3.Function('Nullable', IS, BS)          # ghost: parser (by id) may succeed without consuming input
N = z3.Int('N_text')
# ghost: line / column of an index of the (fixed, abstract) text -- the functions LineAt / ColAt of C09.py for this text.  Invariant of ParseState, proved for the
# position-moving primitives (skip_filler, take) in their own units and carried here: lineno == LineF(sidx), colno == ColF(sidx); every frame of the backtracking
# stack and every recorded syntax error carries the line / column of SOME index 0 <= i <= N.
LineF = z3.Function('LineOfIndex', IS, IS)
ColF = z3.Function('ColOfIndex', IS, IS)


def at_index(l, c, i):
    return z3.And(z3_of(l) == LineF(z3_of(i)), z3_of(c) == ColF(z3_of(i)))


def err_witnesses(I):
    return I.ctx.ghost.setdefault('err_index', [])


def world():
    w = World()
    return w


def _classes():
    m = source.module(PARSER)
    return m.classes


def mk_stream(I, rules=None, root='Root'):
    """a ParseState in an arbitrary consistent state; one arbitrary frame below on the backtracking stack"""
    ctx = I.ctx
    cls = _classes()['ParseState']
    s, l, c = ctx.fresh('sidx', 'int'), ctx.fresh('lineno', 'int'), ctx.fresh('colno', 'int')
    below = (ctx.fresh('below_s', 'int'), ctx.fresh('below_l', 'int'), ctx.fresh('below_c', 'int'))
    ctx.assume(z3.And(N >= 0, 0 <= s, s <= N, l >= 1, c >= 1, at_index(l, c, s)))
    ctx.assume(z3.And(0 <= below[0], below[0] <= N, at_index(below[1], below[2], below[0])))      # frames were pushed by __enter__ at a consistent position
    has_err = ctx.fresh('has_error', 'bool')
    cur = [None, mk_error(I, 'prev')][ctx.choose([True, True], 'current_error before')]
    o = Obj(cls, dict(stream=Obj(BuiltinClass('Text'), {}, 'param'), sidx=s, lineno=l, colno=c, stack=[below], has_error=has_err,
                      current_error=cur, debug=False, root=root, rules=rules if rules is not None else {}), origin='param')
    o.complete = True
    return o, (s, l, c), below


def mk_error(I, tag):
    ctx = I.ctx
    E = source.module(ERR).classes['RINGSyntaxError']
    e = Obj(E, {'toks': Obj(BuiltinClass('TokSet'), {'v': ctx.fresh('toks_' + tag, 'int')}, 'fresh'), 'lineno': ctx.fresh('elineno_' + tag, 'int'),
                'colno': ctx.fresh('ecolno_' + tag, 'int'), 'stream': None, 'args': ()}, 'fresh')
    e.complete = True
    sp = ctx.fresh('eindex_' + tag, 'int')          # ghost: the index at which this error was raised
    ctx.assume(z3.And(0 <= sp, sp <= N, at_index(e.fields['lineno'], e.fields['colno'], sp)))
    err_witnesses(I).append(sp)
    return e


def install(I, st, nullable_of=None):
    """abstract children + the contract K as callee contract of ParseState.parse"""
    W_ = I.world
    ctx = I.ctx
    classes = _classes()
    P = classes['Parser']
    P.instancecheck = lambda I_, v: isinstance(v, Obj) and (v.cls is AbsParser or (getattr(v.cls, 'node', None) is not None and I_.world.issubclass(v.cls, P)))
    counter = {'n': 0}
    log = []

    def K(I_, what, output, via, partial_on_failure=False):
        """effect of a call that satisfies the contract"""
        f = st.fields
        counter['n'] += 1
        tag = 'k%d' % counter['n']
        s0 = f['sidx']
        pid = what.fields['pid'] if isinstance(what, Obj) and what.cls is AbsParser else None
        ok = ctx.choose([True, True], 'child outcome') == 0
        s1, l1, c1 = ctx.fresh('sidx_' + tag, 'int'), ctx.fresh('lineno_' + tag, 'int'), ctx.fresh('colno_' + tag, 'int')
        f['sidx'], f['lineno'], f['colno'] = s1, l1, c1
        f['has_error'] = ctx.fresh('has_error_' + tag, 'bool')
        if ctx.choose([True, True], 'current_error after child') == 1:
            f['current_error'] = mk_error(I_, tag + 'cur')
        log.append((via, what, ok, s0, s1))
        if ok:
            if pid is not None:
                ctx.assume(z3.And(s0 + z3.If(Null(pid), 0, 1) <= s1, s1 <= N, l1 >= 1, c1 >= 1, at_index(l1, c1, s1)))
            else:
                ctx.assume(z3.And(s0 <= s1, s1 <= N, l1 >= 1, c1 >= 1, at_index(l1, c1, s1)))
            if isinstance(output, list):
                output.append(('produced-by', tag))
            return None
        ctx.assume(z3.And(0 <= s1, s1 <= N, l1 >= 1, c1 >= 1, at_index(l1, c1, s1)))
        if partial_on_failure and isinstance(output, list):
            # a parser OBJECT applied directly may have appended tokens before it failed (All does); only ParseState.parse restores
            output.append(('partial-output-of-failed', tag))
        raise PyExc(mk_error(I_, tag))
    W_.abstract['AbsParser'] = {'call': lambda I_, o, a, k: K(I_, o, a[1], 'call', partial_on_failure=True) if a[0] is st else _unsup('child applied to another stream')}
    W_.abstract['Text'] = {}
    W_.abstract['TokSet'] = {'attr': lambda I_, o, n: Builtin('copy', lambda I2, a, k: Obj(o.cls, {'v': ctx.fresh('toks_copy', 'int')}, 'fresh')) if n == 'copy' else NotImplementedVal,
                             'binop': lambda I_, op, a, b: Obj(a.cls if isinstance(a, Obj) else b.cls, {'v': ctx.fresh('toks_union', 'int')}, 'fresh')}
    return K, log


def _unsup(msg):
    raise Unsupported(msg)


def child(pid):
    return Obj(AbsParser, {'pid': z3.IntVal(pid) if isinstance(pid, int) else pid}, 'param')


def pos(st):
    f = st.fields
    return (f['sidx'], f['lineno'], f['colno'])


def same_pos(a, b):
    return z3.And([z3_of(x) == z3_of(y) for x, y in zip(a, b)])


def in_bounds(st):
    s, l, c = pos(st)
    return z3.And(0 <= s, s <= N, l >= 1, c >= 1, at_index(l, c, s))


def stack_is(st, frames):
    sk = st.fields['stack']
    if not isinstance(sk, list) or len(sk) != len(frames):
        return z3.BoolVal(False)
    return z3.And([same_pos(a, b) if isinstance(a, tuple) and len(a) == 3 else z3.BoolVal(False) for a, b in zip(sk, frames)]) if frames else z3.BoolVal(True)


def K_post(I, out, st, entry, below, nullable, never_fails=False, restores_on_failure=False, extra_ok=None):
    """the contract K as postcondition of a combinator"""
    s0 = entry[0]
    if out.kind == 'raise':
        obl = {'RINGSyntaxError': z3.BoolVal(not never_fails)}
        check_outcome(I, out, raises=obl)
        if out.value.cls.name == 'RINGSyntaxError' and not never_fails:
            I.ctx.oblige('on failure the position stays inside the text', in_bounds(st))
            ef = out.value.fields
            cands = list(err_witnesses(I)) + [pos(st)[0]]
            I.ctx.oblige('the syntax error that leaves carries the line and column of an index of the text (0 <= index <= length)',
                         z3.Or([z3.And(0 <= w, w <= N, at_index(ef['lineno'], ef['colno'], w)) for w in cands]) if 'lineno' in ef and 'colno' in ef else z3.BoolVal(False))
            I.ctx.oblige('on failure the backtracking stack is what it was', stack_is(st, [below]))
            if restores_on_failure:
                I.ctx.oblige('on failure the position is the one at entry (everything tried was undone)', same_pos(pos(st), entry))
        return
    posts = [('on success the position did not move backwards and stays inside the text', z3.And(s0 <= pos(st)[0], in_bounds(st))),
             ('on success a non-nullable parser has consumed at least one character', z3.Or(nullable, s0 + 1 <= pos(st)[0])),
             ('on success the backtracking stack is what it was', stack_is(st, [below]))]
    if extra_ok:
        posts += extra_ok()
    check_outcome(I, out, raises={}, returns=lambda r: posts)


# ---------------------------------------------------------------------------------------------------- __enter__ / __exit__
def u_enter_exit(I):
    ctx = I.ctx
    st, entry, below = mk_stream(I)
    install(I, st)
    scen = ['no exception', 'RINGSyntaxError', 'other exception'][ctx.choose([True] * 3, 'how the with-block ends')]
    cls = _classes()['ParseState']
    r0 = run_target(I, PARSER, 'ParseState.__enter__', [], self_obj=st)
    check_outcome(I, r0, raises={}, returns=lambda r: [('__enter__ returns the stream itself', z3.BoolVal(r is st)),
                                                       ('__enter__ pushes the current (position, line, column)', stack_is(st, [below, entry])),
                                                       ('__enter__ does not move', same_pos(pos(st), entry))])
    if r0.kind != 'return':
        return {'inputs': {}}
    # the block moves somewhere
    for k in ('sidx', 'lineno', 'colno'):
        st.fields[k] = ctx.fresh(k + '_inblock', 'int')
    moved = pos(st)
    he0, ce0 = st.fields['has_error'], st.fields['current_error']
    if scen == 'no exception':
        out = run_target(I, PARSER, 'ParseState.__exit__', [None, None, None], self_obj=st)
        check_outcome(I, out, raises={}, returns=lambda r: [
            ('without an exception the frame is dropped and the position kept', z3.And(stack_is(st, [below]), same_pos(pos(st), moved))),
            ('has_error is cleared', z3.BoolVal(st.fields['has_error'] is False)),
            ('nothing is suppressed', z3.BoolVal(not r))])
    elif scen == 'RINGSyntaxError':
        e = mk_error(I, 'raised')
        out = run_target(I, PARSER, 'ParseState.__exit__', [e.cls, e, None], self_obj=st)
        check_outcome(I, out, raises={}, returns=lambda r: [
            ('a syntax error restores (position, line, column) of entry and drops the frame', z3.And(stack_is(st, [below]), same_pos(pos(st), entry))),
            ('the error is recorded: has_error set, current_error is the (merged) error raised', z3.BoolVal(st.fields['has_error'] is True and st.fields['current_error'] is e)),
            ('the recorded error - merged with the one recorded before (RINGSyntaxError.update, interpreted) - still carries the line and column of ONE index of the text',
             z3.Or([z3.And(0 <= w, w <= N, at_index(e.fields['lineno'], e.fields['colno'], w)) for w in err_witnesses(I)]) if err_witnesses(I) else z3.BoolVal(False)),
            ('the syntax error is suppressed (backtracking)', z3.BoolVal(r is True))])
    else:
        e = I.exc('ValueError', 'x').obj
        out = run_target(I, PARSER, 'ParseState.__exit__', [e.cls, e, None], self_obj=st)
        check_outcome(I, out, raises={}, returns=lambda r: [
            ('any other exception restores the position and drops the frame', z3.And(stack_is(st, [below]), same_pos(pos(st), entry))),
            ('... and is NOT suppressed', z3.BoolVal(not r)),
            ('... and is not recorded as a syntax error', z3.BoolVal(st.fields['has_error'] is he0 and st.fields['current_error'] is ce0))])
    return {'inputs': {}}


# ---------------------------------------------------------------------------------------------------- ParseState.parse
def u_parse_parser(I):
    ctx = I.ctx
    st, entry, below = mk_stream(I)
    K, log = install(I, st)
    p = child(1)
    m0 = ('earlier-item',)
    output = [m0]
    out = run_target(I, PARSER, 'ParseState.parse', [p, output], self_obj=st)
    if out.kind == 'raise':
        K_post(I, out, st, entry, below, Null(1))
        ctx.oblige('a failing parser leaves the output list untouched (no partial tokens of an abandoned alternative)', z3.BoolVal(output == [m0]))
    else:
        K_post(I, out, st, entry, below, Null(1), extra_ok=lambda: [
            ('the output list was only extended, by what the parser produced', z3.BoolVal(len(output) >= 1 and output[0] is m0 and all(isinstance(x, tuple) and x[0] == 'produced-by' for x in output[1:])))])
    ctx.oblige('the parser object is applied exactly once', z3.BoolVal(len(log) == 1 and log[0][1] is p))
    return {'inputs': {}}


def u_parse_rule(I):
    """what is a rule name: looked up in the rule table (defined: data obligation), parsed recursively (contract K), wrapped as [RINGToken(name), ...]"""
    ctx = I.ctx
    body = child(2)
    st, entry, below = mk_stream(I, rules={'SomeRule': body})
    K, log = install(I, st)
    # run_target interprets the body of the outermost call; the nested call (on the rule body) goes through the contract K
    parse_by_contract(I, K)
    m0 = ('earlier-item',)
    output = [m0]
    out = run_target(I, PARSER, 'ParseState.parse', ['SomeRule', output], self_obj=st)
    if out.kind == 'raise':
        K_post(I, out, st, entry, below, Null(2))
        ctx.oblige('a failing rule leaves the output list untouched', z3.BoolVal(output == [m0]))
    else:
        def extra():
            ok = len(output) == 2 and output[0] is m0 and isinstance(output[1], list) and len(output[1]) >= 1 and isinstance(output[1][0], Obj) \
                and output[1][0].cls.name == 'RINGToken' and output[1][0].fields.get('name') == 'SomeRule'
            return [('a rule appends exactly one item: [RINGToken(rule name), what the rule body produced ...]', z3.BoolVal(ok))]
        K_post(I, out, st, entry, below, Null(2), extra_ok=extra)
    ctx.oblige('the rule body (and nothing else) is parsed once', z3.BoolVal(len(log) == 1 and log[0][1] is body))
    return {'inputs': {}}


def u_parse_root(I):
    ctx = I.ctx
    st, entry, below = mk_stream(I, rules={}, root='RootRule')
    K, log = install(I, st)
    def parse_contract(I_, a, k):
        out_l = a[2] if len(a) > 2 else k.get('output')
        r = K(I_, a[1], None, 'root parse')
        out_l.append(['tree-of', a[1]])           # a rule name appends exactly one item (u_parse_rule)
        return r
    I.world.contracts[(PARSER, 'ParseState.parse')] = parse_contract
    out = run_target(I, PARSER, 'ParseState.parse', [], self_obj=st)
    if out.kind == 'raise':
        check_outcome(I, out, raises={'RINGSyntaxError': z3.BoolVal(True)})
    else:
        check_outcome(I, out, raises={}, returns=lambda r: [('the tree of the root rule is returned', z3.BoolVal(r == ['tree-of', 'RootRule']))])
    return {'inputs': {}}


def parse_by_contract(I, K):
    I.world.contracts[(PARSER, 'ParseState.parse')] = lambda I_, a, k: K(I_, a[1], a[2] if len(a) > 2 else k.get('output'), 'stream.parse')


# ---------------------------------------------------------------------------------------------------- Optional
def u_optional(I):
    ctx = I.ctx
    st, entry, below = mk_stream(I)
    K, log = install(I, st)
    parse_by_contract(I, K)
    c = child(1)
    o = Obj(_classes()['Optional'], {'opt': c}, 'param')
    o.complete = True
    output = []
    out = run_target(I, PARSER, 'Optional.__call__', [st, output], self_obj=o)
    K_post(I, out, st, entry, below, z3.BoolVal(True), never_fails=True, extra_ok=lambda: [
        ('if the optional part did not match, nothing moved', z3.BoolVal(True) if log[0][2] else same_pos(pos(st), entry)),
        ('the optional part is tried exactly once', z3.BoolVal(len(log) == 1 and log[0][1] is c))])
    return {'inputs': {}}


# ---------------------------------------------------------------------------------------------------- All
def u_all_small(I):
    """sequences of 0..3 parts: progress if some part is non-nullable"""
    ctx = I.ctx
    st, entry, below = mk_stream(I)
    K, log = install(I, st)
    parse_by_contract(I, K)
    k = ctx.choose([True] * 4, 'number of parts')
    parts = tuple(child(i + 1) for i in range(k))
    o = Obj(_classes()['All'], {'reqs': parts}, 'param')
    o.complete = True
    output = []
    out = run_target(I, PARSER, 'All.__call__', [st, output], self_obj=o)
    nullable = z3.And([Null(i + 1) for i in range(k)]) if k else z3.BoolVal(True)
    K_post(I, out, st, entry, below, nullable, extra_ok=lambda: [
        ('every part was parsed, once, in order', z3.BoolVal([x[1] for x in log] == list(parts)))])
    if out.kind == 'raise':
        ctx.oblige('a sequence fails exactly at its first failing part', z3.BoolVal(log and not log[-1][2] and all(x[2] for x in log[:-1]) and [x[1] for x in log] == list(parts[:len(log)])))
    return {'inputs': {}}


def u_all_any(I):
    """any number of parts (loop invariant): position monotone, stack untouched"""
    ctx = I.ctx
    st, entry, below = mk_stream(I)
    K, log = install(I, st)
    parse_by_contract(I, K)
    n = ctx.fresh('n_parts', 'int')
    ctx.assume(n >= 0)
    parts = SymSeq(n, lambda i: child(i), 'reqs', origin='param')
    o = Obj(_classes()['All'], {'reqs': parts}, 'param')
    o.complete = True
    output = []

    def state_at(I_, j, env, it):
        for k_ in ('sidx', 'lineno', 'colno'):
            st.fields[k_] = ctx.fresh('%s_inv' % k_, 'int')
        ctx.assume(z3.And(entry[0] <= st.fields['sidx'], in_bounds(st)))
        st.fields['has_error'] = ctx.fresh('has_error_inv', 'bool')
        st.fields['stack'] = [below]
        env.local.pop('req', None)

    def inv(I_, j, env, it):
        return [('position monotone and inside the text', z3.And(entry[0] <= st.fields['sidx'], in_bounds(st))),
                ('stack untouched', stack_is(st, [below]))]
    I.world.loop_specs[(PARSER, 'All.__call__', 0)] = loops.for_rule('reqs', state_at, inv)
    out = run_target(I, PARSER, 'All.__call__', [st, output], self_obj=o)
    K_post(I, out, st, entry, below, z3.BoolVal(True))
    return {'inputs': {}}


# ---------------------------------------------------------------------------------------------------- Either
def u_either(I):
    ctx = I.ctx
    st, entry, below = mk_stream(I)
    K, log = install(I, st)
    parse_by_contract(I, K)
    n = ctx.fresh('n_alts', 'int')
    ctx.assume(n >= 1)                         # data obligation: no Either() without alternatives
    alts = SymSeq(n, lambda i: child(i), 'alts', origin='param')
    o = Obj(_classes()['Either'], {'alts': alts}, 'param')
    o.complete = True
    output = []
    he0 = st.fields['has_error']

    def state_at(I_, j, env, it):
        # every alternative tried so far failed and was undone
        st.fields['sidx'], st.fields['lineno'], st.fields['colno'] = entry
        st.fields['stack'] = [below]
        if z3.is_int_value(z3.simplify(z3_of(j))) and z3.simplify(z3_of(j)).as_long() == 0:
            pass
        else:
            if ctx.branch(z3_of(j) > 0):
                st.fields['has_error'] = True
                st.fields['current_error'] = mk_error(I_, 'last_failed')
            else:
                st.fields['has_error'] = he0
        env.local.pop('alt', None)

    def inv(I_, j, env, it):
        f = st.fields
        ce = f['current_error']
        tried = z3_of(j) > 0
        return [('before the next alternative the position is the one at entry', same_pos(pos(st), entry)),
                ('stack untouched', stack_is(st, [below])),
                ('after a failed alternative the error to report is recorded',
                 z3.Implies(tried, z3.BoolVal(f['has_error'] is True and isinstance(ce, Obj) and ce.cls.name == 'RINGSyntaxError')))]
    I.world.loop_specs[(PARSER, 'Either.__call__', 0)] = loops.for_rule('alts', state_at, inv)
    out = run_target(I, PARSER, 'Either.__call__', [st, output], self_obj=o)
    jj = z3.Int('j_alts')
    K_post(I, out, st, entry, below, Null(jj), restores_on_failure=True)
    if out.kind == 'raise' and out.value.cls.name == 'RINGSyntaxError':
        ctx.oblige('Either fails only after every alternative was tried (loop exhausted)', z3.BoolVal(not any(x[2] for x in log)))
    return {'inputs': {}}


# ---------------------------------------------------------------------------------------------------- ZeroOrMore
def u_zeroormore(I):
    ctx = I.ctx
    st, entry, below = mk_stream(I)
    K, log = install(I, st)
    parse_by_contract(I, K)
    c = child(1)
    ctx.assume(z3.Not(Null(1)))                # data obligation: the body of a repetition is not nullable
    o = Obj(_classes()['ZeroOrMore'], {'what': c}, 'param')
    o.complete = True
    output = []

    def state_at(I_, env, tag):
        for k_ in ('sidx', 'lineno', 'colno'):
            st.fields[k_] = ctx.fresh('%s_%s' % (k_, tag), 'int')
        ctx.assume(z3.And(entry[0] <= st.fields['sidx'], in_bounds(st)))
        st.fields['has_error'] = ctx.fresh('has_error_' + tag, 'bool')
        st.fields['stack'] = [below]

    def inv(I_, env):
        he = st.fields['has_error']
        return [('position monotone and inside the text', z3.And(entry[0] <= st.fields['sidx'], in_bounds(st))),
                ('stack untouched', stack_is(st, [below])),
                ('has_error is a plain flag', z3.BoolVal(isinstance(he, bool) or (is_z3(he) and z3.is_bool(he))))]

    def variant(I_, env):
        he = st.fields['has_error']
        he = z3.BoolVal(he) if isinstance(he, bool) else he
        return 2 * (N - st.fields['sidx']) + z3.If(he, 0, 1)
    I.world.while_specs[(PARSER, 'ZeroOrMore.__call__', 0)] = loops.while_rule('repeat', state_at, inv, variant)
    out = run_target(I, PARSER, 'ZeroOrMore.__call__', [st, output], self_obj=o)
    K_post(I, out, st, entry, below, z3.BoolVal(True), never_fails=True)
    return {'inputs': {}}


# ---------------------------------------------------------------------------------------------------- Literals
def u_literals(I):
    ctx = I.ctx
    st, entry, below = mk_stream(I)
    K, log = install(I, st)
    named = ctx.choose([True, True], 'has a name') == 0
    fields = {'alts': ()}
    if named:
        fields['name'] = 'ElementSymbol'
    o = Obj(_classes()['Literals'], fields, 'param')
    o.complete = True
    # Either.__call__ by its contract (u_either): success = K; failure = RINGSyntaxError with the position of entry
    def either_contract(I_, a, k):
        try:
            return K(I_, child(7), a[2], 'Either.__call__')
        except PyExc:
            st.fields['sidx'], st.fields['lineno'], st.fields['colno'] = entry
            raise
    I.world.contracts[(PARSER, 'Either.__call__')] = either_contract
    output = []
    out = run_target(I, PARSER, 'Literals.__call__', [st, output], self_obj=o)
    K_post(I, out, st, entry, below, Null(7), restores_on_failure=True)
    if out.kind == 'raise' and out.value.cls.name == 'RINGSyntaxError' and named:
        e = out.value
        ctx.oblige('a named literal set reports its name at the position of entry',
                   z3.And(z3_of(e.fields['lineno']) == entry[1], z3_of(e.fields['colno']) == entry[2]))
    return {'inputs': {}}


UNITS = [
    Unit('ParseState.__enter__/__exit__', (PARSER, 'ParseState.__exit__'), u_enter_exit),
    Unit('ParseState.parse[parser object]', (PARSER, 'ParseState.parse'), u_parse_parser),
    Unit('ParseState.parse[rule name]', (PARSER, 'ParseState.parse'), u_parse_rule),
    Unit('ParseState.parse[root]', (PARSER, 'ParseState.parse'), u_parse_root),
    Unit('Optional.__call__', (PARSER, 'Optional.__call__'), u_optional),
    Unit('All.__call__[0..3 parts, progress]', (PARSER, 'All.__call__'), u_all_small),
    Unit('All.__call__[any number of parts]', (PARSER, 'All.__call__'), u_all_any),
    Unit('Either.__call__', (PARSER, 'Either.__call__'), u_either),
    Unit('ZeroOrMore.__call__', (PARSER, 'ZeroOrMore.__call__'), u_zeroormore),
    Unit('Literals.__call__', (PARSER, 'Literals.__call__'), u_literals),
]
for _u in UNITS:
    _u.world_factory = world
