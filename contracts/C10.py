"""C10 -- Unit expressions evaluate to the exact SI value and dimension.

Deductive: prefixed-name lookup, tree evaluation against the denotation of the seven tree forms, conversion
(in_units / with_units / to_SI_from / from_SI_to), the quantity algebra (shared with C11).
Data obligation (exhaustive over a finite table): every unit definition and every prefix against SI definitions
written here independently.  The recursive-descent parser: C10parser.py (deductive, abstract tokens); the tokenizer regex and the
parser end to end are additionally covered by the bounded stand-in."""
import ast
import math
import re
from fractions import Fraction

import z3

from pyvc import source
from pyvc.engine import Obj, Builtin, NDArr, PyExc, NotImplementedVal, Unsupported, is_z3, z3_of
from pyvc.source import BuiltinClass
from pyvc.verify import Unit, run_target, Outcome, concretize
from . import units, C11
from .units import UnitsWorld, QTY, HELP, DB, PARSER, mk_qty, qty_parts, is_qty, same
from .spec import check_outcome

PROPERTY = 'C10'
SS, BS = z3.StringSort(), z3.BoolSort()
InDb = z3.Function('InDb', SS, BS)
DbCls = BuiltinClass('UnitsDbMap')
DbQty = BuiltinClass('DbQuantity')
Scaled = BuiltinClass('ScaledDbQuantity')


def db_contains(I, d, k):
    return InDb(z3_of(k))


def db_index(I, d, k):
    k = z3_of(k)
    if I.ctx.branch(InDb(k)):
        return Obj(DbQty, {'key': k}, 'param')
    raise I.exc('KeyError', k)


def dbqty_binop(I, op, a, b):
    if op is ast.Mult and isinstance(b, Obj) and b.cls is DbQty and not isinstance(a, Obj):
        return Obj(Scaled, {'factor': a, 'key': b.fields['key']})
    return NotImplementedVal


class W(UnitsWorld):
    def __init__(self):
        UnitsWorld.__init__(self)
        self.abstract['UnitsDbMap'] = {'contains': db_contains, 'index': db_index}
        self.abstract['DbQuantity'] = {'binop': dbqty_binop}
        self.abstract['TreeVal'] = {'binop': treeval_binop}


def world():
    return W()


def u_lookup(I):
    ctx = I.ctx
    cls = source.module(DB).classes['UnitsDB']
    prefixes = source.module(DB).classes['UnitsDB'].attrs['prefixes']
    table = ast.literal_eval(prefixes)
    o = Obj(cls, {'db': Obj(DbCls, {}, 'param')}, origin='param')
    name = I.fresh('name', 'str')
    out = run_target(I, DB, 'UnitsDB.lookup', [name], self_obj=o)
    sub = lambda a, n: z3.SubString(name, a, n)
    L = z3.Length(name)
    rest1 = z3.SubString(name, 1, L - 1)
    rest2 = z3.SubString(name, 2, L - 2)
    p1 = z3.SubString(name, 0, 1)
    p2 = z3.SubString(name, 0, 2)
    isp = lambda p: z3.Or([p == z3.StringVal(k) for k in table])
    pv = lambda p: None
    c0 = InDb(name)
    c1 = z3.And(z3.Not(c0), InDb(rest1), isp(p1))
    c2 = z3.And(z3.Not(c0), z3.Not(c1), InDb(rest2), isp(p2))
    found = z3.Or(c0, c1, c2)

    def posts(r):
        ps = []
        if isinstance(r, Obj) and r.cls is DbQty:
            ps.append(('unprefixed name: the stored definition itself', z3.And(c0, r.fields['key'] == name)))
        elif isinstance(r, Obj) and r.cls is Scaled:
            f, key = r.fields['factor'], r.fields['key']
            alts = []
            for k, v in table.items():
                rest = rest1 if len(k) == 1 else rest2
                pre = p1 if len(k) == 1 else p2
                cond = c1 if len(k) == 1 else c2
                alts.append(z3.And(cond, pre == z3.StringVal(k), key == rest, z3.BoolVal(f == v)))
            ps.append(('prefixed name: prefix factor times the definition of the remainder (1-letter prefix first, then 2-letter)',
                       z3.Or(alts)))
        else:
            ps.append(('result is a definition or a scaled definition', z3.BoolVal(False)))
        return ps
    writes = [e for e in ctx.effects if e[0].startswith('write')]
    ctx.oblige('pure', z3.BoolVal(not writes))
    check_outcome(I, out, raises={'UnitsParseError': z3.Not(found)}, returns=posts, site='UnitsDB.lookup')
    return {'inputs': {'name': name}}


def replay_lookup(model, state, ob):
    from pgradd.Units import eval_qty
    from pgradd.Error import UnitsParseError
    import io, contextlib
    bad = []
    with contextlib.redirect_stdout(io.StringIO()):
        for n in ['dam', 'daN', 'dag', 'daJ']:
            try:
                eval_qty('1 ' + n)
            except UnitsParseError:
                bad.append((n, 'UnitsParseError'))
            except Exception as e:
                bad.append((n, type(e).__name__))
    return {'failed': bool(bad), 'input': ['1 dam', '1 daN', '1 dag', '1 daJ'], 'observed': bad,
            'expected': 'each evaluates to 10 x the unit',
            'script': "from pgradd.Units import eval_qty\nprint(eval_qty('1 dam'))  # expected 10 m\n"}


# ---- eval_subtree against the denotation of the tree forms ---------------------------------------------
TreeCls = BuiltinClass('SubTree')
TreeVal = BuiltinClass('TreeVal')


def treeval_binop(I, op, a, b):
    name = {ast.Mult: 'mul', ast.Div: 'div', ast.Pow: 'pow'}.get(op)
    if name is None:
        return NotImplementedVal
    return Obj(TreeVal, {'den': (name, den_of(a), den_of(b))})


def den_of(v):
    if isinstance(v, Obj) and v.cls is TreeVal:
        return v.fields['den']
    return ('const', v)


def u_eval_subtree(I):
    ctx = I.ctx
    forms = ['expr1', 'expr*', 'expr/', 'factor1', 'factor^', 'base', 'name', 'number']
    form = forms[ctx.choose([True] * len(forms), 'tree form')]
    t1, t2 = Obj(TreeCls, {'id': 1}, 'param'), Obj(TreeCls, {'id': 2}, 'param')
    s = I.fresh('unit_name', 'str')
    n = I.fresh('n', 'real')
    tree = {'expr1': ('expr', t1), 'expr*': ('expr', t1, '*', t2), 'expr/': ('expr', t1, '/', t2),
            'factor1': ('factor', t1), 'factor^': ('factor', t1, '^', t2), 'base': ('base', t1),
            'name': ('name', s), 'number': ('number', n)}[form]
    looked = []

    def rec(I_, a, k):       # callee contract of the recursive call: the denotation of the subtree
        t = a[0]
        if not (isinstance(t, Obj) and t.cls is TreeCls):
            raise Unsupported('recursive call on something that is not a direct subtree: %r' % (t,))
        return Obj(TreeVal, {'den': ('Den', t.fields['id'])})
    I.world.contracts[(PARSER, 'eval_subtree')] = rec

    def lookup(I_, a, k):
        looked.append(a[1])
        return Obj(TreeVal, {'den': ('Lookup', a[1])})
    I.world.contracts[(DB, 'UnitsDB.lookup')] = lookup
    out = run_target(I, PARSER, 'eval_subtree', [tree])
    D = lambda i: ('Den', i)
    want = {'expr1': D(1), 'expr*': ('mul', D(1), D(2)), 'expr/': ('div', D(1), D(2)), 'factor1': D(1),
            'factor^': ('pow', D(1), D(2)), 'base': D(1), 'name': ('Lookup', s), 'number': ('const', n)}[form]

    def posts(r):
        got = den_of(r)
        return [('eval_subtree(%s) is the denotation %s' % (form, want[0]), z3.BoolVal(_same_den(got, want)))]
    check_outcome(I, out, raises={}, returns=posts, site='eval_subtree')
    return {'inputs': {}}


def _same_den(a, b):
    if isinstance(a, tuple) and isinstance(b, tuple):
        return len(a) == len(b) and all(_same_den(x, y) for x, y in zip(a, b))
    if is_z3(a) or is_z3(b):
        return is_z3(a) and is_z3(b) and a.eq(b)
    return a == b


# ---- conversion ---------------------------------------------------------------------------------------
from .C11conv import u_in_units, u_in_units_text, replay_in_units_text      # noqa: E402  (conversions: shared with C11)


def u_helpers(I):
    ctx = I.ctx
    which = ctx.choose([True] * 4, 'helper')
    u, vu, eu = mk_qty(I, 'u')
    ctx.assume(vu != 0)
    x = I.fresh('x', 'real')
    # the unit expression may be DIMENSIONLESS ('cm/m', 'mol/mol', '1'): its value is then a plain number, not a Quantity object (this is what
    # evaluation returns when all exponents cancel); it is given as text and eval_expr is stubbed by its contract
    dimless = ctx.choose([True, True], 'the unit expression: dimensional / dimensionless') == 1
    if dimless:
        I.world.contracts[(QTY, 'eval_expr')] = lambda I_, a_, k_: vu
        I.world.contracts[('pgradd/Units/parser.py', 'eval_expr')] = I.world.contracts[(QTY, 'eval_expr')]
        u = 'cm/m'
    if which == 3:
        # helpers.in_units(q, u): q a quantity or (dimensionless) a plain number
        plain = ctx.choose([True, True], 'the quantity: a Quantity / a plain number') == 1
        q, vq, eq_ = mk_qty(I, 'q')
        arg = x if plain else q
        out = run_target(I, HELP, 'in_units', [arg, u])
        compatible = z3.BoolVal(plain == dimless) if (plain or dimless) else same(eq_, eu)
        val = x if plain else vq
        check_outcome(I, out, raises={'UnitsError': z3.Not(compatible)},
                      returns=lambda r: [('in_units(q, u) is the ratio of the SI magnitudes as a plain number -- also when q and u are dimensionless', z3.And(z3.BoolVal(not is_qty(r)), z3_of(r) * vu == val))])
        return {'inputs': {}}
    if dimless and which == 2:
        out = run_target(I, HELP, 'with_units', [x, u])
        check_outcome(I, out, returns=lambda r: [('with a dimensionless unit expression the result is the plain number x*SI(u)', z3.And(z3.BoolVal(not is_qty(r)), z3_of(r) == x * vu))])
        return {'inputs': {}}
    if which == 0:
        out = run_target(I, HELP, 'to_SI_from', [x, u])
        check_outcome(I, out, returns=lambda r: [('to_SI_from(x,u) == x*SI(u)', z3_of(r) == x * vu)])
    elif which == 1:
        out = run_target(I, HELP, 'from_SI_to', [x, u])
        check_outcome(I, out, returns=lambda r: [('from_SI_to(x,u) == x/SI(u)', z3_of(r) * vu == x),
                                                 ('from_SI_to inverts to_SI_from', z3_of(r) * vu == x)])
    else:
        form = ctx.choose([True, True, True], 'number')
        num = [x, None, 0][form]
        out = run_target(I, HELP, 'with_units', [num, u])

        def posts(r):
            if form == 1:
                return [('None stays None', z3.BoolVal(r is None))]
            rv, re_ = qty_parts(r)
            xv = x if form == 0 else z3.RealVal(0)
            return [('with_units(x,u) has magnitude x*SI(u) and the dimension of u -- zero included',
                     z3.And(z3_of(rv) == xv * vu, same(re_, eu), z3.BoolVal(is_qty(r))))]
        check_outcome(I, out, returns=posts)
    return {'inputs': {}}


def replay_with_units(model, state, ob):
    from pgradd.Units import with_units
    from pgradd.Units.qty import Quantity
    if 'AttributeError' in str(ob.get('name', '')) or 'dimensionless' in str(ob.get('name', '')):
        from pgradd.Units import eval_qty, in_units, to_SI_from, from_SI_to
        from . import real
        res = {}
        for nm_, f_, want_ in (("in_units(eval_qty('cm/m'), 'mm/m')", lambda: in_units(eval_qty('cm/m'), 'mm/m'), 10.0), ("to_SI_from(5, 'cm/m')", lambda: to_SI_from(5, 'cm/m'), 0.05),
                               ("from_SI_to(5, 'mol/mol')", lambda: from_SI_to(5, 'mol/mol'), 5.0)):
            with real.quiet():
                res[nm_] = (real.outcome(f_), want_)
        bad = {k_: str(v_[0]) for k_, v_ in res.items() if v_[0][0] != 'ok' or abs(v_[0][1] - v_[1]) > 1e-12}
        return {'failed': bool(bad), 'input': 'conversions with a dimensionless unit expression', 'observed': bad or 'all converted', 'expected': {k_: v_[1] for k_, v_ in res.items()},
                'script': "from pgradd.Units import eval_qty, in_units, to_SI_from\nprint(in_units(eval_qty('cm/m'), 'mm/m'), to_SI_from(5, 'cm/m'))   # expected 10.0 0.05\n"}
    r = with_units(0, 'kcal/mol')
    r2 = with_units(0.0, 'K')
    ok = isinstance(r, Quantity) and isinstance(r2, Quantity)
    return {'failed': not ok, 'input': "with_units(0, 'kcal/mol')", 'observed': repr(type(r).__name__), 'expected': 'Quantity',
            'script': "from pgradd.Units import with_units\nprint(type(with_units(0, 'kcal/mol')))  # expected Quantity\n"}


replay_with_units.model_free = True


# ---- data obligation: the unit table against SI definitions written independently ----------------------
# (m, kg, s, A, K, mol, cd) exponents and exact SI factor
SI = {
    'm': (1, (1, 0, 0, 0, 0, 0, 0)), 'g': (Fraction(1, 1000), (0, 1, 0, 0, 0, 0, 0)), 's': (1, (0, 0, 1, 0, 0, 0, 0)),
    'A': (1, (0, 0, 0, 1, 0, 0, 0)), 'K': (1, (0, 0, 0, 0, 1, 0, 0)), 'mol': (1, (0, 0, 0, 0, 0, 1, 0)),
    'cd': (1, (0, 0, 0, 0, 0, 0, 1)),
    'N': (1, (1, 1, -2, 0, 0, 0, 0)), 'Pa': (1, (-1, 1, -2, 0, 0, 0, 0)), 'J': (1, (2, 1, -2, 0, 0, 0, 0)),
    'W': (1, (2, 1, -3, 0, 0, 0, 0)), 'C': (1, (0, 0, 1, 1, 0, 0, 0)), 'V': (1, (2, 1, -3, -1, 0, 0, 0)),
    'F': (1, (-2, -1, 4, 2, 0, 0, 0)), 'Ohm': (1, (2, 1, -3, -2, 0, 0, 0)),
    'molecule': (1 / 6.02214076e23, (0, 0, 0, 0, 0, 1, 0)),
    'in': (Fraction(254, 10000), (1, 0, 0, 0, 0, 0, 0)), 'ft': (Fraction(3048, 10000), (1, 0, 0, 0, 0, 0, 0)),
    'L': (Fraction(1, 1000), (3, 0, 0, 0, 0, 0, 0)),
    'min': (60, (0, 0, 1, 0, 0, 0, 0)), 'h': (3600, (0, 0, 1, 0, 0, 0, 0)),
    'u': (1.66053906660e-27, (0, 1, 0, 0, 0, 0, 0)), 'lb': (Fraction(45359237, 100000000), (0, 1, 0, 0, 0, 0, 0)),
    't': (1000, (0, 1, 0, 0, 0, 0, 0)),
    'dyn': (Fraction(1, 100000), (1, 1, -2, 0, 0, 0, 0)), 'lbf': (4.4482216152605, (1, 1, -2, 0, 0, 0, 0)),
    'bar': (100000, (-1, 1, -2, 0, 0, 0, 0)), 'atm': (101325, (-1, 1, -2, 0, 0, 0, 0)),
    'torr': (101325 / 760, (-1, 1, -2, 0, 0, 0, 0)), 'psi': (6894.757293168, (-1, 1, -2, 0, 0, 0, 0)),
    'cal': (Fraction(4184, 1000), (2, 1, -2, 0, 0, 0, 0)), 'erg': (Fraction(1, 10 ** 7), (2, 1, -2, 0, 0, 0, 0)),
    'BTU': (1054.35026444, (2, 1, -2, 0, 0, 0, 0)), 'eV': (1.602176634e-19, (2, 1, -2, 0, 0, 0, 0)),
    'hp': (745.69987158227022, (2, 1, -3, 0, 0, 0, 0)),
    'P': (Fraction(1, 10), (-1, 1, -1, 0, 0, 0, 0)), 'St': (Fraction(1, 10000), (2, 0, -1, 0, 0, 0, 0)),
}
SI_PREFIX = {'Y': 24, 'Z': 21, 'E': 18, 'P': 15, 'T': 12, 'G': 9, 'M': 6, 'k': 3, 'h': 2, 'da': 1, 'd': -1, 'c': -2, 'm': -3,
             'u': -6, 'n': -9, 'p': -12, 'f': -15, 'a': -18, 'z': -21, 'y': -24}
REL = 1e-6   # absorbs CODATA vintages of the measured constants (u, eV, molecule); exact definitions agree far closer


def data_unit_table(tier, seed):
    """(D) every name defined in builtin.py (read from its AST) x {no prefix, 20 prefixes}: value and exponents of the
    real eval_qty against the SI table above.  Prefixed names that collide with another unit name are resolved as the
    code documents (unprefixed name first) and are checked against that resolution."""
    import io, contextlib
    from pgradd.Units import eval_qty
    from pgradd.Units.qty import Quantity
    m = source.module('pgradd/Units/builtin.py')
    names = [t[0] for t in m.literal('base_SI_units')] + [t[0] for t in m.literal('derived_SI_units')] + \
            [t[0] for t in m.literal('other_units')]
    prefixes = ast.literal_eval(source.module(DB).classes['UnitsDB'].attrs['prefixes'])
    viol, n, samples = [], 0, []
    missing = [x for x in names if x not in SI]
    for x in missing:
        viol.append({'id': 'no-oracle-' + x, 'input': x, 'observed': 'unit defined in builtin.py', 'expected': 'an SI definition in the oracle table'})
    for k, v in prefixes.items():
        n += 1
        if k not in SI_PREFIX or abs(v / 10.0 ** SI_PREFIX[k] - 1) > 1e-12:
            viol.append({'id': 'prefix-' + k, 'input': k, 'observed': v, 'expected': '1e%s' % SI_PREFIX.get(k)})
    cases = []
    for name in names:
        if name not in SI:
            continue
        for pre in [''] + list(prefixes):
            full = pre + name
            # documented resolution order: whole name, then 1-letter prefix, then 2-letter prefix
            if full in names:
                f, e = SI[full]
            elif len(full) > 1 and full[1:] in names and full[:1] in prefixes:
                f0, e = SI[full[1:]]
                f = float(f0) * 10.0 ** SI_PREFIX[full[:1]]
            elif len(full) > 2 and full[2:] in names and full[:2] in prefixes:
                f0, e = SI[full[2:]]
                f = float(f0) * 10.0 ** SI_PREFIX[full[:2]]
            else:
                continue
            cases.append((full, float(f), tuple(e), pre))
    resolvable = set(c[0] for c in cases)
    # the table is evaluated three times in ONE process, in declaration order, alphabetically and in reverse: what a name means must not
    # depend on which names were looked up before (e.g. 'dam' after 'am')
    from pgradd.Error import UnitsParseError
    with contextlib.redirect_stdout(io.StringIO()):
        for order_name, order in (('declaration order', cases), ('alphabetical', sorted(cases)), ('reverse alphabetical', sorted(cases, reverse=True))):
            for full, f, e, pre in order:
                n += 1
                try:
                    q = eval_qty('1 ' + full)
                    got_v = q.value if isinstance(q, Quantity) else q
                    got_e = tuple(int(x) for x in q.units.exps) if isinstance(q, Quantity) else (0,) * 7
                except Exception as ex:
                    got_v, got_e = 'raised %s: %s' % (type(ex).__name__, ex), None
                ok = not isinstance(got_v, str) and got_e == tuple(e) and abs(got_v / float(f) - 1) <= REL
                if len(samples) < 6 and pre in ('', 'k', 'da'):
                    samples.append({'unit': full, 'SI_value': got_v if not isinstance(got_v, str) else got_v, 'exponents': got_e})
                if not ok and len(viol) < 40:
                    viol.append({'id': '%s-%s' % (full, order_name.split()[0]), 'input': "eval_qty('1 %s')  [%s pass]" % (full, order_name), 'observed': [got_v, got_e],
                                 'expected': [float(f), list(e)],
                                 'script': "from pgradd.Units import eval_qty\nq = eval_qty('1 %s'); print(q.value, q.units.exps)  # expected %r %r\n" % (full, float(f), list(e))})
            # stacked prefixes are not units, also after their parts have been used
            for full in ('kkg', 'dacm', 'ukJ', 'mkm', 'kmm', 'MkJ', 'cdam', 'hhPa'):
                if full in resolvable:
                    continue
                n += 1
                try:
                    eval_qty('1 ' + full)
                    got = 'accepted'
                except UnitsParseError:
                    got = None
                except Exception as ex:    # noqa
                    got = 'raised %s' % type(ex).__name__
                if got and len(viol) < 40:
                    viol.append({'id': 'stacked-%s-%s' % (full, order_name.split()[0]), 'input': "eval_qty('1 %s')  [after the %s pass]" % (full, order_name), 'observed': got, 'expected': 'UnitsParseError',
                                 'script': "from pgradd.Units import eval_qty\nfor u in ('kg', 'cm', 'kJ', 'km', 'mm', %r): print(u, eval_qty('1 ' + u))   # the last one: expected UnitsParseError\n" % full})
    # conversion between two spellings of ONE dimension reached through different fractional powers (the 1e-7 snapping of exponents exists for this)
    with contextlib.redirect_stdout(io.StringIO()):
        for a_, b_, want in (('m^0.1 m^0.2', 'm^0.3', 1.0), ('5 s^0.7 s^0.1', 'ms^0.8', 5.0 * 1000 ** 0.8), ('J/(mol^0.1 mol^0.2)', 'kJ/mol^0.3', 1e-3), ('m^0.5 m^0.5', 'm', 1.0),
                             ('km^0.3 km^0.4 km^0.3', 'm', 1000.0)):
            n += 1
            try:
                got = eval_qty(a_).in_units(b_)
            except Exception as ex:    # noqa
                got = 'raised %s: %s' % (type(ex).__name__, str(ex)[:60])
            if isinstance(got, str) or abs(got / want - 1) > 1e-9:
                viol.append({'id': 'fractional-%s' % a_.replace(' ', '_').replace('/', '_'), 'input': "eval_qty(%r).in_units(%r)" % (a_, b_), 'observed': got, 'expected': want,
                             'script': "from pgradd.Units import eval_qty\nprint(eval_qty(%r).in_units(%r))   # expected %r\n" % (a_, b_, want)})
    # what a caller DOES with an evaluated quantity (arithmetic, in-place operators) must not reach the unit table: the same names evaluate to the same
    # values afterwards
    with contextlib.redirect_stdout(io.StringIO()):
        for nm_ in ('K', 'm', 'kJ', 'mol', 's'):
            for form in (nm_, '(%s)' % nm_, '1 %s' % nm_):
                n += 1
                try:
                    before = eval_qty('1 ' + nm_)
                    before = (before.value, list(before.units.exps))
                    q = eval_qty(form)
                    q *= 298.15
                    q /= eval_qty('s')
                    q **= 2
                    q2 = eval_qty(form)
                    q2 += eval_qty(form)
                    after = eval_qty('1 ' + nm_)
                    after = (after.value, list(after.units.exps))
                    got = None if after == before else {'before': before, 'after': after}
                except Exception as ex:    # noqa
                    got = 'raised %s: %s' % (type(ex).__name__, str(ex)[:60])
                if got:
                    viol.append({'id': 'table-after-inplace-%s' % form.replace(' ', '_'), 'input': "q = eval_qty(%r); q *= 298.15; q /= eval_qty('s'); q **= 2; then eval_qty('1 %s')" % (form, nm_),
                                 'observed': got, 'expected': 'the value and dimension of the table',
                                 'script': "from pgradd.Units import eval_qty\nq = eval_qty(%r)\nq *= 298.15\nprint(eval_qty('1 %s'))\n" % (form, nm_)})
    return {'name': 'unit-table-vs-SI', 'obligations': n, 'violations': viol, 'samples': samples, 'exhaustive': True,
            'bound': 'all %d unit names x (no prefix + %d prefixes), three passes in different orders in one process + stacked prefixes' % (len(names), len(prefixes))}


DATA = [data_unit_table]

def u_eval_expr(I):
    """eval_expr(text) is eval_subtree(parse(text)) -- of THIS text, whatever was evaluated before (two calls in one process), parse errors pass
    through, and nothing at module level is written (callee contracts: parse and eval_subtree, proved in their own units)"""
    ctx = I.ctx
    TreeOf = z3.Function('TreeOfText', z3.StringSort(), z3.IntSort())
    Accepts = z3.Function('GrammarAccepts', z3.StringSort(), z3.BoolSort())
    parsed, evaluated = [], []

    def parse(I_, a, k):
        if len(a) != 1 or k:
            raise Unsupported('parse called with other arguments than the text')
        t = z3_of(a[0])
        parsed.append(t)
        if ctx.branch(z3.Not(Accepts(t))):
            raise I_.exc('UnitsParseError', 'malformed')
        return Obj(TreeCls, {'id': TreeOf(t)}, 'param')

    def ev(I_, a, k):
        t = a[0]
        if not (isinstance(t, Obj) and t.cls is TreeCls):
            raise Unsupported('eval_subtree called on something that is not a parse result: %r' % (t,))
        evaluated.append(t.fields['id'])
        return Obj(TreeVal, {'den': ('Den', t.fields['id'])})
    I.world.contracts[(PARSER, 'parse')] = parse
    I.world.contracts[(PARSER, 'eval_subtree')] = ev
    e1, e2 = I.fresh('first_text', 'str'), I.fresh('text', 'str')
    run_target(I, PARSER, 'eval_expr', [e1])
    out = run_target(I, PARSER, 'eval_expr', [e2])
    writes = [e for e in ctx.effects if e[0].startswith('write')]

    def posts(r):
        d = den_of(r)
        ok = isinstance(d, tuple) and len(d) == 2 and d[0] == 'Den' and is_z3(d[1])
        return [('eval_expr(text) is the value of the tree parsed from this very text', d[1] == TreeOf(e2) if ok else z3.BoolVal(False)),
                ('nothing at module level is written (no state carried from one evaluation to the next)', z3.BoolVal(not writes))]
    check_outcome(I, out, raises={'UnitsParseError': z3.Not(Accepts(e2))}, returns=posts)
    return {'inputs': {}}


UNITS = [
    Unit('eval_expr[two calls]', (PARSER, 'eval_expr'), u_eval_expr),
    Unit('UnitsDB.lookup', (DB, 'UnitsDB.lookup'), u_lookup, replay_lookup),
    Unit('eval_subtree', (PARSER, 'eval_subtree'), u_eval_subtree),
    Unit('GenericQuantity.in_units', (QTY, 'GenericQuantity.in_units'), u_in_units),
    Unit('GenericQuantity.in_units[text target, two calls]', (QTY, 'GenericQuantity.in_units'), u_in_units_text, replay_in_units_text),
    Unit('helpers.with_units/to_SI_from/from_SI_to', (HELP, 'with_units'), u_helpers, replay_with_units),
]
for u in C11.UNITS:
    if any(k in u.name for k in ('__mul__', '__rmul__', '__truediv__', '__rtruediv__', '__pow__', '_build')):
        UNITS.append(u)


# ---- bounded stand-in for the recursive-descent parser (never counted as proved) -------------------------
ALPHABET = ['2', '0.5', '-3', 'm', 's', 'kg', '*', '/', '^', '(', ')', 'inf', '1e3']      # 'inf': a word float() accepts; '1e3': exponent notation
DIMS = {'m': (1, 0, 0), 's': (0, 0, 1), 'kg': (0, 1, 0)}


class _Err(Exception):
    pass


class _Skip(Exception):
    pass


def spec_eval(tokens):
    """Independent reading of the documented grammar:
       expr := factor { ('*' | '/' | <juxtaposition = '*'>) factor }      (left associative)
       factor := base [ '^' number ]         number := NUM | '(' NUM ')'
       base := '(' expr ')' | NUM | NAME
    Returns (value, (m, kg, s) exponents)."""
    pos = [0]

    def peek():
        return tokens[pos[0]] if pos[0] < len(tokens) else None

    def take():
        t = peek()
        if t is not None:
            pos[0] += 1
        return t

    def isnum(t):
        # a number is written with digits (sign, point, exponent); words such as inf / nan are names
        return t is not None and re.fullmatch(r'-?(\d+\.?\d*|\.\d+)([eE][-+]?\d+)?', t) is not None

    def number():
        t = take()
        if t == '(':
            t = take()
            if take() != ')':
                raise _Err()
        if t is None or not isnum(t):
            raise _Err()
        return float(t) if ('.' in t or 'e' in t or 'E' in t) else int(t)

    def base():
        t = peek()
        if t is None:
            raise _Err()
        if t == '(':
            take()
            v = expr()
            if take() != ')':
                raise _Err()
            return v
        if isnum(t):
            return (number(), (0, 0, 0))
        take()
        if not t.isalpha() or t not in DIMS:
            raise _Err()
        return (1.0, DIMS[t])

    def factor():
        b = base()
        if peek() == '^':
            take()
            k = number()
            if b[0] < 0 and k != int(k):
                raise _Skip()
            if b[0] == 0 and k < 0:
                raise _Skip()
            return (b[0] ** k, tuple(e * k for e in b[1]))
        return b

    def expr():
        v = factor()
        while True:
            t = peek()
            if t is None:
                return v
            if t in ('*', '/'):
                take()
                w = factor()
            else:
                save = pos[0]
                try:
                    w = factor()
                    t = '*'
                except _Err:
                    pos[0] = save
                    return v
            if t == '*':
                v = (v[0] * w[0], tuple(a + b for a, b in zip(v[1], w[1])))
            else:
                if w[0] == 0:
                    raise _Skip()
                v = (v[0] / w[0], tuple(a - b for a, b in zip(v[1], w[1])))
    v = expr()
    if peek() is not None:
        raise _Err()
    return v


def standin_parser(tier, seed):
    """All token sequences up to a length bound over ALPHABET: the real tokenizer+parser+evaluator against spec_eval;
    malformed sequences must raise UnitsParseError (and nothing else)."""
    import itertools
    from . import real
    from pgradd.Units import eval_qty
    from pgradd.Units.qty import Quantity
    from pgradd.Error import UnitsParseError
    maxlen = 4 if tier == 'quick' else 5
    n, ok_n, viol, samples = 0, 0, [], []
    with real.quiet():
        for L in range(1, maxlen + 1):
            for toks in itertools.product(ALPHABET, repeat=L):
                text = ' '.join(toks)
                try:
                    want = spec_eval(list(toks))
                except _Err:
                    want = 'UnitsParseError'
                except (_Skip, OverflowError, ZeroDivisionError):
                    continue
                n += 1
                try:
                    q = eval_qty(text)
                    if isinstance(q, Quantity):
                        e = q.units.exps
                        got = (q.value, (e[0], e[1], e[2]))
                    else:
                        got = (q, (0, 0, 0))
                except UnitsParseError:
                    got = 'UnitsParseError'
                except Exception as ex:    # noqa
                    got = 'raised ' + type(ex).__name__
                if isinstance(want, tuple) and isinstance(got, tuple):
                    good = isinstance(got[0], (int, float)) and abs(got[0] - want[0]) <= 1e-9 * max(1, abs(want[0])) and \
                        all(abs(a - b) < 1e-6 for a, b in zip(got[1], want[1]))
                    ok_n += 1
                else:
                    good = got == want
                if len(samples) < 6 and L >= 3 and isinstance(want, tuple) and n % 97 == 0:
                    samples.append({'text': text, 'value': want[0], 'm_kg_s_exponents': want[1]})
                if not good and len(viol) < 15:
                    viol.append({'id': text.replace(' ', '_'), 'input': text, 'observed': str(got), 'expected': str(want),
                                 'script': "from pgradd.Units import eval_qty\nprint(eval_qty(%r))  # expected %s\n" % (text, want)})
        # layout matters between two names / two numbers (juxtaposition is a product, 'm s' is not 'ms'), and an expression means the same
        # whatever was evaluated before it: glued spelling, spaced spelling, glued spelling again, all in this process
        def outcome(text):
            try:
                q = eval_qty(text)
                if isinstance(q, Quantity):
                    e = q.units.exps
                    return (float(q.value), tuple(float(x) for x in e))
                return (float(q), ())
            except Exception as ex:    # noqa
                return 'raised ' + type(ex).__name__
        words = [t for t in ALPHABET if t.isalpha() or t.isdigit()] + ['k', 'g', 'mol', 'K', 'N', 'min', 'h', 'in', 'c', 'd', 'a']
        for t1 in words:
            for t2 in words:
                glued, spaced = t1 + t2, t1 + ' ' + t2
                r1 = outcome(glued)
                try:
                    want = spec_eval([t1, t2]) if all(w in ALPHABET for w in (t1, t2)) else None
                except _Err:
                    want = 'UnitsParseError'
                except (_Skip, OverflowError, ZeroDivisionError):
                    want = None
                s1 = outcome(spaced)
                r2 = outcome(glued)
                n += 1
                bad = None
                if r1 != r2:
                    bad = ('%r evaluated before and after %r' % (glued, spaced), '%s then %s' % (r1, r2), 'the same value both times')
                elif isinstance(want, tuple) and not (isinstance(s1, tuple) and abs(s1[0] - want[0]) <= 1e-9 * max(1, abs(want[0])) and
                                                      all(abs(a - b) < 1e-6 for a, b in zip(s1[1][:3] or (0, 0, 0), want[1]))):
                    bad = ('%r after %r' % (spaced, glued), str(s1), str(want))
                elif want == 'UnitsParseError' and s1 != 'raised UnitsParseError':
                    bad = ('%r after %r' % (spaced, glued), str(s1), 'UnitsParseError')
                if bad and len(viol) < 15:
                    viol.append({'id': 'layout-%s-%s' % (t1, t2), 'cls': 'layout-or-history-dependent-evaluation', 'input': bad[0], 'observed': bad[1], 'expected': bad[2],
                                 'script': "from pgradd.Units import eval_qty\nprint(eval_qty(%r)); print(eval_qty(%r)); print(eval_qty(%r))\n" % (glued, spaced, glued)})
    return {'name': 'unit-grammar-bounded-exhaustive', 'bound': 'all token sequences of length <= %d over %s' % (maxlen, ALPHABET),
            'evaluations': n, 'distinct_nontrivial': ok_n, 'violations': viol, 'samples': samples, 'exhaustive': True,
            'rule': 'every sequence is distinct; non-trivial = accepted by the documented grammar (the rest must be rejected)'}


STANDINS = [standin_parser]

from . import C10parser     # noqa: E402
UNITS = UNITS + C10parser.UNITS      # the recursive-descent parser against the documented grammar (abstract tokens)
