"""C16 -- A RING reaction rule applies exactly its declared edit per match.

Deductive (RDKit's editable molecule is a recording abstraction):
  * each of the 11 transformation classes edits exactly the bond/atom addressed through the match (mapped indices) and
    nothing else; no atom is added or removed, so the atoms of every element are conserved;
  * the rule reader keeps an electron balance per labelled atom: each declared edit changes it by the declared amount and
    Read() rejects the rule exactly when some balance is non-zero;
  * RunReactants: one product set per match, each built from a fresh copy, the transformations applied in rule order.
The comparison with an independent graph rewriter on small molecules is the bounded stand-in."""
import ast

import z3

from pyvc import source
from pyvc.engine import Obj, Builtin, Namespace, SymSeq, FmtStr, Unsupported, NotImplementedVal, is_z3, z3_of
from pyvc.source import BuiltinClass
from pyvc.verify import Unit, run_target
from pyvc.world import World
from . import chem, C08
from .chem import BOND_CODES, bondtype
from .spec import check_outcome

PROPERTY = 'C16'
LEVEL = 'other'
EXPLANATION = ('deductive obligations on the transformation classes, the electron-balance bookkeeping of the rule reader and the structure of '
               'RunReactants relative to a recording abstraction of RDKit\'s RWMol; real rules on real molecules are compared with an '
               'independent graph rewriter by the bounded stand-in')
RQ = 'pgradd/RDkitWrapper/ReactionQuery.py'
RQR = 'pgradd/RINGParser/ReactionQueryRead.py'
TRUSTED = [chem.TRUSTED2, 'RWMol.AddBond/RemoveBond/GetBondBetweenAtoms/GetAtomWithIdx and the atom setters act on exactly the addressed bond/atom; '
           '__copy__ returns an independent copy; GetMolFrags splits a molecule into its connected components without changing atoms',
           'RunReactants is checked for two matches of a two-atom pattern (symbolic atoms); multi-reactant rules are outside the property\'s quantifier']


class RecMol:
    """recording editable molecule"""
    def __init__(self, I, tag='m'):
        self.I = I
        self.ops = []
        self.bond_type = {}        # (i, j) key as sexpr pair -> code term
        self.atoms = {}
        self.tag = tag

    def key(self, i, j):
        a, b = z3_of(i), z3_of(j)
        return (a.sexpr(), b.sexpr())


RecMolCls = BuiltinClass('RecordingRWMol')
RecAtomCls = BuiltinClass('RecordingAtom')
BondObjCls = BuiltinClass('ExistingBond')
BT0 = z3.Function('InitialBondType', z3.IntSort(), z3.IntSort(), z3.IntSort())
Rad0 = z3.Function('InitialRadicals', z3.IntSort(), z3.IntSort())
Chg0 = z3.Function('InitialCharge', z3.IntSort(), z3.IntSort())


def recmol_attr(I, o, name):
    st = o.fields['state']
    if name == 'AddBond':
        return Builtin('AddBond', lambda I_, a, k: st['ops'].append(('AddBond', z3_of(a[0]), z3_of(a[1]), a[2].fields['code'] if isinstance(a[2], Obj) else a[2])))
    if name == 'RemoveBond':
        return Builtin('RemoveBond', lambda I_, a, k: st['ops'].append(('RemoveBond', z3_of(a[0]), z3_of(a[1]))))
    if name == 'GetBondBetweenAtoms':
        return Builtin('GetBondBetweenAtoms', lambda I_, a, k: Obj(BondObjCls, {'code': BT0(z3_of(a[0]), z3_of(a[1]))}, 'param'))
    if name == 'GetAtomWithIdx':
        return Builtin('GetAtomWithIdx', lambda I_, a, k: Obj(RecAtomCls, {'idx': z3_of(a[0]), 'state': st}, 'param'))
    if name == 'ReplaceAtom':
        return Builtin('ReplaceAtom', lambda I_, a, k: st['ops'].append(('ReplaceAtom', z3_of(a[0]))))
    if name == '__copy__':
        def cp(I_, a, k):
            new = {'ops': [], 'copy_of': st, 'n': len(st.setdefault('copies', []))}
            st['copies'].append(new)
            return Obj(RecMolCls, {'state': new}, 'fresh')
        return Builtin('__copy__', cp)
    return NotImplementedVal


def recatom_attr(I, o, name):
    st, idx = o.fields['state'], o.fields['idx']
    cur = st.setdefault('atomstate', {})
    k = idx.sexpr()
    if name == 'GetNumRadicalElectrons':
        return Builtin(name, lambda I_, a, kw: cur.get((k, 'rad'), Rad0(idx)))
    if name == 'GetFormalCharge':
        return Builtin(name, lambda I_, a, kw: cur.get((k, 'chg'), Chg0(idx)))
    if name == 'SetNumRadicalElectrons':
        return Builtin(name, lambda I_, a, kw: (cur.__setitem__((k, 'rad'), z3_of(a[0])), st['ops'].append(('SetRad', idx, z3_of(a[0]))))[1])
    if name == 'SetFormalCharge':
        return Builtin(name, lambda I_, a, kw: (cur.__setitem__((k, 'chg'), z3_of(a[0])), st['ops'].append(('SetChg', idx, z3_of(a[0]))))[1])
    if name == 'GetAtomicNum':
        return Builtin(name, lambda I_, a, kw: z3.IntVal(6))
    return NotImplementedVal


class W(C08.RW):
    def __init__(self):
        C08.RW.__init__(self)
        self.abstract['RecordingRWMol'] = {'attr': recmol_attr}
        self.abstract['RecordingAtom'] = {'attr': recatom_attr}
        self.abstract['ExistingBond'] = {'attr': lambda I, o, n: Builtin('GetBondType', lambda I2, a, k: bondtype(o.fields['code'])) if n == 'GetBondType' else NotImplementedVal}
        bt = self.externs['rdkit.Chem'].members['BondType']
        # Chem.BondType() (an enum instance) exposes the members as well
        self.externs['rdkit.Chem'].members['BondType'] = _CallableNS(bt)
        self.externs['rdkit.Chem'].members['rdchem'].members['BondType'] = self.externs['rdkit.Chem'].members['BondType']
        self.abstract['BondType']['attr'] = self._bt_attr

    def _bt_attr(self, I, o, name):
        r = chem.bondtype_attr(I, o, name)
        return r


class _CallableNS(Namespace):
    def __init__(self, ns):
        Namespace.__init__(self, ns.name, ns.members)

    def __call__(self, I, args, kwargs):
        return self


def world():
    return W()


def ops_equal(got, want):
    """structural comparison of recorded edit lists with z3 leaves"""
    if len(got) != len(want):
        return z3.BoolVal(False)
    cs = []
    for g, w in zip(got, want):
        if g[0] != w[0] or len(g) != len(w):
            return z3.BoolVal(False)
        for x, y in zip(g[1:], w[1:]):
            cs.append(z3_of(x) == z3_of(y))
    return z3.And(cs) if cs else z3.BoolVal(True)


def u_transformations(I):
    ctx = I.ctx
    names = ['BondForm', 'BondBreak', 'BondModify', 'BondIncrease', 'BondDecrease', 'AtomTypeModify', 'RadicalIncrease', 'RadicalDecrease',
             'ChargeIncrease', 'ChargeDecrease', 'RadicalModify']
    name = names[ctx.choose([True] * len(names), 'transformation')]
    if name not in source.module(RQ).classes:
        ctx.oblige('transformation class %s exists' % name, z3.BoolVal(False))
        return {'inputs': {}}
    cls = source.module(RQ).classes[name]
    # the rule addresses query atoms 0 and 2 of a 3-atom pattern; the match maps them to molecule atoms m0, m2
    m = [I.fresh('match%d' % i, 'int') for i in range(3)]
    ctx.assume(z3.Distinct(*m))
    st = {'ops': []}
    mol = Obj(RecMolCls, {'state': st}, 'param')
    code = I.fresh('bondtype', 'int')
    bt = bondtype(code)
    if name in ('BondForm', 'BondModify'):
        o = Obj(cls, {'idx1': 0, 'idx2': 2, 'bondtype': bt}, 'param')
    elif name in ('BondBreak', 'BondIncrease', 'BondDecrease'):
        o = Obj(cls, {'idx1': 0, 'idx2': 2}, 'param')
    elif name == 'AtomTypeModify':
        rad, chg = I.fresh('radical', 'int'), I.fresh('charge', 'int')
        o = Obj(cls, {'idx': 2, 'radical': rad, 'charge': chg, 'valence': 0}, 'param')
    elif name == 'RadicalModify':
        rad = I.fresh('radical', 'int')
        o = Obj(cls, {'idx': 2, 'radical': rad}, 'param')
    else:
        o = Obj(cls, {'idx': 2}, 'param')
    out = run_target(I, RQ, name + '.__call__', [mol, list(m)], self_obj=o)
    old = BT0(m[0], m[2])
    C = BOND_CODES
    if name == 'BondForm':
        want, bad = [('AddBond', m[0], m[2], code)], z3.BoolVal(False)
    elif name == 'BondBreak':
        want, bad = [('RemoveBond', m[0], m[2])], z3.BoolVal(False)
    elif name == 'BondModify':
        want, bad = [('RemoveBond', m[0], m[2]), ('AddBond', m[0], m[2], code)], z3.BoolVal(False)
    elif name == 'BondIncrease':
        ok = z3.Or([old == C[x] for x in ('SINGLE', 'DOUBLE', 'TRIPLE', 'QUADRUPLE')])
        new = z3.If(old == C['SINGLE'], C['DOUBLE'], z3.If(old == C['DOUBLE'], C['TRIPLE'], z3.If(old == C['TRIPLE'], C['QUADRUPLE'], C['QUINTUPLE'])))
        want, bad = [('RemoveBond', m[0], m[2]), ('AddBond', m[0], m[2], new)], z3.Not(ok)
    elif name == 'BondDecrease':
        ok = z3.Or([old == C[x] for x in ('SINGLE', 'DOUBLE', 'TRIPLE', 'QUADRUPLE', 'QUINTUPLE')])
        new = z3.If(old == C['DOUBLE'], C['SINGLE'], z3.If(old == C['TRIPLE'], C['DOUBLE'], z3.If(old == C['QUADRUPLE'], C['TRIPLE'], C['QUADRUPLE'])))
        want, bad = None, z3.Not(ok)
    elif name == 'AtomTypeModify':
        want, bad = [('SetRad', m[2], rad), ('SetChg', m[2], chg)], z3.BoolVal(False)
    elif name == 'RadicalModify':
        want, bad = [('SetRad', m[2], rad)], z3.BoolVal(False)
    elif name == 'RadicalIncrease':
        want, bad = [('SetRad', m[2], Rad0(m[2]) + 1)], z3.BoolVal(False)
    elif name == 'RadicalDecrease':
        want, bad = [('SetRad', m[2], Rad0(m[2]) - 1)], z3.BoolVal(False)
    elif name == 'ChargeIncrease':
        want, bad = [('SetChg', m[2], Chg0(m[2]) + 1)], z3.BoolVal(False)
    else:
        want, bad = [('SetChg', m[2], Chg0(m[2]) - 1)], z3.BoolVal(False)

    def posts(r):
        ops = st['ops']
        if name == 'BondDecrease':
            # single -> bond removed; otherwise re-added one order lower
            single = old == C['SINGLE']
            a = ops_equal(ops, [('RemoveBond', m[0], m[2])])
            b = ops_equal(ops, [('RemoveBond', m[0], m[2]), ('AddBond', m[0], m[2], new)])
            return [('decrease: a single bond is removed, a higher bond is re-added one order lower -- on the mapped atoms only',
                     z3.If(single, a, b) if len(ops) in (1, 2) else z3.BoolVal(False))]
        return [('%s edits exactly the addressed (mapped) atoms/bond with the declared values, nothing else' % name, ops_equal(ops, want)),
                ('no atom is added, removed or replaced', z3.BoolVal(not [x for x in ops if x[0] in ('ReplaceAtom', 'AddAtom', 'RemoveAtom')]))]
    # (the error branches of BondIncrease/BondDecrease call ReactionQueryError with two arguments, which its __init__ does not
    #  accept: a TypeError is raised instead -- still a rejection, outside what the property quantifies over; both are accepted here)
    check_outcome(I, out, raises={'*': bad}, returns=posts, site=name)
    return {'inputs': {}}


# ---- reader: electron balance ------------------------------------------------------------------------------------------
def T(name, *children):
    return C08.T(name, *children)


def u_balance(I):
    ctx = I.ctx
    cls = source.module(RQR).classes['ReactionQueryReader']
    rqcls = source.module(RQ).classes['ReactionQuery']
    e = [I.fresh('balance%d' % i, 'int') for i in range(3)]
    names = ['c1', 'c2', 'h1']
    # reactant pattern: c1 - c2 (bond of a symbolic type), h1 attached to c1; declared radical counts on the pattern atoms
    declared = [I.fresh('declared_radicals%d' % i, 'int') for i in range(3)]
    qbond_code = I.fresh('pattern_bond', 'int')
    qmol = Obj(C08.RWMolCls, {'atoms': [], 'bonds': [(0, 1, bondtype(qbond_code)), (0, 2, bondtype(BOND_CODES['SINGLE']))]}, 'param')
    W_ = I.world
    QA = BuiltinClass('PatternAtom')
    W_.abstract['PatternAtom'] = {'attr': lambda I_, o, n: {
        'GetNumRadicalElectrons': Builtin(n, lambda I2, a, k: z3.IntVal(0)),     # a query atom carries no radical count of its own
        'GetFormalCharge': Builtin(n, lambda I2, a, k: z3.IntVal(0)),
        'GetSymbol': Builtin(n, lambda I2, a, k: 'C')}.get(n, NotImplementedVal)}
    old_rw = W_.abstract['RWMol']['attr']

    def rw_attr(I_, o, n):
        if n == 'GetAtomWithIdx':
            return Builtin(n, lambda I2, a, k: Obj(QA, {'i': a[0]}, 'param'))
        if n == 'GetBondBetweenAtoms':
            def gb(I2, a, k):
                for p, q, t in o.fields['bonds']:
                    if {p, q} == {a[0], a[1]}:
                        return Obj(BondObjCls, {'code': t.fields['code']}, 'param')
                return None
            return Builtin(n, gb)
        return old_rw(I_, o, n)
    W_.abstract['RWMol'] = {'attr': rw_attr}
    mqcls = source.module(C08.MQ).classes['MolQuery']
    AR = source.module(C08.MQ).classes['AtomRadical']
    CN = source.module(C08.MQ).classes['ConstraintNumber']
    acons = C08._defaultdict(I, [W_.types['list']], {})
    for i in range(3):
        acons[i] = [Obj(AR, {'negate': False, 'CN': Obj(CN, {'operator': '=', 'n': declared[i]}, 'param')}, 'param')]
    mq = Obj(mqcls, {'mol': qmol, 'atom_names': list(names), 'name': 'r1', 'atom_constraints': acons, 'mol_constraints': [], 'bond_constraints': [],
                     'double_bond_stereo_constraints': []}, 'param')
    rq = Obj(rqcls, {'transformations': [], 'reactantquery': {'r1': mq}, 'atom_names': list(names)}, 'param')
    rd = Obj(cls, {'tree': None, 'RINGgroups': None, 'atom_names': list(names), 'atom_belonging_mol': ['r1'] * 3, 'electronbalance': list(e)}, 'param')
    edits = ['BondForm', 'BondForm-double', 'BondBreak', 'BondBreak-double', 'BondIncrease', 'BondDecrease', 'RadicalIncrease', 'RadicalDecrease',
             'ChargeIncrease', 'ChargeDecrease', 'RadicalModify', 'BondForm-undefined', 'BondBreak-unbonded', 'BondBreak-untyped-any-pattern-bond']
    ed = edits[ctx.choose([True] * len(edits), 'edit')]
    L = lambda s: T('AtomLabel', s)
    k = I.fresh('new_radicals', 'int')
    ctx.assume(k >= 0)
    trees = {'BondForm': [L('c2'), L('h1')], 'BondForm-double': [T('BondType', 'double'), L('c2'), L('h1')], 'BondBreak': [L('c1'), L('h1')],
             'BondBreak-double': [T('BondType', 'double'), L('c1'), L('c2')], 'BondIncrease': [L('c1'), L('c2')], 'BondDecrease': [L('c1'), L('c2')],
             'RadicalIncrease': [L('c2')], 'RadicalDecrease': [L('c2')], 'ChargeIncrease': [L('c2')], 'ChargeDecrease': [L('c2')],
             'RadicalModify': [L('c2'), k], 'BondForm-undefined': [L('c2'), L('zz')], 'BondBreak-unbonded': [L('c2'), L('h1')],
             'BondBreak-untyped-any-pattern-bond': [L('c1'), L('c2')]}
    fn = {'BondForm-double': 'BondForm', 'BondBreak-double': 'BondBreak', 'BondForm-undefined': 'BondForm', 'BondBreak-unbonded': 'BondBreak',
          'BondBreak-untyped-any-pattern-bond': 'BondBreak'}.get(ed, ed)
    if ed == 'BondBreak-double':
        ctx.assume(qbond_code == BOND_CODES['DOUBLE'])
    out = run_target(I, RQR, 'ReactionQueryReader.Read' + fn, [trees[ed], rq], self_obj=rd)
    # declared amounts: form -k, break +k, increase -1, decrease +1, radical +1 -> -1, radical -1 -> +1, charge +1 -> -1, charge -1 -> +1,
    # set radical count to k on an atom declared with d radicals -> -(k - d)
    delta = {'BondForm': {1: -1, 2: -1}, 'BondForm-double': {1: -2, 2: -2}, 'BondBreak': {0: 1, 2: 1}, 'BondBreak-double': {0: 2, 1: 2},
             'BondIncrease': {0: -1, 1: -1}, 'BondDecrease': {0: 1, 1: 1}, 'RadicalIncrease': {1: -1}, 'RadicalDecrease': {1: 1},
             'BondBreak-untyped-any-pattern-bond': {0: 1, 1: 1},
             'ChargeIncrease': {1: -1}, 'ChargeDecrease': {1: 1}, 'RadicalModify': {1: -(k - declared[1])}}
    tclass = {'BondForm-double': 'BondForm', 'BondBreak-double': 'BondBreak', 'RadicalModify': None, 'BondBreak-untyped-any-pattern-bond': 'BondBreak'}.get(ed, ed)
    if ed in ('BondForm-undefined', 'BondBreak-unbonded'):
        check_outcome(I, out, raises={'*': z3.BoolVal(True)}, returns=lambda r: [('an undefined label / a bond that is not in the pattern is rejected', z3.BoolVal(False))])
        ctx.oblige('a rejected edit leaves the balance untouched', z3.And([z3_of(rd.fields['electronbalance'][i]) == e[i] for i in range(3)]))
        return {'inputs': {}}

    def posts(r):
        eb = rd.fields['electronbalance']
        ps = [('electron balance of each labelled atom changes by exactly the declared amount (others unchanged)',
               z3.And([z3_of(eb[i]) == e[i] + delta[ed].get(i, 0) for i in range(3)]))]
        tr = rq.fields['transformations']
        ps.append(('exactly one transformation is recorded', z3.BoolVal(len(tr) == 1)))
        if len(tr) == 1 and tclass:
            idxs = sorted(delta[ed])
            f = tr[0].fields
            got = [f.get('idx1'), f.get('idx2')] if 'idx1' in f else [f.get('idx')]
            ps.append(('... of the declared kind, addressing the labelled atoms', z3.BoolVal(tr[0].cls.name == tclass and got == idxs)))
        if len(tr) == 1 and ed == 'RadicalModify':
            f = tr[0].fields
            ps.append(('"set radical count" changes the radical count of that atom only (no declared charge edit)',
                       z3.BoolVal(tr[0].cls.name in ('RadicalModify',) or (tr[0].cls.name == 'AtomTypeModify' and False))))
        return ps
    if ed == 'BondBreak-untyped-any-pattern-bond':
        # an untyped 'break bond' is the break of a SINGLE bond (one electron back to each end): over a pattern bond of any other kind it is refused
        check_outcome(I, out, raises={'*': qbond_code != BOND_CODES['SINGLE']}, returns=posts, site='ReadBondBreak')
        return {'inputs': {}}
    check_outcome(I, out, raises={}, returns=posts, site='Read' + fn)
    return {'inputs': {}}


def u_read_balance_check(I):
    """ReactionQueryReader.Read: the rule is rejected exactly when the balance of some labelled atom is non-zero"""
    ctx = I.ctx
    cls = source.module(RQR).classes['ReactionQueryReader']
    e = [I.fresh('final_balance%d' % i, 'int') for i in range(2)]
    tree = [T('ReactionName', 'r'), T('Reactants'), T('TransformationChain')]
    rd = Obj(cls, {'tree': tree, 'RINGgroups': None, 'atom_names': [], 'atom_belonging_mol': [], 'electronbalance': []}, 'param')
    # labels may repeat (the molecule reader documents it: a label refers to the first atom declared with it); the balance is kept per ATOM
    names = [['c1', 'h1'], ['c1', 'c1']][ctx.choose([True, True], 'labels: distinct / one label on two atoms')]
    I.world.contracts[(RQR, 'ReactionQueryReader.ReadReactants')] = lambda I_, a, k: (rd.fields.__setitem__('atom_names', list(names)), rd.fields.__setitem__('electronbalance', [0, 0]))[1]
    I.world.contracts[(RQR, 'ReactionQueryReader.ReadTransformationChain')] = lambda I_, a, k: rd.fields.__setitem__('electronbalance', list(e))
    rq = Obj(source.module(RQ).classes['ReactionQuery'], {'transformations': [], 'reactantquery': {}, 'atom_names': []}, 'fresh')
    I.world.ctor_hooks['ReactionQuery'] = lambda I_, c, a, k: rq
    out = run_target(I, RQR, 'ReactionQueryReader.Read', [], self_obj=rd)
    check_outcome(I, out, raises={'*': z3.Or(e[0] != 0, e[1] != 0)},
                  returns=lambda r: [('a balanced rule is returned as the reaction query', z3.BoolVal(r is rq))], site='Read')
    return {'inputs': {}}


def u_read_balance_any(I):
    """ReactionQueryReader.Read, ANY number of labelled atoms: the rule is rejected exactly when the balance of SOME atom is non-zero.
    Ghost NZ(j) = "one of the first j balances is non-zero" (NZ(0) false, NZ(j+1) = NZ(j) or balance[j] != 0, instantiated at the loop index);
    loop invariant: the message is non-empty iff NZ(j).  State of arbitrary size from the reader units of C09 (lists of symbolic length)."""
    from . import C09readers as R
    from . import treeshape as ts
    from pyvc import loops
    from pyvc.engine import FmtStr
    ctx = I.ctx
    NZ = z3.Function('SomeBalanceNonZeroBefore', z3.IntSort(), z3.BoolSort())
    R.rqr_contracts(I)
    n = ctx.fresh('n_atoms', 'int')
    ctx.assume(n >= 0)
    ver = ctx.fresh('final_balances', 'int')
    rd = Obj(source.module(RQR).classes['ReactionQueryReader'], {'tree': None, 'RINGgroups': None, 'atom_names': [], 'atom_belonging_mol': [], 'electronbalance': []}, 'param')

    def reactants(I_, a, k):
        rd.fields['atom_names'] = R.mk_list(I_, 'labels', 'str', n)
        rd.fields['atom_belonging_mol'] = R.mk_list(I_, 'belong', 'str', n)
        rd.fields['electronbalance'] = R.mk_list(I_, 'balance', 'num', n)
    I.world.contracts[(RQR, 'ReactionQueryReader.ReadReactants')] = reactants

    def chain(I_, a, k):
        rd.fields['electronbalance'].fields['ver'] = ver       # whatever the edits booked: the final balances
    I.world.contracts[(RQR, 'ReactionQueryReader.ReadTransformationChain')] = chain

    def nonempty(v):
        if isinstance(v, str):
            return z3.BoolVal(bool(v))
        if is_z3(v) and z3.is_string(v):
            return z3.Length(v) > 0
        if isinstance(v, FmtStr):
            def lit(p_):
                return (isinstance(p_, str) and p_ != '') or (isinstance(p_, FmtStr) and any(lit(q_) for q_ in p_.parts))
            if any(lit(p_) for p_ in v.parts):
                return z3.BoolVal(True)
        raise Unsupported('cannot tell whether the message %r is empty' % (v,))

    def state_at(I_, j, env, it):
        s_ = ctx.fresh('message', 'str')
        ctx.assume(z3.And(NZ(0) == z3.BoolVal(False), NZ(j + 1) == z3.Or(NZ(j), R.ElemNum(ver, j) != 0)))
        ctx.assume((z3.Length(s_) > 0) == NZ(j))
        env.local['s'] = s_
    I.world.loop_specs[(RQR, 'ReactionQueryReader.Read', 0)] = loops.for_rule(
        'balance', state_at, lambda I_, j, env, it: [('the message is non-empty iff one of the balances seen so far is non-zero', nonempty(env.local.get('s')) == NZ(j))])
    ctx.assume(NZ(0) == z3.BoolVal(False))
    rd.fields['tree'] = [[ts.tok('ReactionName'), ctx.fresh('rule_name', 'str')], [ts.tok('Reactants'), ts.opaque('ReactantQuery')], [ts.tok('TransformationChain'), ts.opaque('ConnectivityChange')]]
    out = run_target(I, RQR, 'ReactionQueryReader.Read', [], self_obj=rd)
    # what NZ(n) MEANS (induction over its defining equations, on paper): some balance among the first n is non-zero.  Stated as two ground-instantiated
    # schemas, so that an implementation that does not walk the list index by index (a comprehension, any(), a filter) is judged by the same specification
    # instead of being refuted for not touching the ghost function.
    k_ = z3.Int('k!nz')
    sk = ctx.fresh('nonzero_witness', 'int')
    ctx.assume_forall([k_], z3.Implies(z3.And(0 <= k_, k_ < n, R.ElemNum(ver, k_) != 0), NZ(n)), 'a non-zero balance makes NZ(n) true')
    ctx.assume(z3.Implies(NZ(n), z3.And(0 <= sk, sk < n, R.ElemNum(ver, sk) != 0)))
    terms, seen = [], set()

    def walk(e):
        if e.get_id() in seen:
            return
        seen.add(e.get_id())
        if z3.is_app(e):
            if z3.is_int(e) and e.num_args() == 0 and e.decl().kind() == z3.Z3_OP_UNINTERPRETED and e.sexpr() not in [t.sexpr() for t in terms]:
                terms.append(e)
            for c_ in e.children():
                walk(c_)
    for f_ in list(ctx.pc):
        if is_z3(f_):
            walk(f_)
    ctx.instantiate(terms[:40])
    check_outcome(I, out, raises={'*': NZ(n)}, returns=lambda r: [('a balanced rule is returned as a reaction query', z3.BoolVal(isinstance(r, Obj) and r.cls.name == 'ReactionQuery'))], site='Read')
    return {'inputs': {}}


def u_runreactants(I):
    """unimolecular rule, two matches: one product set per match, each from its own fresh copy, transformations in rule order"""
    ctx = I.ctx
    W_ = I.world
    cls = source.module(RQ).classes['ReactionQuery']
    nmatch = 2
    ms = [tuple(I.fresh('m%d_%d' % (i, q), 'int') for q in range(2)) for i in range(nmatch)]
    calls = []
    TR = BuiltinClass('AbsTransformation')
    W_.abstract['AbsTransformation'] = {'call': lambda I_, o, a, k: calls.append((o.fields['t'], a[0], a[1]))}
    trs = [Obj(TR, {'t': t}, 'param') for t in range(2)]
    mqcls = source.module(C08.MQ).classes['MolQuery']
    mq = Obj(mqcls, {'name': 'r1'}, 'param')
    W_.contracts[(C08.MQ, 'MolQuery.GetQueryMatches')] = lambda I_, a, k: tuple(ms)
    ch = W_.externs['rdkit.Chem'].members
    base = {'ops': []}
    withH = Obj(chem.MolCls, {'mid': I.fresh('withH', 'int')}, 'fresh')
    ch['AddHs'] = Builtin('AddHs', lambda I_, a, k: withH)
    rw = Obj(RecMolCls, {'state': base}, 'fresh')
    ch['RWMol'] = Builtin('RWMol', lambda I_, a, k: rw)
    frags = []
    ch['GetMolFrags'] = Builtin('GetMolFrags', lambda I_, a, k: (frags.append(a[0]), ('frags-of', a[0]))[1])
    ch['Mol'] = chem.MolCls
    chem.MolCls.instancecheck = lambda I_, v: isinstance(v, Obj) and v.cls is chem.MolCls
    W_.externs['itertools.product'] = Builtin('product', lambda I_, a, k: [tuple(x) for x in __import__('itertools').product(*[list(y) for y in a])])
    W_.externs['operator.add'] = Builtin('add', lambda I_, a, k: I_.binop(ast.Add, a[0], a[1]))
    W_.builtins = dict(W_.builtins)
    W_.builtins['map'] = Builtin('map', lambda I_, a, k: [I_.call(a[0], [x, y], {}) for x, y in zip(a[1], a[2])])
    o = Obj(cls, {'transformations': trs, 'reactantquery': {'r1': mq}}, 'param')
    reactant = Obj(chem.MolCls, {'mid': I.fresh('reactant', 'int')}, 'param')
    out = run_target(I, RQ, 'ReactionQuery.RunReactants', [reactant], self_obj=o)

    def posts(r):
        ps = [('one product set per match', z3.BoolVal(isinstance(r, tuple) and len(r) == nmatch))]
        copies = base.get('copies', [])
        ps.append(('each match works on its own fresh copy of the reactant (the reactant itself is never edited)',
                   z3.BoolVal(len(copies) == nmatch and not base['ops'])))
        okc = len(calls) == 2 * nmatch
        if okc:
            for i in range(nmatch):
                for t in range(2):
                    c = calls[2 * i + t]
                    okc = okc and c[0] == t and isinstance(c[1], Obj) and c[1].fields['state'] is copies[i] and len(c[2]) == 2
            ps.append(('the transformations are applied in rule order to the copy of that match, with that match\'s atoms',
                       z3.And([z3.BoolVal(okc)] + [z3_of(calls[2 * i][2][q]) == ms[i][q] for i in range(nmatch) for q in range(2)])))
        else:
            ps.append(('every transformation is applied once per match', z3.BoolVal(False)))
        ps.append(('the product set of a match is the fragments of its edited copy', z3.BoolVal(len(frags) == nmatch and all(f.fields['state'] is copies[i] for i, f in enumerate(frags)))))
        return ps
    check_outcome(I, out, raises={}, returns=posts)
    return {'inputs': {}}


UNITS = [
    Unit('transformations.__call__', (RQ, 'BondForm.__call__'), u_transformations),
    Unit('ReactionQueryReader.Read<edit> (electron balance)', (RQR, 'ReactionQueryReader.ReadBondForm'), u_balance),
    Unit('ReactionQueryReader.Read (balance check)', (RQR, 'ReactionQueryReader.Read'), u_read_balance_check),
    Unit('ReactionQueryReader.Read (balance check, any number of atoms)', (RQR, 'ReactionQueryReader.Read'), u_read_balance_any),
    Unit('ReactionQuery.RunReactants', (RQ, 'ReactionQuery.RunReactants'), u_runreactants),
]

PROBES = [chem.probe_bond_codes]

from . import standins
STANDINS = [standins.c16_rewriter]

for _u in UNITS:
    if 'any number of atoms' in _u.name:
        from . import C09readers as _R      # noqa: E402
        _u.world_factory = _R.xworld
