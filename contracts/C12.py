"""C12 -- Loading a library does not depend on the units its data use.

qty_loader: explicit unit, else the default unit of the kind, else InputDataError; zero like any other value.
ThermochemIncomplete.yaml_construct: every datum is normalised to SI and divided by R (and T_ref for H): all
plain numbers, so two presentations of the same SI data give the same constructor arguments."""
import z3

from pyvc import source
from pyvc.engine import Obj, Builtin, NDArr, is_z3, z3_of
from pyvc.source import BuiltinClass
from pyvc.verify import Unit, run_target
from . import units
from .units import UnitsWorld, QTY, HELP, mk_qty, mk_units, qty_parts, is_qty, same
from .spec import check_outcome
from .thermo import INC

PROPERTY = 'C12'
YB = 'pgradd/yaml_io/builtins.py'
E_K = [0, 0, 0, 0, 1, 0, 0]
E_JMOL = [2, 1, -2, 0, 0, -1, 0]
E_JMOLK = [2, 1, -2, 0, -1, -1, 0]
TRUSTED = ['eval_qty(str) (the units parser, checked in C10) returns a Quantity for text with units, a plain number for a bare '
           'numeric text, or raises UnitsParseError; non-strings are returned unchanged',
           'PyYAML delivers scalars as python str/float/int']


def qty_const(I, tag, exps, positive=False):
    cls = source.module(QTY).classes['Quantity']
    ucls = source.module(QTY).classes['FundamentalUnits']
    v = I.fresh(tag, 'real')
    if positive:
        I.ctx.assume(v > 0)
    u = Obj(ucls, {'exps': NDArr((7,), [z3.IntVal(e) for e in exps]), 'are_floats': NDArr((7,), [False] * 7, 'bool')}, 'param')
    return Obj(cls, {'value': v, 'units': u}, 'param'), v


class W(UnitsWorld):
    def __init__(self):
        UnitsWorld.__init__(self)
        self.parsed = {}

    def install_eval_qty(self, I, table):
        """callee contract of eval_qty: `table` maps the python values used as unit/quantity texts to their parse result"""
        def eval_qty(I_, a, k):
            v = a[0]
            if is_z3(v) and z3.is_string(v) or isinstance(v, str):
                for key, res in table:
                    if key is v or (isinstance(key, str) and isinstance(v, str) and key == v):
                        if isinstance(res, str) and res == 'error':
                            raise I_.exc('UnitsParseError', 'bad units')
                        return res
                from pyvc.engine import Unsupported
                raise Unsupported('eval_qty of a text the contract does not describe: %r' % (v,))
            return v
        self.contracts[(QTY, 'eval_quantity')] = eval_qty


def world():
    return W()


def u_qty_loader(I):
    ctx = I.ctx
    cls = source.module(YB).classes['qty_loader']
    kind = 'molar enthalpy'
    o = Obj(cls, {'kind': kind}, 'param')
    form = ['none', 'text-with-units', 'bare-number-text', 'number', 'zero', 'quantity'][ctx.choose([True] * 6, 'value form')]
    ctxform = ['default-unit', 'no-default', 'no-units-block'][ctx.choose([True] * 3, 'context')]
    unit_txt = I.fresh('default_unit_text', 'str')
    uq, uv, ue = mk_qty(I, 'unit')
    context = {'units': {kind: unit_txt}} if ctxform == 'default-unit' else ({'units': {'temperature': 'K'}} if ctxform == 'no-default' else {})
    txt = I.fresh('value_text', 'str')
    q, qv, qe = mk_qty(I, 'val')
    x = I.fresh('x', 'real')
    value = {'none': None, 'text-with-units': txt, 'bare-number-text': txt, 'number': x, 'zero': 0.0, 'quantity': q}[form]
    parsed = q if form == 'text-with-units' else x
    I.world.install_eval_qty(I, [(txt, parsed), (unit_txt, uq)])
    out = run_target(I, YB, 'qty_loader.__call__', ['H_ref', value, context], self_obj=o)
    bare = form in ('bare-number-text', 'number', 'zero')
    xv = z3.RealVal(0) if form == 'zero' else x
    need_err = z3.BoolVal(bare and ctxform != 'default-unit')

    def posts(r):
        if form == 'none':
            return [('None stays None', z3.BoolVal(r is None))]
        if form in ('text-with-units', 'quantity'):
            return [('a value with explicit units is taken as written', z3.BoolVal(r is q))]
        rv, re_ = qty_parts(r)
        return [('a bare number takes the default unit of its kind: SI magnitude x*SI(unit), dimension of the unit -- zero included',
                 z3.And(z3.BoolVal(is_qty(r)), z3_of(rv) == xv * uv, same(re_, ue)))]
    writes = [e for e in ctx.effects if e[0].startswith('write')]
    ctx.oblige('the loader keeps no state between calls: no write to the loader object, its class or module-level containers',
               z3.BoolVal(not writes), writes=str(writes))
    check_outcome(I, out, raises={'*': need_err}, returns=posts, site='qty_loader.__call__')
    return {'inputs': {}}


def u_yaml_construct(I):
    ctx = I.ctx
    cls = source.module(INC).classes['ThermochemIncomplete']
    Rq, Rv = qty_const(I, 'R', E_JMOLK, positive=True)
    I.modstate[(INC, 'R')] = Rq
    Kq, Kv = qty_const(I, 'K_unit', E_K)
    ctx.assume(Kv == 1)
    I.world.install_eval_qty(I, [('K', Kq)])
    Tq, Tv = qty_const(I, 'T_ref', E_K, positive=True)
    hform = ['dimensional', 'nondimensional', 'absent', 'zero'][ctx.choose([True] * 4, 'H')]
    sform = ['dimensional', 'nondimensional', 'absent'][ctx.choose([True] * 3, 'S')]
    cform = ['dimensional', 'nondimensional', 'absent'][ctx.choose([True] * 3, 'Cp')]
    rform = ctx.choose([True, True], 'range')
    params = {'T_ref': Tq, 'name': 'thermochem'}
    Hq, Hv = qty_const(I, 'H_ref', E_JMOL)
    if hform == 'zero':
        ctx.assume(Hv == 0)
    ndH = I.fresh('ND_H_ref', 'real')
    if hform in ('dimensional', 'zero'):
        params['H_ref'] = Hq
    elif hform == 'nondimensional':
        params['ND_H_ref'] = ndH
    Sq, Sv = qty_const(I, 'S_ref', E_JMOLK)
    ndS = I.fresh('ND_S_ref', 'real')
    if sform == 'dimensional':
        params['S_ref'] = Sq
    elif sform == 'nondimensional':
        params['ND_S_ref'] = ndS
    pts = []
    for i in range(2):
        tq, tv = qty_const(I, 'T%d' % i, E_K, positive=True)
        cq, cv = qty_const(I, 'Cp%d' % i, E_JMOLK)
        nd = I.fresh('ND_Cp%d' % i, 'real')
        pts.append((tq, tv, cq, cv, nd))
    ctx.assume(pts[0][1] != pts[1][1])
    if cform == 'dimensional':
        params['Cp_data'] = [(p[0], p[2]) for p in pts]
    elif cform == 'nondimensional':
        params['ND_Cp_data'] = [(p[0], p[4]) for p in pts]
    loq, lov = qty_const(I, 'lo', E_K)
    hiq, hiv = qty_const(I, 'hi', E_K)
    if rform:
        params['range'] = (loq, hiq)
    got = {}

    def ctor(I_, c, a, k):
        got['args'] = a
        return Obj(cls, {'constructed': True})
    I.world.ctor_hooks['ThermochemIncomplete'] = ctor
    out = run_target(I, INC, 'ThermochemIncomplete.yaml_construct', [cls, params, {}])

    def plain(v):
        return v is not None and not is_qty(v) and not isinstance(v, Obj)

    def posts(r):
        a = got.get('args')
        if a is None or len(a) != 5:
            return [('constructor called with (ND_H_ref, ND_S_ref, ND_Cp_data, T_ref, range)', z3.BoolVal(False))]
        H, S, Cp, T, rg = a
        ps = []
        if hform == 'absent':
            ps.append(('absent enthalpy stays absent', z3.BoolVal(H is None)))
        elif hform == 'nondimensional':
            ps.append(('non-dimensional enthalpy passes through', z3.BoolVal(H is ndH)))
        else:
            ps.append(('ND_H_ref == SI(H_ref)/(R*SI(T_ref)) as a plain number (zero like any other value)',
                       z3.And(z3_of(H) * (Rv * Tv) == Hv) if plain(H) else z3.BoolVal(False)))
        if sform == 'absent':
            ps.append(('absent entropy stays absent', z3.BoolVal(S is None)))
        elif sform == 'nondimensional':
            ps.append(('non-dimensional entropy passes through', z3.BoolVal(S is ndS)))
        else:
            ps.append(('ND_S_ref == SI(S_ref)/R as a plain number', (z3_of(S) * Rv == Sv) if plain(S) else z3.BoolVal(False)))
        if cform == 'absent':
            ps.append(('no heat-capacity data => empty table', z3.BoolVal(Cp == {})))
        else:
            ok = isinstance(Cp, dict) and len(Cp) == 2
            ps.append(('table has one entry per point', z3.BoolVal(ok)))
            if ok:
                items = list(Cp.items())
                for (kT, vC), p in zip(items, pts):
                    want = (z3_of(vC) * Rv == p[3]) if cform == 'dimensional' else (z3_of(vC) == p[4])
                    ps.append(('point: temperature in K and Cp/R, plain numbers', z3.And(z3_of(kT) == p[1], want)
                               if plain(kT) and plain(vC) else z3.BoolVal(False)))
        ps.append(('T_ref in K as a plain number', (z3_of(T) == Tv) if plain(T) else z3.BoolVal(False)))
        if rform:
            ps.append(('range in K as plain numbers', z3.And(z3_of(rg[0]) == lov, z3_of(rg[1]) == hiv)
                       if isinstance(rg, tuple) and len(rg) == 2 and plain(rg[0]) and plain(rg[1]) else z3.BoolVal(False)))
        else:
            ps.append(('no range', z3.BoolVal(rg is None)))
        return ps
    check_outcome(I, out, raises={}, returns=posts, site='ThermochemIncomplete.yaml_construct')
    return {'inputs': {}}


UNITS = [
    Unit('qty_loader.__call__', (YB, 'qty_loader.__call__'), u_qty_loader),
    Unit('ThermochemIncomplete.yaml_construct', (INC, 'ThermochemIncomplete.yaml_construct'), u_yaml_construct),
]
from . import C10
for u in C10.UNITS:
    if u.name.startswith('helpers.with_units'):
        u.world_factory = C10.world
        UNITS.append(u)

from . import standins
STANDINS = [standins.c12_presentations]

# what a unit string means is the contract of eval_qty (C10): its data obligation (every unit name and prefix, evaluated in three different orders in
# one process) is part of this check too -- a loader is only as unit-independent as the unit table is order-independent
DATA = list(globals().get('DATA', [])) + list(C10.DATA)
