"""Path exploration, obligation discharge (z3, cvc5 fallback), units of verification."""
import os
import subprocess
import tempfile
import time
import traceback
from fractions import Fraction

import z3

from . import source
from .engine import (Ctx, Interp, PyExc, PathAbort, PathDone, Unsupported, Obj, Func, BoundMethod, is_z3)


class Outcome:
    def __init__(self, kind, value):
        self.kind = kind      # 'return' | 'raise'
        self.value = value    # python/z3 value, or exception Obj

    @property
    def exc_class(self):
        return self.value.cls.name if self.kind == 'raise' else None

    def __repr__(self):
        return 'Outcome(%s, %r)' % (self.kind, self.value if self.kind == 'return' else self.value.cls.name)


def run_target(I, relpath, qualname, args, kwargs=None, self_obj=None):
    """Interpret the real function body (never its contract) and return an Outcome."""
    m, c, fn = source.find_function(relpath, qualname)
    f = Func(fn, m, c, None, qualname)
    prev = I.world.top_active
    I.world.top_active = (relpath, qualname)
    I.world.inlined.add('%s::%s' % (relpath, qualname))     # every function a unit interprets belongs to its ledger closure
    try:
        try:
            a = list(args)
            if self_obj is not None:
                a = [self_obj] + a
            v = I.call_func(f, a, kwargs or {})
            return Outcome('return', v)
        except PyExc as e:
            return Outcome('raise', e.obj)
    finally:
        I.world.top_active = prev


class Unit:
    """One function under contract (or one lemma).  Subclasses/instances provide run(I)."""
    def __init__(self, name, target=None, run=None, replay=None, note='', kind='function', inputs=None):
        self.name = name
        self.target = target            # (relpath, qualname) or None for lemmas / data obligations
        self.run_fn = run
        self.replay_fn = replay
        self.note = note
        self.kind = kind
        self.world_factory = None

    def run(self, I):
        return self.run_fn(I)


def explore(unit, world_factory, max_paths=4000, branch_timeout_ms=3000):
    """Enumerate all paths of unit.run.  Returns (paths, stats). Each path: dict(ctx, result|None, error|None)."""
    work = [[]]
    paths = []
    stats = {'paths': 0, 'aborted': 0, 'unsupported': []}
    while work:
        prefix = work.pop()
        ctx = Ctx(prefix, branch_timeout_ms)
        world = world_factory()
        I = Interp(ctx, world)
        try:
            res = unit.run(I)
            paths.append({'ctx': ctx, 'result': res, 'world': world})
            stats['paths'] += 1
        except PathDone:
            paths.append({'ctx': ctx, 'result': None, 'world': world})
            stats['paths'] += 1
        except PathAbort:
            stats['aborted'] += 1
        except Unsupported as e:
            stats['unsupported'].append(str(e))
            paths.append({'ctx': ctx, 'result': None, 'world': world, 'unsupported': str(e)})
        work.extend(ctx.alts)
        if stats['paths'] + stats['aborted'] > max_paths:
            stats['unsupported'].append('path budget exceeded (%d)' % max_paths)
            break
    return paths, stats


def _model_value(m, v):
    try:
        x = m.eval(v, model_completion=True)
    except z3.Z3Exception:
        return None
    if z3.is_int_value(x):
        return x.as_long()
    if z3.is_rational_value(x):
        return Fraction(x.numerator_as_long(), x.denominator_as_long())
    if z3.is_algebraic_value(x):
        return float(x.approx(20).as_fraction())
    if z3.is_true(x):
        return True
    if z3.is_false(x):
        return False
    if z3.is_string_value(x):
        return x.as_string()
    return str(x)


CVC5 = '/usr/bin/cvc5'


def _cvc5(smt2, timeout_s, strings):
    with tempfile.NamedTemporaryFile('w', suffix='.smt2', delete=False) as f:
        f.write(smt2)
        p = f.name
    try:
        cmd = [CVC5, '--lang', 'smt2', '--tlimit=%d' % int(timeout_s * 1000)]
        if strings:
            cmd.append('--strings-exp')
        r = subprocess.run(cmd + [p], capture_output=True, text=True, timeout=timeout_s + 5)
        out = r.stdout.strip().splitlines()
        return out[0] if out else 'unknown'
    except Exception:
        return 'unknown'
    finally:
        os.unlink(p)


def discharge(pc, goal, timeout_s=10, want_model_for=None, second_solver=True):
    """Check pc => goal.  Returns dict(status=unsat|sat|unknown, backend, time, model)."""
    t0 = time.time()
    s = z3.Solver()
    s.set('timeout', int(timeout_s * 1000))
    for f in pc:
        s.add(f)
    s.add(z3.Not(goal))
    r = s.check()
    out = {'backend': 'z3-%s' % z3.get_version_string(), 'status': str(r), 'model': None}
    if r == z3.sat:
        m = s.model()
        out['model_obj'] = m
        out['model'] = {str(d): str(m[d]) for d in m.decls()[:60]}
    elif r == z3.unknown and second_solver:
        smt2 = s.to_smt2()
        strings = 'String' in smt2
        logic = '(set-logic ALL)\n'
        r2 = _cvc5(logic + smt2, timeout_s, strings)
        if r2 in ('unsat', 'sat'):
            out['status'] = r2
            out['backend'] = 'cvc5-1.0.3'
            if r2 == 'sat':
                out['model'] = {'note': 'cvc5 sat; no model extracted'}
        else:
            out['reason'] = s.reason_unknown()
    out['time'] = time.time() - t0
    return out


def concretize(model, inputs):
    """inputs: dict name -> z3 term | list of terms | nested; returns same shape with python values."""
    def conv(v):
        if isinstance(v, dict):
            return {k: conv(x) for k, x in v.items()}
        if isinstance(v, (list, tuple)):
            return [conv(x) for x in v]
        if is_z3(v):
            return _model_value(model, v)
        return v
    return conv(inputs)


def verify_unit(unit, world_factory, timeout_s=10, max_paths=4000):
    """Returns a JSON-able dict with all obligations of the unit and their status."""
    t0 = time.time()
    res = {'unit': unit.name, 'target': list(unit.target) if unit.target else None, 'kind': unit.kind,
           'obligations': [], 'paths': 0, 'vacuous_paths': 0, 'errors': [], 'inlined': [], 'externs': [],
           'note': unit.note}
    try:
        paths, stats = explore(unit, world_factory, max_paths, getattr(unit, 'branch_timeout_ms', 3000))
    except Exception as e:
        res['errors'].append('engine crash: %s\n%s' % (e, traceback.format_exc()))
        res['wall_s'] = time.time() - t0
        return res
    res['paths'] = stats['paths']
    res['aborted_paths'] = stats['aborted']
    for u in stats['unsupported']:
        res['errors'].append('unsupported: ' + u)
    inl, ext = set(), set()
    k = 0
    for p in paths:
        ctx = p['ctx']
        inl |= p['world'].inlined
        ext |= p['world'].used_externs
        if p.get('unsupported'):
            continue
        # reachability of the completed path (vacuity guard d)
        s = z3.Solver()
        s.set('timeout', 5000)
        for f in ctx.pc_assumed:       # obligations assumed along the way must not make a path look unreachable
            s.add(f)
        reach = s.check()
        if reach == z3.unsat:
            res['vacuous_paths'] += 1
            continue
        k += 1
        for ob in ctx.obligations:
            d = discharge(ob['pc'], ob['goal'], timeout_s)
            entry = {'name': '%s/%s/p%d' % (unit.name, ob['name'], k), 'label': ob['name'],
                     'status': d['status'], 'backend': d['backend'], 'time': round(d['time'], 4),
                     'formula': _short(ob['goal']), 'meta': {kk: str(vv) for kk, vv in ob['meta'].items()}}
            if d['status'] == 'sat':
                entry['model'] = d['model']
                rp = ob['meta'].get('replay') or unit.replay_fn
                # a replay that builds its own witness (model_free) also runs when the back end gave a verdict without a model (cvc5 on strings)
                if rp is not None and (d.get('model_obj') is not None or getattr(rp, 'model_free', False)):
                    try:
                        state = p['result'] if isinstance(p['result'], dict) else {}
                        entry['replay'] = rp(d.get('model_obj'), state, ob)
                    except Exception as e:
                        entry['replay'] = {'failed': None, 'error': '%s: %s' % (type(e).__name__, e),
                                           'trace': traceback.format_exc()[-1500:]}
            elif d['status'] == 'unknown':
                entry['reason'] = d.get('reason')
            res['obligations'].append(entry)
    res['inlined'] = sorted(inl)
    res['externs'] = sorted(ext)
    res['feasible_paths'] = k
    res['wall_s'] = round(time.time() - t0, 3)
    return res


def _short(f, n=400):
    try:
        s = f.sexpr() if is_z3(f) else str(f)
    except Exception:
        s = str(f)
    s = ' '.join(s.split())
    return s if len(s) <= n else s[:n] + ' ...'
