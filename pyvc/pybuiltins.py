"""Python builtins and methods of builtin types, as far as the functions under contract use them."""
import ast
import unicodedata
from fractions import Fraction

import z3

from .source import ClassInfo, ModuleInfo
from .engine import (Obj, Func, BoundMethod, Builtin, Namespace, GenVal, SetVal, FmtStr, NDArr, SymSeq, StarSeq, NpScalar, unwrap,
                     Unsupported, PyExc, NotImplementedVal, BUILTIN_CLASSES, is_z3, z3_of, num_pair, is_number)


def isstr(v):
    return isinstance(v, (str, FmtStr)) or (is_z3(v) and z3.is_string(v))


def type_of(I, v):
    T = I.world.types
    if isinstance(v, NpScalar):
        return I.world.extern('numpy').members['float64_type']
    if isinstance(v, Obj):
        return v.cls
    if isinstance(v, bool) or (is_z3(v) and z3.is_bool(v)):
        return T['bool']
    if isinstance(v, int) or (is_z3(v) and z3.is_int(v)):
        return T['int']
    if isinstance(v, (float, Fraction)) or (is_z3(v) and z3.is_real(v)):
        return T['float']
    if isstr(v):
        return T['str']
    if isinstance(v, list):
        return T['list']
    if isinstance(v, tuple):
        return T['tuple']
    if isinstance(v, dict):
        return T['dict']
    if isinstance(v, SetVal):
        return T['set']
    if v is None:
        return T['NoneType']
    if isinstance(v, NDArr):
        return I.world.extern('numpy').members['ndarray']
    raise Unsupported('type() of %r' % (v,))


def isinstance_(I, v, t):
    from .world import PyType
    if isinstance(v, NpScalar):
        # np.float64 subclasses float
        if isinstance(t, tuple):
            return any(isinstance_(I, v, x) for x in t)
        if isinstance(t, PyType):
            return t.name in ('float', 'object')
        return getattr(t, 'name', None) in ('float64', 'number', 'floating', 'generic')
    if isinstance(t, tuple):
        return any(isinstance_(I, v, x) for x in t)
    if isinstance(t, PyType):
        n = t.name
        if n == 'object':
            return True
        tv = type_of(I, v)
        if isinstance(tv, PyType):
            if tv.name == n:
                return True
            if n == 'int' and tv.name == 'bool':
                return True
            return False
        # an Obj: extern classes may declare python base types
        return n in getattr(tv, 'pytypes', ())
    if isinstance(t, ClassInfo):
        hook = getattr(t, 'instancecheck', None)
        if hook is not None:
            return hook(I, v)
        if isinstance(v, Obj):
            return I.world.issubclass(v.cls, t)
        if isinstance(v, NDArr):
            return t.name == 'ndarray'
        hook = getattr(t, 'instancecheck', None)
        if hook is not None:
            return hook(I, v)
        return False
    raise Unsupported('isinstance against %r' % (t,))


def b_len(I, args, kw):
    v, = args
    if isinstance(v, (list, tuple, dict, str)):
        return len(v)
    if isinstance(v, SetVal):
        return len(v.items)
    if is_z3(v) and z3.is_string(v):
        return z3.Length(v)
    if isinstance(v, SymSeq):
        return v.length
    if isinstance(v, NDArr):
        if not v.shape:
            raise I.exc('TypeError', 'len() of unsized object')
        return v.shape[0]
    if isinstance(v, Obj):
        m = I.world.find_method(v.cls, '__len__')
        if m is not None:
            return I.call(BoundMethod(m, v), [], {})
        h = getattr(v.cls, 'len_hook', None)
        if h is not None:
            return h(I, v)
    raise I.exc('TypeError', 'object has no len()')


def b_sum(I, args, kw):
    it = args[0]
    start = args[1] if len(args) > 1 else 0
    if isinstance(it, SymSeq) or (isinstance(it, GenVal) and _gen_over_symseq(I, it)):
        h = getattr(I.world, 'fold_hook', None)
        if h is None:
            raise Unsupported('sum over a sequence of symbolic length without a fold contract')
        return h(I, 'sum', it, start)
    acc = start
    for x in I.iterate(it):
        acc = I.binop(ast.Add, acc, x)
    return acc


def _gen_over_symseq(I, g):
    try:
        it = I.eval(g.node.generators[0].iter, g.env)
    except PyExc:
        raise
    return isinstance(it, SymSeq)


def b_minmax(ismin):
    def f(I, args, kw):
        if 'key' in kw:
            raise Unsupported('min/max with key')
        items = list(I.iterate(args[0])) if len(args) == 1 else list(args)
        if not items:
            raise I.exc('ValueError', 'min() arg is an empty sequence')
        acc = items[0]
        for x in items[1:]:
            c = I.compare(ast.Lt if ismin else ast.Gt, x, acc)
            if isinstance(c, bool):
                acc = x if c else acc
            elif is_z3(c) and is_number(x) and is_number(acc):
                a, b = num_pair(x, acc)
                acc = z3.If(c, a, b)
            else:
                acc = x if I.truth(c) else acc
        return acc
    return f


def sorted_symseq(I, seq, key, rev):
    """Built-in contract of sorted() on a sequence of symbolic length: the result is seq o perm for a bijection
    perm of [0,n) (with inverse inv) and its keys are non-decreasing."""
    if rev:
        raise Unsupported('sorted(reverse=True) on a symbolic sequence')
    ctx = I.ctx
    n = seq.length
    perm = ctx.fresh_fn('perm', z3.IntSort(), z3.IntSort())
    inv = ctx.fresh_fn('inv', z3.IntSort(), z3.IntSort())
    S = SymSeq(n, lambda k: seq.at(perm(k)), name='sorted(%s)' % seq.name)
    i, j = z3.Int('i!b'), z3.Int('j!b')
    keyf = (lambda x: I.call(key, [x], {})) if key is not None else (lambda x: x)
    ki, kj = keyf(S.at(i)), keyf(S.at(j))
    if not (is_z3(ki) and (z3.is_real(ki) or z3.is_int(ki))):
        raise Unsupported('sorted on symbolic sequence: non-numeric key')
    ctx.assume_forall([i], z3.Implies(z3.And(0 <= i, i < n), z3.And(0 <= perm(i), perm(i) < n, inv(perm(i)) == i)), 'perm')
    ctx.assume_forall([j], z3.Implies(z3.And(0 <= j, j < n), z3.And(0 <= inv(j), inv(j) < n, perm(inv(j)) == j)), 'inv')
    ctx.assume_forall([i, j], z3.Implies(z3.And(0 <= i, i <= j, j < n), ki <= kj), 'sorted')
    S.perm, S.inv, S.source = perm, inv, seq
    ctx.ghost.setdefault('perms', []).append((perm, inv))
    return S


def b_sorted(I, args, kw):
    key = kw.get('key')
    rev = kw.get('reverse', False)
    if isinstance(args[0], SymSeq):
        return sorted_symseq(I, args[0], key, rev)
    items = list(I.iterate(args[0]))
    keys = [I.call(key, [x], {}) if key is not None else x for x in items]
    if all(not is_z3(k) and not isinstance(k, Obj) for k in keys) and \
            all(not (isinstance(k, tuple) and any(is_z3(e) for e in k)) for k in keys):
        try:
            order = sorted(range(len(items)), key=lambda i: keys[i], reverse=bool(rev))
        except TypeError as e:
            raise I.exc('TypeError', str(e))
        return [items[i] for i in order]
    # symbolic keys, concrete length: insertion sort with forks (stable)
    if rev:
        raise Unsupported('sorted(reverse=True) on symbolic keys')
    out = []
    outk = []
    for x, k in zip(items, keys):
        pos = len(out)
        # find first position j such that k < outk[j]
        for j in range(len(out)):
            if I.truth(I.compare(ast.Lt, k, outk[j])):
                pos = j
                break
        out.insert(pos, x)
        outk.insert(pos, k)
    return out


def b_isinstance(I, args, kw):
    return isinstance_(I, args[0], args[1])


def b_hasattr(I, args, kw):
    v, name = args
    try:
        I.getattr(v, name)
        return True
    except PyExc as e:
        if e.obj.cls.name == 'AttributeError':
            return False
        raise


def b_getattr(I, args, kw):
    try:
        return I.getattr(args[0], args[1])
    except PyExc as e:
        if len(args) > 2 and e.obj.cls.name == 'AttributeError':
            return args[2]
        raise


def b_type(I, args, kw):
    return type_of(I, args[0])


def b_list(I, args, kw):
    if args and isinstance(args[0], SymSeq):
        return args[0]
    return list(I.iterate(args[0])) if args else []


def b_tuple(I, args, kw):
    if args and isinstance(args[0], SymSeq):
        return args[0]
    return tuple(I.iterate(args[0])) if args else ()


def b_set(I, args, kw):
    return I.make_set(list(I.iterate(args[0]))) if args else SetVal([])


def b_dict(I, args, kw):
    d = {}
    if args:
        src = args[0]
        if isinstance(src, dict):
            d.update(src)
        elif isinstance(src, Obj) and src.cls.name in I.world.abstract and I.world.abstract[src.cls.name].get('mapping_keys') is not None:
            # CPython: an argument with a keys() method is read through the mapping protocol: {k: src[k] for k in src.keys()}
            for k in I.world.abstract[src.cls.name]['mapping_keys'](I, src):
                I.dict_set(d, k, I.index(src, k))
        elif isinstance(src, Obj):
            raise Unsupported('dict(<%s object>): mapping protocol of this class is not modelled' % src.cls.name)
        else:
            for kv in I.iterate(src):
                k, v = list(I.iterate(kv))
                I.dict_set(d, k, v)
    for k, v in kw.items():
        d[k] = v
    return d


def b_zip(I, args, kw):
    if len(args) == 1 and isinstance(args[0], StarSeq):
        # zip(*seq) for a sequence of k-tuples of symbolic length n: [] if n == 0 else k sequences of length n
        seq = args[0].seq
        if I.ctx.branch(seq.length == 0):
            return []
        probe = seq.at(z3.IntVal(0))
        if not isinstance(probe, tuple):
            raise Unsupported('zip(*seq): elements are not tuples')
        return [SymSeq(seq.length, (lambda c: (lambda k: seq.at(k)[c]))(c), name='%s.%d' % (seq.name, c))
                for c in range(len(probe))]
    # abstract containers with a sequence view (world.as_symseq) take part as sequences of symbolic length
    args = [I.world.as_symseq(I, a) or a if isinstance(a, Obj) else a for a in args]
    if any(isinstance(a, SymSeq) for a in args):
        if not all(isinstance(a, SymSeq) for a in args):
            raise Unsupported('zip of symbolic and concrete sequences')
        n = args[0].length
        for a in args[1:]:
            n = z3.If(a.length < n, a.length, n)
        seqs = list(args)
        return SymSeq(z3.simplify(n), lambda k: tuple(a.at(k) for a in seqs), name='zip')
    lists = [list(I.iterate(a)) for a in args]
    return [tuple(x) for x in zip(*lists)]


def b_enumerate(I, args, kw):
    start = args[1] if len(args) > 1 else kw.get('start', 0)
    sv = args[0] if isinstance(args[0], SymSeq) else (I.world.as_symseq(I, args[0]) if isinstance(args[0], Obj) else None)
    if sv is not None:
        return SymSeq(sv.length, lambda k: (k + start, sv.at(k)), name='enumerate(%s)' % sv.name)
    return [(i + start, x) for i, x in enumerate(I.iterate(args[0]))]


def b_range(I, args, kw):
    if all(isinstance(a, int) for a in args):
        return range(*args)
    h = getattr(I.world, 'range_hook', None)
    if h is not None:
        return h(I, args)
    raise Unsupported('range with symbolic bounds')


def b_abs(I, args, kw):
    v, = args
    if isinstance(v, NpScalar):
        return NpScalar(b_abs(I, [v.v], {}))
    if isinstance(v, Obj):
        m = I.world.find_method(v.cls, '__abs__')
        if m is None:
            raise I.exc('TypeError', 'bad operand type for abs()')
        return I.call(BoundMethod(m, v), [], {})
    if is_z3(v):
        return z3.If(v >= 0, v, -v)
    if isinstance(v, NDArr):
        return NDArr(v.shape, [b_abs(I, [x], {}) for x in v.items])
    return abs(v)


def b_bool(I, args, kw):
    return I.truth(args[0]) if args else False


def b_str(I, args, kw):
    if not args:
        return ''
    v = args[0]
    if isinstance(v, str):
        return v
    if isinstance(v, (int, float, bool, type(None))):
        return str(v)
    if is_z3(v) and z3.is_string(v):
        return v
    if isinstance(v, Obj):
        m = I.world.find_method(v.cls, '__str__')
        if m is not None:
            return I.call(BoundMethod(m, v), [], {})
        return FmtStr([('str', v)])
    if isinstance(v, FmtStr):
        return v
    return FmtStr([('str', v)])


def b_repr(I, args, kw):
    v = args[0]
    if isinstance(v, NpScalar):
        return FmtStr([('repr', v)])
    if isinstance(v, (str, int, float, bool, type(None))):
        return repr(v)
    return FmtStr([('repr', v)])


def str_is_decimal_int(I, s):
    """z3 condition: s is accepted by int() (ASCII digits with optional sign, no spaces) -- contracts that
    need the full unicode story use the char-class predicates in strmodel."""
    from . import strmodel
    return strmodel.int_ok(s)


def b_int(I, args, kw):
    v = unwrap(args[0]) if args else 0
    if isinstance(v, bool):
        return int(v)
    if isinstance(v, int):
        return v
    if isinstance(v, float):
        return int(v)
    if isinstance(v, str):
        try:
            return int(v)
        except ValueError as e:
            raise I.exc('ValueError', str(e))
    if is_z3(v) and z3.is_int(v):
        return v
    if is_z3(v) and z3.is_real(v):
        return z3.If(v >= 0, z3.ToInt(v), -z3.ToInt(-v))
    if is_z3(v) and z3.is_string(v):
        from . import strmodel
        return strmodel.py_int(I, v)
    if isinstance(v, Obj):
        m = I.world.find_method(v.cls, '__int__')
        if m is not None:
            return I.call(BoundMethod(m, v), [], {})
        h = I.world._abs(v, 'int')
        if h is not None:
            return h(I, v)
    raise I.exc('TypeError', 'int() argument must be a string or a number')


def b_float(I, args, kw):
    v = unwrap(args[0]) if args else 0.0
    if isinstance(v, (bool, int, float)):
        return float(v)
    if isinstance(v, str):
        try:
            return float(v)
        except ValueError as e:
            raise I.exc('ValueError', str(e))
    if is_z3(v) and z3.is_real(v):
        return v
    if is_z3(v) and z3.is_int(v):
        return z3.ToReal(v)
    if is_z3(v) and z3.is_string(v):
        from . import strmodel
        return strmodel.py_float(I, v)
    if isinstance(v, NDArr):
        from . import npmodel
        return npmodel.nd_float(I, v)
    if isinstance(v, Obj):
        m = I.world.find_method(v.cls, '__float__')
        if m is not None:
            return I.call(BoundMethod(m, v), [], {})
        h = I.world._abs(v, 'float')
        if h is not None:
            return h(I, v)
    raise I.exc('TypeError', 'float() argument must be a string or a number')


def b_print(I, args, kw):
    return None


def _quantified(I, gen, want):
    """any()/all() of a generator expression over a sequence of symbolic length:  exists / forall over the index.
    want=True: any -> witness index with (conditions and element);  want=False: all -> witness index with (conditions and not element).
    The other branch is the universally quantified schema over the index.  The element and the conditions must be closed boolean formulas."""
    import z3
    from .engine import GenVal, SymSeq, Env, Unsupported, is_z3
    if not isinstance(gen, GenVal) or len(gen.node.generators) != 1:
        return None
    g = gen.node.generators[0]
    first = I.eval(g.iter, gen.env)
    seq = first if isinstance(first, SymSeq) else I.world.as_symseq(I, first)
    if seq is None:
        return ('concrete', first)
    ctx = I.ctx

    def at(idx):
        sub = Env(dict(), gen.env.func, gen.env, gen.env.module, set())
        I.assign(g.target, seq.at(idx), sub)
        fs = []
        for c in list(g.ifs) + [gen.node.elt]:
            v = I.eval(c, sub)
            if isinstance(v, bool):
                fs.append(z3.BoolVal(v))
            elif is_z3(v) and z3.is_bool(v):
                fs.append(v)
            else:
                raise Unsupported('any()/all() over a symbolic sequence: element is not a closed boolean formula')
        conds, e = fs[:-1], fs[-1]
        hit = e if want else z3.Not(e)
        return z3.And(conds + [hit])
    n = seq.length
    if ctx.choose([True, True], 'quantified-generator') == 0:
        w = ctx.fresh('witness', 'int')
        ctx.assume(z3.And(0 <= w, w < n))
        ctx.assume(at(w))
        return ('decided', want)
    i = ctx.fresh('qi', 'int')
    ctx.assume_forall([i], z3.Implies(z3.And(0 <= i, i < n), z3.Not(at(i))), 'no index satisfies the generator')
    return ('decided', not want)


def b_any(I, args, kw):
    q = _quantified(I, args[0], True)
    if q is not None and q[0] == 'decided':
        return q[1]
    for x in I.iterate(args[0]):
        if I.truth(x):
            return True
    return False


def b_all(I, args, kw):
    q = _quantified(I, args[0], False)
    if q is not None and q[0] == 'decided':
        return q[1]
    for x in I.iterate(args[0]):
        if not I.truth(x):
            return False
    return True


def b_iter(I, args, kw):
    return I.iterate(args[0])


def b_id(I, args, kw):
    v = args[0]
    return v.oid if isinstance(v, Obj) else id(v)


def b_hash(I, args, kw):
    v = args[0]
    if isinstance(v, Obj):
        m = I.world.find_method(v.cls, '__hash__')
        if m is not None:
            return I.call(BoundMethod(m, v), [], {})
        return v.oid
    h = getattr(I.world, 'hash_model', None)
    if h is not None:
        return h(I, v)
    if isinstance(v, (str, int, float, tuple)):
        return ('hash', v)
    raise Unsupported('hash of %r' % (v,))


def b_issubclass(I, args, kw):
    return I.world.issubclass(args[0], args[1])


def b_callable(I, args, kw):
    return isinstance(args[0], (Func, BoundMethod, Builtin, ClassInfo))


def b_round(I, args, kw):
    v = args[0]
    if not is_z3(v) and len(args) == 1:
        return round(v)
    from . import npmodel
    return npmodel.round_half_even(z3_of(v))


def make(world):
    B = {}

    def reg(name, fn):
        B[name] = Builtin(name, fn)
    reg('len', b_len)
    reg('sum', b_sum)
    reg('min', b_minmax(True))
    reg('max', b_minmax(False))
    reg('sorted', b_sorted)
    reg('isinstance', b_isinstance)
    reg('issubclass', b_issubclass)
    reg('hasattr', b_hasattr)
    reg('getattr', b_getattr)
    reg('zip', b_zip)
    reg('enumerate', b_enumerate)
    reg('range', b_range)
    reg('abs', b_abs)
    reg('print', b_print)
    reg('any', b_any)
    reg('all', b_all)
    reg('repr', b_repr)
    reg('iter', b_iter)
    reg('id', b_id)
    reg('hash', b_hash)
    reg('callable', b_callable)
    reg('round', b_round)
    # types that are also callable
    T = world.types
    T['str'].conv = b_str
    T['int'].conv = b_int
    T['float'].conv = b_float
    T['bool'].conv = b_bool
    T['list'].conv = b_list
    T['tuple'].conv = b_tuple
    T['dict'].conv = b_dict
    T['set'].conv = b_set
    T['frozenset'].conv = b_set
    T['type'].conv = b_type
    B['NotImplemented'] = NotImplementedVal
    B['True'] = True
    B['False'] = False
    B['None'] = None
    return B


# ----------------------------------------------------------------------------------------------
# methods of builtin values

def symseq_attr(I, v, name):
    if name == 'append':
        def f(I, a, k):
            if v.origin != 'fresh':
                I.ctx.effect('write', id(v), 'list', 'append')
            v.append(a[0])
        return Builtin('list.append', f)
    if name == 'index':
        h = getattr(I.world, 'symseq_index', None)
        if h is None:
            raise Unsupported('index() on a symbolic sequence without a contract')
        return Builtin('list.index', lambda I, a, k: h(I, v, a[0]))
    raise Unsupported('method %s of a symbolic sequence' % name)


def value_attr(I, v, name):
    from .world import PyType
    if isinstance(v, SymSeq):
        return symseq_attr(I, v, name)
    if isinstance(v, PyType):
        if name == '__name__':
            return v.name
        if v.name == 'dict' and name == 'fromkeys':
            return Builtin('dict.fromkeys', lambda I, a, k: {x: (a[1] if len(a) > 1 else None) for x in I.iterate(a[0])})
        raise Unsupported('attribute %s of type %s' % (name, v.name))
    if isinstance(v, list):
        return list_attr(I, v, name)
    if isinstance(v, dict):
        return dict_attr(I, v, name)
    if isinstance(v, tuple):
        if name == 'index':
            return Builtin('tuple.index', lambda I, a, k: seq_index(I, v, a[0]))
        if name == 'count':
            return Builtin('tuple.count', lambda I, a, k: sum(1 for x in v if I.truth(I.equal(x, a[0]))))
    if isinstance(v, SetVal):
        return set_attr(I, v, name)
    if isstr(v):
        from . import strmodel
        return strmodel.str_attr(I, v, name)
    if isinstance(v, (Func,)):
        if name == '__doc__':
            return None
        if name == '__name__':
            return v.qualname
    if isinstance(v, NDArr):
        from . import npmodel
        return npmodel.nd_attr(I, v, name)
    if is_z3(v) and (z3.is_real(v) or z3.is_int(v)) or isinstance(v, (int, float)):
        from . import npmodel
        return npmodel.scalar_attr(I, v, name)
    return NotImplementedVal


def seq_index(I, seq, item):
    for i, x in enumerate(seq):
        c = I.equal(x, item)
        if not isinstance(c, bool) and not is_z3(c):
            c = I.truth(c)
        if c is True or (c is not False and I.truth(c)):
            return i
    raise I.exc('ValueError', 'value is not in list')


def list_attr(I, v, name):
    W = I.world

    def mut():
        W.note_mutation(I, v)
    if name == 'append':
        def f(I, a, k):
            mut()
            v.append(a[0])
        return Builtin('list.append', f)
    if name == 'extend':
        def f(I, a, k):
            mut()
            v.extend(I.iterate(a[0]))
        return Builtin('list.extend', f)
    if name == 'insert':
        def f(I, a, k):
            mut()
            if not isinstance(a[0], int):
                raise Unsupported('insert at symbolic index')
            v.insert(a[0], a[1])
        return Builtin('list.insert', f)
    if name == 'pop':
        def f(I, a, k):
            mut()
            try:
                return v.pop(*a)
            except IndexError:
                raise I.exc('IndexError', 'pop from empty list')
        return Builtin('list.pop', f)
    if name == 'remove':
        def f(I, a, k):
            mut()
            i = seq_index(I, v, a[0])
            del v[i]
        return Builtin('list.remove', f)
    if name == 'index':
        return Builtin('list.index', lambda I, a, k: seq_index(I, v, a[0]))
    if name == 'copy':
        return Builtin('list.copy', lambda I, a, k: list(v))
    if name == 'count':
        return Builtin('list.count', lambda I, a, k: sum(1 for x in v if I.truth(I.equal(x, a[0]))))
    if name == 'sort':
        def f(I, a, k):
            mut()
            v[:] = b_sorted(I, [v], k)
        return Builtin('list.sort', f)
    if name == 'reverse':
        def f(I, a, k):
            mut()
            v.reverse()
        return Builtin('list.reverse', f)
    raise Unsupported('list.%s' % name)


def dict_attr(I, v, name):
    W = I.world
    if name == 'get':
        return Builtin('dict.get', lambda I, a, k: I.dict_get(v, a[0], a[1] if len(a) > 1 else None))
    if name == 'items':
        return Builtin('dict.items', lambda I, a, k: [(kk, vv) for kk, vv in v.items()])
    if name == 'keys':
        return Builtin('dict.keys', lambda I, a, k: list(v.keys()))
    if name == 'values':
        return Builtin('dict.values', lambda I, a, k: list(v.values()))
    if name == 'copy':
        def cp(I, a, k):
            # a defaultdict copies as a defaultdict with the same factory (CPython: defaultdict.copy / __copy__)
            from .engine import DefaultDict
            if isinstance(v, DefaultDict):
                d = DefaultDict(v)
                d.factory = v.factory
                return d
            return dict(v)
        return Builtin('dict.copy', cp)
    if name == 'update':
        def f(I, a, k):
            W.note_mutation(I, v)
            if a:
                src = a[0]
                if isinstance(src, dict):
                    for kk, vv in src.items():
                        I.dict_set(v, kk, vv)
                else:
                    for kv in I.iterate(src):
                        kk, vv = list(I.iterate(kv))
                        I.dict_set(v, kk, vv)
            for kk, vv in k.items():
                v[kk] = vv
        return Builtin('dict.update', f)
    if name == 'pop':
        def f(I, a, k):
            W.note_mutation(I, v)
            key = I.hashable(a[0])
            if any(is_z3(x) for x in list(v) + [key]):
                for kk in list(v):
                    c = I.equal(kk, key)
                    if c is True or (c is not False and I.truth(c)):
                        return v.pop(kk)
            elif key in v:
                return v.pop(key)
            if len(a) > 1:
                return a[1]
            raise I.exc('KeyError', key)
        return Builtin('dict.pop', f)
    if name == 'setdefault':
        def f(I, a, k):
            if I.truth(I.dict_has(v, a[0])):
                return I.dict_get(v, a[0])
            W.note_mutation(I, v)
            I.dict_set(v, a[0], a[1] if len(a) > 1 else None)
            return a[1] if len(a) > 1 else None
        return Builtin('dict.setdefault', f)
    if name == 'clear':
        def f(I, a, k):
            W.note_mutation(I, v)
            v.clear()
        return Builtin('dict.clear', f)
    raise Unsupported('dict.%s' % name)


def set_attr(I, v, name):
    if name == 'copy':
        return Builtin('set.copy', lambda I, a, k: SetVal(list(v.items)))
    if name == 'add':
        def f(I, a, k):
            if not I.truth(I.any_equal(v.items, a[0])):
                v.items.append(a[0])
        return Builtin('set.add', f)
    if name == 'intersection':
        def g(I, a, k):
            if len(a) != 1:
                raise Unsupported('set.intersection with %d arguments' % len(a))
            other = list(I.iterate(a[0]))
            return SetVal([x for x in v.items if I.truth(I.any_equal(other, x))])      # membership of each element decided by branching
        return Builtin('set.intersection', g)
    raise Unsupported('set.%s' % name)
