"""check driver: runs the units of one property, applies verdict policy, writes evidence and replay files."""
import argparse
import importlib
import json
import multiprocessing as mp
import os
import sys
import time
import traceback

ROOT = os.path.dirname(os.path.dirname(os.path.abspath(__file__)))
EXIT_OK, EXIT_VIOLATION, EXIT_UNDECIDED, EXIT_CRASH = 0, 1, 2, 3

DROPPED = ['docstrings and comments', 'print(...) calls and debug tracing (modelled as no-ops)',
           '__doc__ assignments', 'text of exception/log messages (kept as opaque formatted strings)']


def _run_unit(arg):
    modname, idx, timeout_s = arg
    from pyvc.verify import verify_unit
    mod = importlib.import_module(modname)
    u = mod.UNITS[idx]
    wf = getattr(u, 'world_factory', None) or mod.world
    try:
        return verify_unit(u, wf, timeout_s=timeout_s)
    except Exception as e:
        return {'unit': u.name, 'target': list(u.target) if u.target else None, 'kind': u.kind, 'obligations': [],
                'paths': 0, 'vacuous_paths': 0, 'errors': ['crash: %s\n%s' % (e, traceback.format_exc())],
                'inlined': [], 'externs': [], 'wall_s': 0}


def _run_aux(arg):
    modname, kind, idx, tier, seed = arg
    mod = importlib.import_module(modname)
    fn = getattr(mod, kind)[idx]
    t0 = time.time()
    try:
        r = fn(tier, seed)
    except Exception as e:
        r = {'name': getattr(fn, '__name__', '?'), 'crash': '%s: %s\n%s' % (type(e).__name__, e, traceback.format_exc())}
    r.setdefault('name', getattr(fn, '__name__', '?'))
    r['wall_s'] = round(time.time() - t0, 2)
    return r


def load_known():
    """known_findings.txt: 'known: property=C03 unit=U label=L :: what' | 'known: property=C03 class=K :: what' |
    'fixed: property=C05 <commit> <what>' (a fixed entry suppresses nothing)."""
    p = os.path.join(ROOT, 'known_findings.txt')
    out = []
    if os.path.exists(p):
        for line in open(p):
            line = line.strip()
            if not line or line.startswith('#'):
                continue
            status, _, rest = line.partition(':')
            status = status.strip()
            rest = rest.strip()
            if status == 'fixed':
                out.append({'status': 'fixed', 'line': rest})
                continue
            head, _, what = rest.partition('::')
            e = {'status': status, 'what': what.strip()}
            # key=value pairs; a value runs until the next ' key=' token
            import re
            keys = list(re.finditer(r'(?:^|\s)(property|unit|label|class)=', head))
            for i, m in enumerate(keys):
                end = keys[i + 1].start() if i + 1 < len(keys) else len(head)
                e[m.group(1)] = head[m.end():end].strip()
            if 'label' in e:
                e['label_prefix'] = e['label']
            if 'class' in e:
                e['input_class'] = e['class']
            out.append(e)
    return out


def match_known(known, prop, unit=None, label=None, cls=None):
    for k in known:
        if k.get('status') != 'known' or k.get('property') != prop:
            continue
        if cls is not None:
            if k.get('input_class') == cls:
                return k
            continue
        if k.get('unit') == unit and label is not None and label.startswith(k.get('label_prefix', '\0')):
            return k
    return None


def safe(name):
    s = ''.join(c if c.isalnum() or c in '._-' else '_' for c in name)
    # long obligation texts are cut in the middle: the tail carries the path number that tells two failing paths of one obligation apart
    return s if len(s) <= 150 else s[:120] + '..' + s[-28:]


def main(argv=None):
    ap = argparse.ArgumentParser()
    ap.add_argument('prop')
    ap.add_argument('--tier', default='quick')
    ap.add_argument('--replay')
    ap.add_argument('--only')
    ap.add_argument('--update-ledger', action='store_true')
    ap.add_argument('--jobs', type=int, default=min(16, os.cpu_count() or 4))
    args = ap.parse_args(argv)
    tier = os.environ.get('VERIF_TIER') or args.tier
    seed = int(os.environ.get('VERIF_SEED', '0') or 0)
    prop = args.prop
    os.chdir(ROOT)
    sys.path.insert(0, ROOT)
    if args.replay:
        return do_replay(args.replay)
    t0 = time.time()
    modname = 'contracts.' + prop
    from pyvc import source
    try:
        mod = importlib.import_module(modname)
    except Exception as e:
        print('CHECKER-ERROR cannot load contracts for %s: %s' % (prop, e))
        traceback.print_exc()
        return EXIT_CRASH
    timeout_s = 10 if tier == 'quick' else 60
    units = list(enumerate(mod.UNITS))
    if args.only:
        units = [(i, u) for i, u in units if args.only in u.name]
    jobs = [(modname, i, timeout_s) for i, u in units]
    aux = []
    for kind in ('PROBES', 'DATA', 'STANDINS'):
        for i, fn in enumerate(getattr(mod, kind, [])):
            if args.only and kind != 'PROBES':
                continue
            aux.append((modname, kind, i, tier, seed))
    ctxm = mp.get_context('fork')
    with ctxm.Pool(args.jobs) as pool:
        ar = pool.map_async(_run_unit, jobs, chunksize=1)
        ax = pool.map_async(_run_aux, aux, chunksize=1)
        results = ar.get()
        auxres = ax.get()

    known = load_known()
    ledger_path = os.path.join(ROOT, 'ledger.json')
    ledger = json.load(open(ledger_path)) if os.path.exists(ledger_path) else {}
    led = ledger.get(prop, {})

    lines = []
    violations = []
    undecided = []
    crashes = []
    known_hit = []
    n_obl = n_dis = 0
    by_backend = {}
    solver_s = 0.0
    funcs = []
    samples = []
    inlined = set()
    externs = set()
    new_led = {}
    OUTP = os.environ.get('PYVC_OUT') or 'out'      # scratch evaluations write their replays / evidence elsewhere
    os.makedirs(os.path.join(ROOT, OUTP, 'replay'), exist_ok=True)
    for (i, u), r in zip(units, results):
        desc = None
        if u.target:
            try:
                desc = source.describe(*u.target)
                desc['unit'] = u.name
                funcs.append(desc)
            except KeyError:
                undecided.append((u.name, 'contract-out-of-date: %s::%s not found' % tuple(u.target)))
                continue
        changed = desc is not None and led.get(u.name, {}).get('ast_sha256') not in (None, desc['ast_sha256'])
        # a callee whose body is interpreted at the call site belongs to the unit: a change there also makes
        # an unsupported construct "undecided on changed code" rather than a checker error
        closure_now = {}
        for q in sorted(set(r['inlined']) | set(led.get(u.name, {}).get('closure', {}))):
            try:
                rel, qn = q.split('::')
                closure_now[q] = source.describe(rel, qn)['ast_sha256']
            except Exception:
                closure_now[q] = 'missing'
        for q, h in led.get(u.name, {}).get('closure', {}).items():
            if closure_now.get(q) != h:
                changed = True
        if led.get(u.name) is not None and set(r['inlined']) - set(led[u.name].get('closure', {})):
            changed = True      # the unit now reaches a function it did not reach on the baseline
        skel_now = {}
        for q in sorted(set(closure_now) | ({'%s::%s' % tuple(u.target)} if u.target else set())):
            rel = q.split('::')[0]
            if rel not in skel_now:
                try:
                    skel_now[rel] = source.skeleton_hash(rel)
                except Exception:
                    skel_now[rel] = 'missing'
        for rel, h in led.get(u.name, {}).get('skeleton', {}).items():
            if skel_now.get(rel) != h:
                changed = True      # a class or module the unit's functions live in changed shape (new method, decorator, base, attribute)
        # repository files a unit reads as DATA (the grammar objects behind the derived tree shapes): a change there is a change of the unit's subject
        df_now = {}
        for rel in getattr(u, 'data_files', []):
            try:
                import hashlib
                df_now[rel] = hashlib.sha256(open(os.path.join(source.REPO, rel), 'rb').read()).hexdigest()
            except Exception:
                df_now[rel] = 'missing'
        for rel, h in led.get(u.name, {}).get('datafiles', {}).items():
            if df_now.get(rel) != h:
                changed = True
        for e in r['errors']:
            if e.startswith('unsupported') and (changed or not led or getattr(u, 'scans_repo', False)):
                undecided.append((u.name, e))
            elif changed and (e.startswith('engine crash') or e.startswith('crash')):
                # the contract itself fell over on CHANGED code (e.g. a loop contract that names a local the change renamed): it no longer fits the function.
                # Undecided, like any other construct outside the modelled subset; on unchanged code the same crash stays a checker error.
                undecided.append((u.name, 'unsupported: the contract does not fit the changed function (%s)' % e.splitlines()[0][:160]))
            else:
                crashes.append((u.name, e))
        if not r['obligations'] and not r['errors']:
            # on changed code "no obligation was reached" means the contract no longer fits the function: undecided, not a checker fault
            (undecided if changed else crashes).append((u.name, 'vacuity: unit produced zero obligations'))
        if r.get('feasible_paths', 0) == 0 and not r['errors']:
            (undecided if changed else crashes).append((u.name, 'vacuity: no feasible path (contradictory precondition?)'))
        inlined |= set(r['inlined'])
        externs |= set(r['externs'])
        names = []
        for ob in r['obligations']:
            n_obl += 1
            names.append(ob['label'])
            solver_s += ob['time']
            if ob['status'] == 'unsat':
                n_dis += 1
                by_backend[ob['backend']] = by_backend.get(ob['backend'], 0) + 1
                if len(samples) < 12 and (not samples or samples[-1]['unit'] != u.name):
                    samples.append({'unit': u.name, 'obligation': ob['name'], 'formula': ob['formula'],
                                    'backend': ob['backend'], 'time_s': ob['time']})
            elif ob['status'] == 'sat':
                k = match_known(known, prop, unit=u.name, label=ob['label'])
                rp = ob.get('replay') or {}
                if k is not None:
                    if not any(x is k for x in known_hit):          # one line per LISTED entry (two entries may describe one finding)
                        known_hit.append(k)
                    continue
                path = os.path.join(OUTP, 'replay', '%s__%s.json' % (prop, safe(ob['name'])))
                rec = {'property': prop, 'obligation': ob['name'], 'function': u.target, 'describe': desc,
                       'formula': ob['formula'], 'solver': ob['backend'], 'model': ob.get('model'),
                       'concrete_input': rp.get('input'), 'observed': rp.get('observed'), 'expected': rp.get('expected'),
                       'replayed_failure': rp.get('failed'), 'replay_error': rp.get('error'), 'script': rp.get('script'),
                       'meta': ob.get('meta')}
                json.dump(rec, open(path, 'w'), indent=1, default=str)
                violations.append((path, rp.get('failed') is True, ob['name']))
            else:
                undecided.append((u.name, 'solver unknown on %s (%s)' % (ob['name'], ob.get('reason'))))
        if desc is not None:
            new_led[u.name] = {'ast_sha256': desc['ast_sha256'], 'obligations': len(r['obligations']),
                               'labels': sorted(set(names)), 'closure': {q: closure_now[q] for q in r['inlined'] if q in closure_now}, 'skeleton': skel_now, 'datafiles': df_now}
            old = led.get(u.name)
            if old and not changed and not args.update_ledger and old['obligations'] != len(r['obligations']) and not r['errors']:
                crashes.append((u.name, 'ledger: obligation count %d != %d for unchanged function'
                                % (len(r['obligations']), old['obligations'])))
        else:
            new_led[u.name] = {'obligations': len(r['obligations']), 'labels': sorted(set(names))}

    bounded = []
    probes = []
    data_obl = []
    for a, r in zip(aux, auxres):
        kind = a[1]
        if 'crash' in r:
            crashes.append(('%s:%s' % (kind, r['name']), r['crash']))
            continue
        if kind == 'PROBES':
            probes.append(r)
            if not r.get('ok', False):
                crashes.append(('probe:' + r['name'], 'assumed extern contract does not hold on this installation: %s' % r.get('detail')))
        else:
            if kind == 'DATA':
                data_obl.append(r)
                n_obl += r.get('obligations', 0)
                n_dis += r.get('obligations', 0) - len(r.get('violations', []))
                by_backend['data-evaluation'] = by_backend.get('data-evaluation', 0) + r.get('obligations', 0) - len(r.get('violations', []))
            else:
                bounded.append({k: v for k, v in r.items() if k != 'violations'})
            for v in r.get('violations', []):
                k = match_known(known, prop, cls=v.get('cls')) if v.get('cls') else None
                if k is not None:
                    if not any(x is k for x in known_hit):          # one line per LISTED entry (two entries may describe one finding)
                        known_hit.append(k)
                    continue
                path = os.path.join(OUTP, 'replay', '%s__%s__%s.json' % (prop, safe(r['name']), safe(str(v.get('id', len(violations))))))
                rec = {'property': prop, 'obligation': '%s/%s' % (r['name'], v.get('id')), 'kind': kind,
                       'concrete_input': v.get('input'), 'observed': v.get('observed'), 'expected': v.get('expected'),
                       'replayed_failure': True, 'script': v.get('script'), 'detail': v.get('detail')}
                json.dump(rec, open(path, 'w'), indent=1, default=str)
                violations.append((path, True, rec['obligation']))

    if args.update_ledger:
        import fcntl
        with open(ledger_path + '.lock', 'w') as lk:
            fcntl.flock(lk, fcntl.LOCK_EX)              # several checks may update their own entry at the same time
            cur = json.load(open(ledger_path)) if os.path.exists(ledger_path) else {}
            cur[prop] = new_led
            tmp = ledger_path + '.tmp.%d' % os.getpid()
            json.dump(cur, open(tmp, 'w'), indent=1, sort_keys=True)
            os.replace(tmp, ledger_path)

    # vacuity of the whole check
    if n_obl == 0 and not undecided:
        crashes.append((prop, 'vacuity: zero obligations generated'))

    for k in known_hit:
        print('KNOWN-FINDING: property=%s %s' % (prop, k['what']))
    # one obligation usually fails on many paths: print at most 3 lines per obligation (unit + label), confirmed ones first; every
    # failing path still has its replay file and is counted in the evidence
    import re as _re
    per = {}
    for path, confirmed, name in sorted(violations, key=lambda v: not v[1]):
        key = _re.sub(r'/p\d+$', '', name)
        per.setdefault(key, []).append((path, confirmed))
    for key, items in per.items():
        for path, confirmed in items[:3]:
            print('VIOLATION property=%s replay=%s%s' % (prop, path, '' if confirmed else ' no-failing-input-found'))
        if len(items) > 3:
            print('  (+%d more failing paths of obligation %s; replay files in %s)' % (len(items) - 3, key[:120], os.path.join(OUTP, 'replay')))
    for name, why in undecided:
        print('UNDECIDED property=%s unit=%s reason=%s' % (prop, name, ' '.join(str(why).split())[:300]))
    for name, why in crashes:
        print('CHECKER-ERROR property=%s unit=%s %s' % (prop, name, str(why)[:3000]))

    level = getattr(mod, 'LEVEL', 'proof')
    all_discharged = (n_dis == n_obl and not undecided)
    ev_level = level if (all_discharged or level != 'proof') else 'other'
    if known_hit and ev_level == 'proof':
        ev_level = 'other'          # a property with a standing recorded finding is never reported as proved
    trusted = []
    TR = getattr(mod, 'TRUSTED', None)
    from contracts import common
    for key, txt in common.TRUSTED.items():
        if key in ('reals', 'python') or any(e.startswith(key) or key.startswith(e) for e in externs):
            trusted.append('%s: %s' % (key, txt))
    for t in (TR or []):
        trusted.append(t)
    cov = {
        'obligations': n_obl, 'discharged': n_dis,
        'checker_cmd': './check %s --tier %s' % (prop, tier),
        'trusted_base': trusted,
        'functions_under_contract': funcs,
        'by_backend': by_backend, 'solver_s': round(solver_s, 2),
        'samples': samples or [{'note': 'no discharged obligation'}],
        'inlined_callees': sorted(inlined),
        'vacuity': {'units': len(units), 'paths': sum(r['paths'] for r in results),
                    'feasible_paths': sum(r.get('feasible_paths', 0) for r in results),
                    'vacuous_paths_dropped': sum(r['vacuous_paths'] for r in results)},
        'bounded': bounded, 'data_obligations': [{k: v for k, v in d.items() if k != 'violations'} for d in data_obl],
        'probes': probes,
        'known_findings_hit': [k['what'] for k in known_hit],
        'dropped_by_extraction': DROPPED,
        'undecided': [list(x) for x in undecided],
        'explanation': getattr(mod, 'EXPLANATION', 'deductive obligations generated by pyvc from the real source and discharged by z3/cvc5; '
                               'bounded stand-ins listed under "bounded" are not counted in obligations'),
        'per_unit': [{'unit': r['unit'], 'paths': r['paths'], 'obligations': len(r['obligations']),
                      'discharged': sum(1 for o in r['obligations'] if o['status'] == 'unsat'), 'wall_s': r.get('wall_s')}
                     for r in results],
    }
    if ev_level in ('exploration', 'fault_enumeration') or not all_discharged:
        ev = sum(b.get('evaluations', 0) for b in bounded) + n_obl
        cov.setdefault('evaluations', max(ev, 1))
        cov.setdefault('distinct_nontrivial', max(sum(b.get('distinct_nontrivial', 0) for b in bounded) + n_dis, 2))
        cov.setdefault('rule', 'obligations are distinct by name; stand-in cases distinct by input')
    evidence = {'property_id': prop, 'tier': tier, 'seed': seed, 'level': ev_level, 'coverage': cov,
                'assumptions': trusted + list(getattr(mod, 'ASSUMPTIONS', [])),
                'wall_s': round(time.time() - t0, 2), 'violations': len(violations)}
    evdir = os.path.join(ROOT, 'evidence') if OUTP == 'out' else os.path.join(ROOT, OUTP, 'evidence')
    os.makedirs(evdir, exist_ok=True)
    json.dump(evidence, open(os.path.join(evdir, prop + '.json'), 'w'), indent=1, default=str)

    if crashes:
        return EXIT_CRASH
    if violations:
        return EXIT_VIOLATION
    if undecided:
        # bounded refutation as second line already ran (STANDINS); nothing refuted
        print('OK property=%s obligations=%d discharged=%d bounded=%d (undecided obligations: run is exploration-level, not a proof)'
              % (prop, n_obl, n_dis, len(bounded)))
        return EXIT_OK if bounded else EXIT_UNDECIDED
    print('OK property=%s obligations=%d discharged=%d bounded=%d' % (prop, n_obl, n_dis, len(bounded)))
    return EXIT_OK


def do_replay(path):
    rec = json.load(open(path))
    print('obligation:', rec.get('obligation'))
    print('expected:', rec.get('expected'), 'observed at record time:', rec.get('observed'))
    if rec.get('script'):
        print('--- script ---')
        print(rec['script'])
        print('--- output on the current tree ---')
        import subprocess
        r = subprocess.run([sys.executable, '-c', rec['script']], capture_output=True, text=True)
        print(r.stdout[-3000:], r.stderr[-3000:])
    else:
        print('no concrete failing input recorded; solver model:', rec.get('model'))
    return 0


if __name__ == '__main__':
    sys.exit(main())
