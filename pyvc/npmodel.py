"""numpy model: fixed-shape arrays with symbolic items; element-wise real functions (assumed contracts)."""
import ast
import z3

from .engine import NDArr, Builtin, Namespace, Unsupported, is_z3, z3_of, num_pair, is_number, Obj, NotImplementedVal, NpScalar, unwrap
from .source import BuiltinClass

Ln = z3.Function('Ln', z3.RealSort(), z3.RealSort())
Sqrt = z3.Function('Sqrt', z3.RealSort(), z3.RealSort())


def round_rel(I, x):
    """round-half-even as a relation: a fresh integer n nearest to x (ties to even); recorded as ghost"""
    if not is_z3(x):
        return float(round(x))
    if z3.is_int(x):
        return x
    n = I.ctx.fresh('rnd', 'int')
    h = z3.RealVal('1/2')
    nr = z3.ToReal(n)
    # (which of the two candidates a tie picks -- the even one -- is left open: a weaker, still sound assumption)
    I.ctx.assume(z3.And(nr - h <= x, x <= nr + h))
    I.ctx.ghost.setdefault('rounds', []).append((x, n))
    return nr


def round_half_even(x):
    if z3.is_int(x):
        return x
    r = z3.ToInt(x + z3.RealVal('1/2'))
    tie = z3.And(z3.IsInt(x + z3.RealVal('1/2')), r % 2 == 1)
    return z3.ToReal(z3.If(tie, r - 1, r))


def _map(I, v, f):
    if isinstance(v, NDArr):
        return NDArr(v.shape, [f(x) for x in v.items], v.dtype)
    return f(v)


def _truthy(I, x):
    if isinstance(x, bool):
        return x
    if is_z3(x) and z3.is_bool(x):
        return x
    if is_z3(x):
        return x != 0
    return bool(x)


def np_any(I, a, k):
    v = a[0]
    items = v.items if isinstance(v, NDArr) else (list(v) if isinstance(v, (list, tuple)) else [v])
    cs = [_truthy(I, x) for x in items]
    if any(c is True for c in cs):
        return True
    cs = [c for c in cs if c is not False]
    return z3.Or(cs) if cs else False


def np_all(I, a, k):
    v = a[0]
    items = v.items if isinstance(v, NDArr) else (list(v) if isinstance(v, (list, tuple)) else [v])
    cs = [_truthy(I, x) for x in items]
    if any(c is False for c in cs):
        return False
    cs = [c for c in cs if c is not True]
    return z3.And(cs) if cs else True


def np_isscalar(I, a, k):
    v = a[0]
    if isinstance(v, (NDArr, list, tuple, dict)) or v is None:
        return False
    if isinstance(v, Obj):
        return False
    return True


def np_log(I, a, k):
    def f(x):
        if not is_z3(x):
            x = z3_of(float(x)) if not isinstance(x, float) else z3_of(x)
        if z3.is_int(x):
            x = z3.ToReal(x)
        I.ctx.effect('log-arg', x)
        h = getattr(I.world, 'log_hook', None)
        if h is not None:
            return h(I, x)
        return Ln(x)
    return _map(I, a[0], f)


def np_sqrt(I, a, k):
    def f(x):
        x = z3_of(x)
        if z3.is_int(x):
            x = z3.ToReal(x)
        I.ctx.effect('sqrt-arg', x)
        return Sqrt(x)
    return _map(I, a[0], f)


def np_square(I, a, k):
    return _map(I, a[0], lambda x: I.binop(ast.Mult, x, x))


def np_abs(I, a, k):
    def f(x):
        if is_z3(x):
            return z3.If(x >= 0, x, -x)
        return abs(x)
    return _map(I, a[0], f)


def np_zeros(I, a, k):
    shape = a[0]
    dtype = k.get('dtype', a[1] if len(a) > 1 else 'float')
    if isinstance(shape, int):
        shape = (shape,)
    if not all(isinstance(s, int) for s in shape):
        raise Unsupported('np.zeros with symbolic shape')
    n = 1
    for s in shape:
        n *= s
    zero = False if dtype == 'bool' else 0.0
    return NDArr(shape, [zero] * n, 'bool' if dtype == 'bool' else 'float')


def np_ones_like(I, a, k):
    v = a[0]
    if isinstance(v, NDArr):
        return NDArr(v.shape, [1.0] * len(v.items))
    return 1.0


def np_array(I, a, k):
    v = a[0]
    if isinstance(v, (list, tuple)):
        v = type(v)(unwrap(x) for x in v)
    if isinstance(v, NDArr):
        return NDArr(v.shape, v.items, v.dtype)
    if isinstance(v, (list, tuple)):
        items = list(v)
        if items and all(isinstance(x, (list, tuple)) for x in items):
            w = len(items[0])
            if any(len(x) != w for x in items):
                raise Unsupported('ragged array')
            flat = [y for x in items for y in x]
            return NDArr((len(items), w), flat)
        return NDArr((len(items),), items)
    return NDArr((), [v])


def np_logical_not(I, a, k):
    def f(x):
        t = _truthy(I, x)
        return (not t) if isinstance(t, bool) else z3.Not(t)
    return _map(I, a[0], f)


def np_logical_or(I, a, k):
    x, y = a
    return NDArr(x.shape, [_or(_truthy(I, p), _truthy(I, q)) for p, q in zip(x.items, y.items)], 'bool')


def _or(p, q):
    if p is True or q is True:
        return True
    if p is False:
        return q
    if q is False:
        return p
    return z3.Or(p, q)


def np_select(I, a, k):
    conds, choices = a[0], a[1]
    default = a[2] if len(a) > 2 else k.get('default', 0)
    n = len(choices[0].items)
    out = []
    for i in range(n):
        val = default
        for c, ch in reversed(list(zip(conds, choices))):
            ci = _truthy(I, c.items[i])
            x = ch.items[i]
            if ci is True:
                val = x
            elif ci is False:
                pass
            else:
                p, q = num_pair(x, val)
                val = z3.If(ci, p, q)
        out.append(val)
    return NDArr(choices[0].shape, out)


def _bool_and(p, q):
    if p is False or q is False:
        return False
    if p is True:
        return q
    if q is True:
        return p
    return z3.And(p, q)


def np_logical_and(I, a, k):
    x, y = a
    if isinstance(x, NDArr) or isinstance(y, NDArr):
        xs = x.items if isinstance(x, NDArr) else [x] * len(y.items)
        ys = y.items if isinstance(y, NDArr) else [y] * len(x.items)
        shape = x.shape if isinstance(x, NDArr) else y.shape
        return NDArr(shape, [_bool_and(_truthy(I, p), _truthy(I, q)) for p, q in zip(xs, ys)], 'bool')
    return _bool_and(_truthy(I, x), _truthy(I, y))


def np_where(I, a, k):
    if len(a) != 3:
        raise Unsupported('np.where with one argument')
    c, x, y = a
    n = None
    shape = None
    for v in (c, x, y):
        if isinstance(v, NDArr):
            n, shape = len(v.items), v.shape
    if n is None:
        ci = _truthy(I, c)
        if isinstance(ci, bool):
            return x if ci else y
        p, q = num_pair(x, y)
        return z3.If(ci, p, q)
    cs = c.items if isinstance(c, NDArr) else [c] * n
    xs = x.items if isinstance(x, NDArr) else [x] * n
    ys = y.items if isinstance(y, NDArr) else [y] * n
    out = []
    for ci, xv, yv in zip(cs, xs, ys):
        ci = _truthy(I, ci)
        if isinstance(ci, bool):
            out.append(xv if ci else yv)
        else:
            p, q = num_pair(xv, yv)
            out.append(z3.If(ci, p, q))
    return NDArr(shape, out)


def np_isclose(I, a, k):
    """numpy.isclose(a, b, rtol=1e-05, atol=1e-08): |a - b| <= atol + rtol*|b|"""
    x, y = a[0], a[1]
    rtol = k.get('rtol', a[2] if len(a) > 2 else 1e-05)
    atol = k.get('atol', a[3] if len(a) > 3 else 1e-08)

    def one(p, q):
        p, q = num_pair(p, q)
        p = z3.ToReal(p) if z3.is_int(p) else p
        q = z3.ToReal(q) if z3.is_int(q) else q
        ab = lambda t: z3.If(t >= 0, t, -t)
        return ab(p - q) <= z3_of(atol) + z3_of(rtol) * ab(q)
    if isinstance(x, NDArr) or isinstance(y, NDArr):
        n = len(x.items) if isinstance(x, NDArr) else len(y.items)
        xs = x.items if isinstance(x, NDArr) else [x] * n
        ys = y.items if isinstance(y, NDArr) else [y] * n
        return NDArr(x.shape if isinstance(x, NDArr) else y.shape, [one(p, q) for p, q in zip(xs, ys)], 'bool')
    return one(x, y)


def np_minmax(ismin):
    def f(I, a, k):
        x, y = a
        def one(p, q):
            if not is_z3(p) and not is_z3(q):
                return min(p, q) if ismin else max(p, q)
            p, q = num_pair(p, q)
            return z3.If(p <= q, p, q) if ismin else z3.If(p >= q, p, q)
        if isinstance(x, NDArr) or isinstance(y, NDArr):
            n = len(x.items) if isinstance(x, NDArr) else len(y.items)
            xs = x.items if isinstance(x, NDArr) else [x] * n
            ys = y.items if isinstance(y, NDArr) else [y] * n
            return NDArr(x.shape if isinstance(x, NDArr) else y.shape, [one(p, q) for p, q in zip(xs, ys)])
        return one(x, y)
    return f


def np_transpose(I, a, k):
    v = a[0]
    if len(v.shape) == 2:
        r, c = v.shape
        return NDArr((c, r), [v.items[i * c + j] for j in range(c) for i in range(r)])
    return v


def np_dot(I, a, k):
    x, y = a
    if not isinstance(x, NDArr) or not isinstance(y, NDArr):
        raise Unsupported('np.dot on non-arrays')
    if len(x.shape) == 2 and len(y.shape) == 2:
        n, m = x.shape
        m2, p = y.shape
        if m != m2:
            raise I.exc('ValueError', 'shapes not aligned')
        out = []
        for i in range(n):
            for j in range(p):
                acc = 0
                for t in range(m):
                    acc = I.binop(ast.Add, acc, I.binop(ast.Mult, x.items[i * m + t], y.items[t * p + j]))
                out.append(acc)
        return NDArr((n, p), out)
    raise Unsupported('np.dot shapes %s %s' % (x.shape, y.shape))


def nd_index(I, v, idx):
    if isinstance(idx, int):
        if len(v.shape) == 1:
            if not -v.shape[0] <= idx < v.shape[0]:
                raise I.exc('IndexError', 'index out of bounds')
            return v.items[idx]
        if len(v.shape) == 2:
            r, c = v.shape
            if not -r <= idx < r:
                raise I.exc('IndexError', 'index out of bounds')
            idx %= r
            return NDArr((c,), v.items[idx * c:(idx + 1) * c])
    if isinstance(idx, tuple) and all(isinstance(i, int) for i in idx) and len(idx) == len(v.shape) == 2:
        r, c = v.shape
        return v.items[idx[0] * c + idx[1]]
    if is_z3(idx) and len(v.shape) == 1:
        n = v.shape[0]
        conds = [idx == i for i in range(n)] + [z3.Or(idx < 0, idx >= n)]
        kk = I.ctx.choose(conds, 'ndindex')
        if kk == n:
            raise I.exc('IndexError', 'index out of bounds')
        return v.items[kk]
    raise Unsupported('ndarray index %r' % (idx,))


def nd_setitem(I, v, idx, val):
    if isinstance(idx, int):
        if len(v.shape) == 1:
            if not -v.shape[0] <= idx < v.shape[0]:
                raise I.exc('IndexError', 'index out of bounds')
            v.items[idx] = val
            return
        if len(v.shape) == 2:
            r, c = v.shape
            if not -r <= idx < r:
                raise I.exc('IndexError', 'index out of bounds')
            idx %= r
            for j in range(c):
                v.items[idx * c + j] = val
            return
    if is_z3(idx):
        n = v.shape[0]
        conds = [idx == i for i in range(n)] + [z3.Or(idx < 0, idx >= n)]
        kk = I.ctx.choose(conds, 'ndset')
        if kk == n:
            raise I.exc('IndexError', 'index out of bounds')
        return nd_setitem(I, v, kk, val)
    raise Unsupported('ndarray item assignment %r' % (idx,))


def nd_iter(I, v):
    if len(v.shape) == 1:
        return iter([x if isinstance(x, (bool, Obj)) else NpScalar(x) for x in v.items])
    if len(v.shape) == 2:
        r, c = v.shape
        return iter([NDArr((c,), v.items[i * c:(i + 1) * c]) for i in range(r)])
    raise I.exc('TypeError', 'iteration over a 0-d array')


def nd_float(I, v):
    """float(ndarray): the installed numpy (2.x) requires ndim == 0 (probe: float(np.ones((1,1))) raises TypeError)."""
    if v.shape == ():
        return v.items[0]
    raise I.exc('TypeError', 'only 0-dimensional arrays can be converted to Python scalars')


def nd_attr(I, v, name):
    if name == 'shape':
        return v.shape
    if name == 'round':
        return Builtin('ndarray.round', lambda I, a, k: NDArr(v.shape, [round_rel(I, x) for x in v.items]))
    if name == 'any':
        return Builtin('ndarray.any', lambda I, a, k: np_any(I, [v], {}))
    if name == 'all':
        return Builtin('ndarray.all', lambda I, a, k: np_all(I, [v], {}))
    if name == 'min':
        return Builtin('ndarray.min', lambda I, a, k: I.world.builtins['min'].fn(I, [list(v.items)], {}))
    if name == 'max':
        return Builtin('ndarray.max', lambda I, a, k: I.world.builtins['max'].fn(I, [list(v.items)], {}))
    if name == 'ndim':
        return len(v.shape)
    if name == 'item':
        def f(I, a, k):
            if len(v.items) != 1:
                raise I.exc('ValueError', 'can only convert an array of size 1 to a Python scalar')
            return v.items[0]
        return Builtin('ndarray.item', f)
    if name == 'copy':
        return Builtin('ndarray.copy', lambda I, a, k: NDArr(v.shape, v.items, v.dtype))
    if name == 'T':
        return np_transpose(I, [v], {})
    raise Unsupported('ndarray.%s' % name)


def scalar_attr(I, v, name):
    return NotImplementedVal


def namespace():
    nd = BuiltinClass('ndarray')
    number = BuiltinClass('number')
    m = {
        'any': Builtin('np.any', np_any), 'all': Builtin('np.all', np_all),
        'isscalar': Builtin('np.isscalar', np_isscalar), 'log': Builtin('np.log', np_log),
        'sqrt': Builtin('np.sqrt', np_sqrt), 'square': Builtin('np.square', np_square),
        'abs': Builtin('np.abs', np_abs), 'zeros': Builtin('np.zeros', np_zeros),
        'ones_like': Builtin('np.ones_like', np_ones_like), 'array': Builtin('np.array', np_array),
        'logical_not': Builtin('np.logical_not', np_logical_not), 'logical_or': Builtin('np.logical_or', np_logical_or),
        'select': Builtin('np.select', np_select), 'transpose': Builtin('np.transpose', np_transpose),
        'dot': Builtin('np.dot', np_dot), 'ndarray': nd, 'number': number, 'float64_type': BuiltinClass('float64'),
        'logical_and': Builtin('np.logical_and', np_logical_and), 'where': Builtin('np.where', np_where),
        'isclose': Builtin('np.isclose', np_isclose), 'minimum': Builtin('np.minimum', np_minmax(True)),
        'maximum': Builtin('np.maximum', np_minmax(False)), 'absolute': Builtin('np.absolute', np_abs),
        'round': Builtin('np.round', lambda I, a, k: nd_attr(I, a[0], 'round').fn(I, [], {}) if isinstance(a[0], NDArr) else round_half_even(z3_of(a[0]))),
        'float64': Builtin('np.float64', lambda I, a, k: NpScalar(a[0])),
        # scalar type classes for isinstance(): the model's numpy scalar is a float64 (np.floating, np.number), never an np.integer
        'integer': BuiltinClass('integer'), 'floating': BuiltinClass('floating'),
    }
    return Namespace('numpy', m)
