"""World: name resolution over the real repo sources, builtins, extern registry, contract registry."""
import ast
import os

import z3

from . import source
from .source import ClassInfo, BuiltinClass, ModuleInfo
from .engine import (Obj, Func, BoundMethod, Builtin, Namespace, GenVal, SetVal, FmtStr, NDArr, SymSeq,
                     Env, Unsupported, PyExc, PathAbort, NotImplementedVal, BUILTIN_CLASSES, is_z3, z3_of,
                     num_pair, is_number, Interp)


class PyType:
    """A python builtin type used as a value (isinstance tests, conversions)."""
    def __init__(self, name, conv=None):
        self.name = name
        self.conv = conv

    def __repr__(self):
        return '<type %s>' % self.name

    def __call__(self, interp, args, kwargs):
        if self.conv is None:
            raise Unsupported('call of type %s' % self.name)
        return self.conv(interp, args, kwargs)


class World:
    def __init__(self):
        self.externs = {}          # dotted origin -> value
        self.extern_notes = {}     # dotted origin -> text (trusted base)
        self.contracts = {}        # (relpath, qualname) -> handler(interp, args, kwargs)
        self.ctor_hooks = {}       # class name -> handler(interp, cls, args, kwargs)
        self.loop_specs = {}       # (relpath, qualname, ordinal) -> handler(interp, node, it, env)
        self.while_specs = {}
        self.inlined = set()
        self.used_externs = set()
        self.max_depth = 60
        self.max_unroll = 40
        self.extern_truth = {}
        self.global_overrides = {}  # (relpath, name) -> value
        self.hash_keys = {}        # class name -> fn(interp,obj)->hashable
        self.attr_hooks = []       # fn(interp, v, name) -> value | NotImplementedVal
        self.abstract = {}         # class name -> {'attr','index','contains','iter','call','len','truth','setitem'}
        self.top = None            # (relpath, qualname) of the function under verification (never replaced by its contract)
        self.types = {n: PyType(n) for n in ('str', 'int', 'float', 'bool', 'list', 'tuple', 'dict', 'set',
                                              'NoneType', 'object', 'type', 'frozenset', 'complex')}
        self._mro = {}
        self.builtins = self._make_builtins()
        from . import loops
        self.extern_truth['FilterSeq'] = loops.filterseq_truth

    # ---- classes --------------------------------------------------------------------------
    def resolve_bases(self, cls):
        if cls.bases is not None:
            return cls.bases
        out = []
        for b in cls.base_nodes:
            v = None
            try:
                v = self._static_eval(cls.module, b)
            except Exception:
                v = None
            if isinstance(v, ClassInfo):
                out.append(v)
            else:
                name = ast.unparse(b)
                out.append(BUILTIN_CLASSES.get(name) or BuiltinClass(name))
        cls.bases = out
        return out

    def _static_eval(self, mod, node):
        if isinstance(node, ast.Name):
            if node.id in BUILTIN_CLASSES:
                return BUILTIN_CLASSES[node.id]
            return self.module_global(None, mod, node.id)
        if isinstance(node, ast.Attribute):
            base = self._static_eval(mod, node.value)
            if isinstance(base, ModuleInfo):
                return self.module_global(None, base, node.attr)
            if isinstance(base, Namespace):
                return base.members.get(node.attr)
        return None

    def mro(self, cls):
        k = id(cls)
        if k in self._mro:
            return self._mro[k]
        out = [cls]
        for b in self.resolve_bases(cls):
            for c in self.mro(b):
                if c not in out:
                    out.append(c)
        self._mro[k] = out
        return out

    def issubclass(self, c, d):
        if isinstance(d, PyType):
            return False
        if not isinstance(c, ClassInfo) or not isinstance(d, ClassInfo):
            return False
        return any(x is d or (x.name == d.name and x.module is d.module) for x in self.mro(c))

    def is_exception(self, cls):
        return self.issubclass(cls, BUILTIN_CLASSES['BaseException'])

    def exception_class(self, name):
        if name in BUILTIN_CLASSES:
            return BUILTIN_CLASSES[name]
        m = source.module('pgradd/Error.py')
        return m.classes[name]

    def find_method(self, cls, name):
        for c in self.mro(cls):
            if name in c.methods:
                return Func(c.methods[name], c.module, c, None, '%s.%s' % (c.name, name))
        return None

    def class_attr(self, interp, cls, name, instance):
        for c in self.mro(cls):
            if name in c.methods:
                f = Func(c.methods[name], c.module, c, None, '%s.%s' % (c.name, name))
                kind = c.kinds[name]
                if kind == 'staticmethod':
                    return f
                if kind == 'classmethod':
                    return BoundMethod(f, cls)
                if instance is not None:
                    return BoundMethod(f, instance)
                return f
            if name in c.attrs:
                key = ('classattr', c.module.relpath, c.name, name)
                if interp is not None and key in interp.modstate:
                    return interp.modstate[key]
                env = Env({}, None, None, c.module, set())
                # names of earlier class attributes are visible in the class body
                for k2 in c.attrs:
                    if k2 == name:
                        break
                v = (interp or Interp(None, self)).eval(c.attrs[name], _ClassBodyEnv(self, interp, c, env))
                if interp is not None:
                    interp.modstate[key] = v
                    if isinstance(v, (dict, list)):
                        interp.global_ids[id(v)] = '%s::%s.%s' % (c.module.relpath, c.name, name)
                return v
        return NotImplementedVal

    # ---- module globals -------------------------------------------------------------------
    def module_global(self, interp, mod, name):
        key = (mod.relpath, name)
        if interp is not None and key in interp.modstate:
            return interp.modstate[key]
        if key in self.global_overrides:
            return self.global_overrides[key]
        if name in mod.functions:
            return Func(mod.functions[name], mod, None, None, name)
        if name in mod.classes:
            return mod.classes[name]
        if name in mod.assigns:
            if interp is None:
                interp = Interp(None, self)
                interp.modstate = {}
            env = Env({}, None, None, mod, set())
            v = interp.eval(mod.assigns[name], env)
            interp.modstate[key] = v
            if isinstance(v, (dict, list)):
                interp.global_ids[id(v)] = '%s::%s' % key
            return v
        if name in mod.imports:
            return self.resolve_import(interp, mod, mod.imports[name])
        for dotted, level in mod.star_imports:
            target = self.find_repo_module(mod, dotted, level)
            if target is not None:
                try:
                    return self.module_global(interp, target, name)
                except _NameErr:
                    pass
                except PyExc as e:
                    if e.obj.cls.name != 'NameError':
                        raise
        if name in self.builtins:
            return self.builtins[name]
        if name in BUILTIN_CLASSES:
            return BUILTIN_CLASSES[name]
        if name in self.types:
            return self.types[name]
        if name == '__file__':
            return mod.path
        if interp is not None and interp.ctx is not None:
            raise interp.exc('NameError', name)
        raise _NameErr(name)

    def set_module_global(self, interp, mod, name, v):
        interp.ctx.effect('write-global', mod.relpath, name)
        interp.modstate[(mod.relpath, name)] = v

    def find_repo_module(self, mod, dotted, level):
        if level > 0:
            d = os.path.dirname(mod.relpath)
            for _ in range(level - 1):
                d = os.path.dirname(d)
            parts = [d] + (dotted.split('.') if dotted else [])
        else:
            if not dotted.startswith('pgradd'):
                return None
            parts = dotted.split('.')
        base = os.path.join(*parts)
        for cand in (base + '.py', os.path.join(base, '__init__.py')):
            if os.path.exists(os.path.join(source.REPO, cand)):
                return source.module(cand)
        return None

    def resolve_import(self, interp, mod, spec):
        if spec[0] == 'module':
            dotted = spec[1]
            if dotted.startswith('pgradd'):
                return self.find_repo_module(mod, dotted, 0)
            return self.extern(dotted)
        _, dotted, name, level = spec
        target = self.find_repo_module(mod, dotted, level)
        if target is not None:
            # submodule?
            sub = self.find_repo_module(target, name, 1) if target.relpath.endswith('__init__.py') else None
            try:
                return self.module_global(interp, target, name)
            except (_NameErr, PyExc):
                if sub is not None:
                    return sub
                raise
        full = (dotted + '.' + name) if dotted else name
        if full in self.externs:
            return self.extern(full)
        if dotted in self.externs:
            ns = self.extern(dotted)
            if isinstance(ns, Namespace) and name in ns.members:
                return ns.members[name]
        raise Unsupported('extern %s has no model' % full)

    def extern(self, dotted):
        if dotted not in self.externs:
            raise Unsupported('extern %s has no model' % dotted)
        self.used_externs.add(dotted)
        return self.externs[dotted]

    # ---- contracts / hooks ----------------------------------------------------------------
    def func_key(self, f):
        return (f.module.relpath if f.module is not None else None, f.qualname)

    def contract_for(self, f):
        k = self.func_key(f)
        h = self.contracts.get(k)
        if h is None and f.module is not None and not isinstance(f.node, ast.Lambda) and f.closure is None:
            self.inlined.add('%s::%s' % k)
        return h

    top_active = None

    def ctor_hook(self, cls):
        return self.ctor_hooks.get(cls.name)

    def local_names(self, fnode):
        names = set()
        for n in ast.walk(fnode):
            if isinstance(n, ast.Name) and isinstance(n.ctx, (ast.Store, ast.Del)):
                names.add(n.id)
            elif isinstance(n, ast.ExceptHandler) and n.name:
                names.add(n.name)
            elif isinstance(n, (ast.FunctionDef,)) and n is not fnode:
                names.add(n.name)
        # names bound only inside nested function/lambda/comprehension scopes are not locals of fnode
        inner = set()
        for n in ast.walk(fnode):
            if n is fnode:
                continue
            if isinstance(n, (ast.FunctionDef, ast.Lambda, ast.ListComp, ast.SetComp, ast.DictComp, ast.GeneratorExp)):
                for m in ast.walk(n):
                    if isinstance(m, ast.Name) and isinstance(m.ctx, ast.Store):
                        inner.add(id(m))
        names = set()
        for n in ast.walk(fnode):
            if isinstance(n, ast.Name) and isinstance(n.ctx, (ast.Store, ast.Del)) and id(n) not in inner:
                names.add(n.id)
            elif isinstance(n, ast.ExceptHandler) and n.name:
                names.add(n.name)
        for n in fnode.body:
            for m in ast.walk(n):
                if isinstance(m, ast.FunctionDef):
                    names.add(m.name)
        for n in ast.walk(fnode):
            if isinstance(n, ast.Global):
                names -= set(n.names)
        for a in fnode.args.args + fnode.args.kwonlyargs:
            names.add(a.arg)
        return names

    def loops_of(self, fnode):
        """the loops of a function in SOURCE order (ordinal k = k-th `for`/`while` keyword in the text);
        loops of nested function definitions belong to those functions"""
        out = []

        def visit(n):
            for ch in ast.iter_child_nodes(n):
                if isinstance(ch, (ast.FunctionDef, ast.Lambda)) and ch is not fnode:
                    continue
                if isinstance(ch, (ast.For, ast.While)):
                    out.append(ch)
                visit(ch)
        visit(fnode)
        out.sort(key=lambda x: (x.lineno, x.col_offset))
        return out

    def loop_ordinal(self, fnode, node):
        for k, n in enumerate(self.loops_of(fnode)):
            if n is node:
                return k
        return None

    def loop_hook(self, interp, node, it, env):
        f = env.func
        if f is None or isinstance(f.node, ast.Lambda):
            return NotImplementedVal
        key = (f.module.relpath, f.qualname, self.loop_ordinal(f.node, node))
        h = self.loop_specs.get(key)
        if h is None:
            return NotImplementedVal
        return h(interp, node, it, env)

    def while_hook(self, interp, node, env):
        f = env.func
        if f is None:
            return NotImplementedVal
        key = (f.module.relpath, f.qualname, self.loop_ordinal(f.node, node))
        h = self.while_specs.get(key)
        if h is None:
            return NotImplementedVal
        return h(interp, node, env)

    # abstract objects: Obj whose class is a BuiltinClass with handlers registered in self.abstract[name]
    def _abs(self, v, what):
        if isinstance(v, Obj):
            d = self.abstract.get(v.cls.name)
            if d is not None:
                return d.get(what)
        return None

    # default hooks (overridable by contract modules via subclassing or attribute assignment)
    def truth_hook(self, interp, v):
        return None

    def is_none_hook(self, interp, v):
        return None

    def extern_attr(self, interp, v, name):
        h = self._abs(v, 'attr')
        if h is not None:
            r = h(interp, v, name)
            if r is not NotImplementedVal:
                return r
        for h in self.attr_hooks:
            r = h(interp, v, name)
            if r is not NotImplementedVal:
                return r
        return NotImplementedVal

    def value_attr(self, interp, v, name):
        for h in self.attr_hooks:
            r = h(interp, v, name)
            if r is not NotImplementedVal:
                return r
        from . import pybuiltins
        return pybuiltins.value_attr(interp, v, name)

    def call_obj(self, interp, f, args, kwargs):
        h = self._abs(f, 'call')
        if h is not None:
            return h(interp, f, args, kwargs)
        return NotImplementedVal

    def extern_binop(self, interp, op, a, b):
        for x in (a, b):
            h = self._abs(x, 'binop')
            if h is not None:
                r = h(interp, op, a, b)
                if r is not NotImplementedVal:
                    return r
        return NotImplementedVal

    def extern_compare(self, interp, op, a, b):
        for x in (a, b):
            h = self._abs(x, 'compare')
            if h is not None:
                r = h(interp, op, a, b)
                if r is not NotImplementedVal:
                    return r
        return NotImplementedVal

    def extern_contains(self, interp, c, item):
        h = self._abs(c, 'contains')
        if h is not None:
            return h(interp, c, item)
        return NotImplementedVal

    def extern_index(self, interp, v, idx):
        h = self._abs(v, 'index')
        if h is not None:
            return h(interp, v, idx)
        return NotImplementedVal

    def contains_hook(self, interp, c, item):
        return NotImplementedVal

    def index_hook(self, interp, v, idx):
        return NotImplementedVal

    def slice_hook(self, interp, v, lo, hi, st):
        return NotImplementedVal

    def setitem_hook(self, interp, c, idx, v):
        h = self._abs(c, 'setitem')
        if h is not None:
            return h(interp, c, idx, v)
        return NotImplementedVal

    def delitem_hook(self, interp, c, idx):
        return NotImplementedVal

    def iter_hook(self, interp, v):
        h = self._abs(v, 'iter')
        if h is not None:
            return h(interp, v)
        return NotImplementedVal

    def as_symseq(self, interp, v):
        h = self._abs(v, 'symseq')
        if h is not None:
            return h(interp, v)
        return None

    def comp_hook(self, interp, node, seq, env):
        from . import loops
        return loops.comp_filter(interp, node, seq, env)

    def with_hook(self, interp, mgr):
        return NotImplementedVal

    def note_mutation(self, interp, container):
        interp.note_global_write(container)

    def hash_key(self, interp, obj):
        h = self.hash_keys.get(obj.cls.name)
        if h is not None:
            return h(interp, obj)
        for c in self.mro(obj.cls):
            h = self.hash_keys.get(c.name)
            if h is not None:
                return h(interp, obj)
        return obj

    def pow_hook(self, interp, a, b):
        raise Unsupported('symbolic power %r ** %r' % (a, b))

    def nd_broadcast(self, interp, op, a, b):
        raise Unsupported('broadcast %s %s' % (a.shape, b.shape))

    def nd_index(self, interp, v, idx):
        from . import npmodel
        return npmodel.nd_index(interp, v, idx)

    def nd_setitem(self, interp, v, idx, val):
        from . import npmodel
        return npmodel.nd_setitem(interp, v, idx, val)

    def nd_iter(self, interp, v):
        from . import npmodel
        return npmodel.nd_iter(interp, v)

    def _make_builtins(self):
        from . import pybuiltins
        return pybuiltins.make(self)


class _NameErr(Exception):
    pass


class _ClassBodyEnv(Env):
    """Environment for evaluating a class-level attribute: earlier class attributes are visible."""
    def __init__(self, world, interp, cls, env):
        Env.__init__(self, _ClassLocals(world, interp, cls), None, None, cls.module, set())


class _ClassLocals(dict):
    def __init__(self, world, interp, cls):
        dict.__init__(self)
        self.world, self.interp, self.cls = world, interp, cls

    def __contains__(self, k):
        return k in self.cls.attrs or k in self.cls.methods

    def __getitem__(self, k):
        return self.world.class_attr(self.interp, self.cls, k, None)

    def get(self, k, d=None):
        return d
