"""pyvc engine: a symbolic interpreter of the real Python AST.

Values are concrete Python values where the contract fixes them and z3 terms where it quantifies.
Paths are enumerated by re-execution with a decision prefix (each path is a fresh run), so the
interpreter is direct-style and the heap is ordinary mutable Python objects.

Semantics assumed (stated in every evidence file): int = mathematical Int, float = mathematical Real,
dict iteration = insertion order, set iteration = arbitrary permutation, generator expressions consumed
by sum/all/any/list/tuple/sorted/join are evaluated lazily in order.
"""
import ast
import itertools
import operator
from fractions import Fraction

import z3

from . import source
from .source import ClassInfo, BuiltinClass, ModuleInfo


# --------------------------------------------------------------------------------------------
# exceptions used by the engine itself

class Unsupported(Exception):
    """Construct outside the modelled subset (never skipped silently)."""


class PathAbort(Exception):
    """Current path is infeasible or cut (assumption false, loop-body path finished)."""


class PathDone(Exception):
    """The path ends here normally (e.g. after the preservation check of a loop body); obligations are kept."""


class PyExc(Exception):
    """A Python exception raised by the interpreted program."""
    def __init__(self, obj):
        Exception.__init__(self, getattr(obj.cls, 'name', '?'))
        self.obj = obj


class _Return(Exception):
    def __init__(self, value):
        self.value = value


class _Break(Exception):
    pass


class _Continue(Exception):
    pass


# --------------------------------------------------------------------------------------------
# values

class Obj:
    """Instance of a repo class, an exception, or an extern class."""
    _n = 0

    def __init__(self, cls, fields=None, origin='fresh'):
        self.cls = cls
        self.fields = fields if fields is not None else {}
        self.origin = origin
        Obj._n += 1
        self.oid = Obj._n

    def __repr__(self):
        return '<Obj %s %s>' % (self.cls.name, {k: v for k, v in self.fields.items()})


class Func:
    def __init__(self, node, module, cls=None, closure=None, qualname=None):
        self.node = node
        self.module = module
        self.cls = cls
        self.closure = closure
        self.qualname = qualname or getattr(node, 'name', '<lambda>')

    def __repr__(self):
        return '<Func %s>' % self.qualname


class BoundMethod:
    def __init__(self, func, self_obj):
        self.func = func
        self.self_obj = self_obj


class Builtin:
    def __init__(self, name, fn, note=None):
        self.name = name
        self.fn = fn          # fn(interp, args, kwargs)
        self.note = note

    def __repr__(self):
        return '<Builtin %s>' % self.name


class Namespace:
    """Extern module / namespace (np, Chem, c, ...)."""
    def __init__(self, name, members=None):
        self.name = name
        self.members = members or {}


class Havoc:
    """binding of a variable that the body of a loop under an invariant rule assigns or mutates and whose value at an arbitrary
    iteration the loop contract does not describe: reading it is outside the model (never a stale pre-loop value)"""
    def __init__(self, name, loop):
        self.name, self.loop = name, loop


class GenVal:
    """Lazy generator expression."""
    def __init__(self, node, env):
        self.node = node
        self.env = env


class SetVal:
    """A Python set with known elements; iteration order is an arbitrary permutation."""
    def __init__(self, items):
        self.items = list(items)


class FmtStr:
    """Opaque formatted string: template and arguments kept for contracts that observe them."""
    def __init__(self, parts):
        self.parts = parts

    def __repr__(self):
        return 'FmtStr(%r)' % (self.parts,)


class NDArr:
    """numpy array of fixed, concrete shape with symbolic or concrete items (flat list)."""
    def __init__(self, shape, items, dtype='float'):
        self.shape = tuple(shape)
        self.items = list(items)
        self.dtype = dtype

    def __repr__(self):
        return 'NDArr(%s,%s)' % (self.shape, self.items)


class SymSeq:
    """Sequence of symbolic length: (len: Int term, at: python callable Int term -> value).
    Mutable through append (the list object keeps its identity)."""
    def __init__(self, length, at, name='seq', origin='fresh'):
        self.length = length
        self.at = at
        self.name = name
        self.origin = origin

    def append(self, x):
        old_at, old_len = self.at, self.length
        self.at = lambda i: ite_value(i == old_len, x, old_at(i))
        self.length = z3.simplify(old_len + 1)


def seq_view(v):
    """View a concrete list/tuple as a SymSeq (for invariants that speak about both)."""
    if isinstance(v, SymSeq):
        return v
    if isinstance(v, (list, tuple)):
        items = list(v)

        def at(i):
            if not items:
                raise Unsupported('element of an empty list')
            out = items[-1]
            for k in range(len(items) - 2, -1, -1):
                out = ite_value(i == k, items[k], out)
            return out
        return SymSeq(z3.IntVal(len(items)), at, 'list')
    return None


def ite_value(c, a, b):
    """Structural if-then-else over interpreter values."""
    c = z3.simplify(c) if is_z3(c) else c
    if c is True or (is_z3(c) and z3.is_true(c)):
        return a
    if c is False or (is_z3(c) and z3.is_false(c)):
        return b
    if isinstance(a, tuple) and isinstance(b, tuple) and len(a) == len(b):
        return tuple(ite_value(c, x, y) for x, y in zip(a, b))
    if isinstance(a, Obj) and isinstance(b, Obj):
        if a is b:
            return a
        if a.cls is b.cls and set(a.fields) == set(b.fields):
            return Obj(a.cls, {k: ite_value(c, a.fields[k], b.fields[k]) for k in a.fields}, a.origin)
        raise Unsupported('ite over objects of different shape')
    if a is None and b is None:
        return None
    if a is b:
        return a
    if (is_z3(a) or isinstance(a, (int, float, bool, str))) and (is_z3(b) or isinstance(b, (int, float, bool, str))):
        x, y = a, b
        if isinstance(a, str) or isinstance(b, str) or (is_z3(a) and z3.is_string(a)):
            return z3.If(c, z3_of(x), z3_of(y))
        if isinstance(a, bool) or isinstance(b, bool) or (is_z3(a) and z3.is_bool(a)):
            return z3.If(c, z3_of(x), z3_of(y))
        x, y = num_pair(x, y)
        return z3.If(c, x, y)
    raise Unsupported('ite over %r / %r' % (a, b))


class NpScalar:
    """A numpy scalar (np.float64 ...): behaves as its value in arithmetic, but its python type is observable
    (repr() / '%r' print 'np.float64(...)', isinstance(x, float) holds, type(x) is not float)."""
    def __init__(self, v):
        self.v = v.v if isinstance(v, NpScalar) else v

    def __repr__(self):
        return 'NpScalar(%r)' % (self.v,)


def unwrap(v):
    return v.v if isinstance(v, NpScalar) else v


class DefaultDict(dict):
    """collections.defaultdict with a concrete key set"""
    factory = None


class StarSeq:
    """*seq in a call where seq has symbolic length."""
    def __init__(self, seq):
        self.seq = seq


class Env:
    def __init__(self, local, func, parent_closure, module, localnames):
        self.local = local
        self.func = func
        self.closure = parent_closure
        self.module = module
        self.localnames = localnames


def is_z3(v):
    return isinstance(v, z3.ExprRef)


def z3_of(v, like=None):
    """Lift a concrete python number/bool/str to z3."""
    if type(v).__name__ == 'NpScalar':
        v = v.v
    if is_z3(v):
        return v
    if isinstance(v, bool):
        return z3.BoolVal(v)
    if isinstance(v, int):
        if like is not None and z3.is_real(like):
            return z3.RealVal(v)
        return z3.IntVal(v)
    if isinstance(v, float):
        return z3.RealVal(str(Fraction(repr(v)))) if v == v and v not in (float('inf'), float('-inf')) \
            else _unsupported('non-finite float constant')
    if isinstance(v, Fraction):
        return z3.RealVal(str(v))
    if isinstance(v, str):
        return z3.StringVal(v)
    raise Unsupported('cannot lift %r to z3' % (v,))


def _unsupported(msg):
    raise Unsupported(msg)


def num_pair(a, b):
    # an integral python float next to an Int term keeps the Int sort (same mathematical value, cheaper queries)
    if is_z3(a) and z3.is_int(a) and isinstance(b, float) and b == int(b):
        b = int(b)
    if is_z3(b) and z3.is_int(b) and isinstance(a, float) and a == int(a):
        a = int(a)
    a = z3_of(a, b if is_z3(b) else None)
    b = z3_of(b, a)
    if z3.is_bool(a):
        a = z3.If(a, 1, 0)
    if z3.is_bool(b):
        b = z3.If(b, 1, 0)
    if z3.is_int(a) and z3.is_real(b):
        a = z3.ToReal(a)
    if z3.is_real(a) and z3.is_int(b):
        b = z3.ToReal(b)
    return a, b


def is_number(v):
    return isinstance(v, (int, float, Fraction)) and not isinstance(v, bool) or \
        (is_z3(v) and (z3.is_int(v) or z3.is_real(v)))


# --------------------------------------------------------------------------------------------
# builtin exception classes

def _mk_builtin_classes():
    B = {}
    def mk(name, *bases):
        B[name] = BuiltinClass(name, [B[b] for b in bases])
    mk('BaseException')
    mk('Exception', 'BaseException')
    mk('ArithmeticError', 'Exception')
    mk('ZeroDivisionError', 'ArithmeticError')
    mk('LookupError', 'Exception')
    mk('IndexError', 'LookupError')
    mk('KeyError', 'LookupError')
    mk('ValueError', 'Exception')
    mk('TypeError', 'Exception')
    mk('AssertionError', 'Exception')
    mk('AttributeError', 'Exception')
    mk('NameError', 'Exception')
    mk('UnboundLocalError', 'NameError')
    mk('RuntimeError', 'Exception')
    mk('NotImplementedError', 'RuntimeError')
    mk('RecursionError', 'RuntimeError')
    mk('OverflowError', 'ArithmeticError')
    mk('MemoryError', 'Exception')
    mk('StopIteration', 'Exception')
    mk('OSError', 'Exception')
    mk('ImportError', 'Exception')
    mk('Warning', 'Exception')
    mk('UserWarning', 'Warning')
    mk('object')
    return B


BUILTIN_CLASSES = _mk_builtin_classes()


# --------------------------------------------------------------------------------------------
# one path

class Ctx:
    def __init__(self, prefix, timeout_ms=3000):
        self.prefix = list(prefix)
        self.decisions = []
        self.alts = []
        self.pc = []
        self.pc_assumed = []      # the part of pc that does not come from obligations (used for the reachability guard)
        self._in_oblige = False
        self.obligations = []     # dicts: name, pc(list), goal, meta
        self.effects = []         # (kind, data...)
        self.counters = {}
        self.solver = z3.Solver()
        self.solver.set('timeout', timeout_ms)
        self.ghost = {}
        self.notes = []

    def fresh(self, name, sort):
        n = self.counters.get(name, 0)
        self.counters[name] = n + 1
        full = '%s!%d' % (name, n) if n else name
        if sort == 'real':
            return z3.Real(full)
        if sort == 'int':
            return z3.Int(full)
        if sort == 'bool':
            return z3.Bool(full)
        if sort == 'str':
            return z3.String(full)
        return z3.Const(full, sort)

    def fresh_fn(self, name, *sorts):
        n = self.counters.get(name, 0)
        self.counters[name] = n + 1
        full = '%s!%d' % (name, n) if n else name
        return z3.Function(full, *sorts)

    def assume_forall(self, vars_, body, label=''):
        """Record a universally quantified assumption as a schema.  It constrains nothing until instantiated
        (instantiate()); using only ground instances keeps every query quantifier-free and is sound for proving."""
        if not hasattr(self, 'schemas'):
            self.schemas = []
        self.schemas.append((list(vars_), body, label))

    def instantiate(self, terms):
        """Add all ground instances of the recorded schemas over the given index terms."""
        import itertools
        terms = [z3.IntVal(t) if isinstance(t, int) else t for t in terms]
        seen = getattr(self, '_inst_seen', set())
        self._inst_seen = seen
        for k, (vs, body, label) in enumerate(getattr(self, 'schemas', [])):
            pools = [[t for t in terms if t.sort() == v.sort()] for v in vs]
            for combo in itertools.product(*pools):
                key = (k,) + tuple(t.sexpr() for t in combo)      # (ids of dead ASTs are reused by z3: never key on get_id)
                if key in seen:
                    continue
                seen.add(key)
                inst = z3.substitute(body, *zip(vs, combo))
                self.assume(inst)

    def assume(self, f):
        if f is True:
            return
        if f is False:
            raise PathAbort()
        f = z3.simplify(f)
        if z3.is_true(f):
            return
        if z3.is_false(f):
            raise PathAbort()
        self.pc.append(f)
        if not self._in_oblige:
            self.pc_assumed.append(f)
        self.solver.add(f)

    def feasible(self, f=None):
        if f is None:
            r = self.solver.check()
        else:
            self.solver.push()
            self.solver.add(f)
            r = self.solver.check()
            self.solver.pop()
        return r != z3.unsat

    def choose(self, conds, label=''):
        """n-way fork; conds: list of z3 Bool/bools (mutually exclusive alternatives). Returns index."""
        k = len(self.decisions)
        if k < len(self.prefix):
            i = self.prefix[k]
            self.decisions.append(i)
            c = conds[i]
            if c is not True:
                self.assume(c)
            return i
        feas = []
        for i, c in enumerate(conds):
            if c is False:
                continue
            if c is True:
                feas.append(i)
                continue
            c = z3.simplify(c)
            if z3.is_false(c):
                continue
            if z3.is_true(c) or self.feasible(c):
                feas.append(i)
        if not feas:
            raise PathAbort()
        first = feas[0]
        for j in feas[1:]:
            self.alts.append(self.decisions + [j])
        self.decisions.append(first)
        c = conds[first]
        if c is not True:
            self.assume(c)
        return first

    def branch(self, cond):
        if isinstance(cond, bool):
            return cond
        cond = z3.simplify(cond)
        if z3.is_true(cond):
            return True
        if z3.is_false(cond):
            return False
        return self.choose([cond, z3.Not(cond)]) == 0

    def oblige(self, name, goal, **meta):
        """Record a proof obligation pc => goal; execution continues assuming the goal."""
        if goal is True:
            goal = z3.BoolVal(True)
        if goal is False:
            goal = z3.BoolVal(False)
        if any(t in name for t in getattr(self, 'assumed_obligations', ())):
            # an obligation that belongs to ANOTHER property's check of the same function: here it is a stated precondition
            self.assume(goal)
            return
        self.obligations.append({'name': name, 'pc': list(self.pc), 'goal': goal, 'meta': meta})
        self._in_oblige = True
        try:
            self.assume(goal)
        except PathAbort:
            # the goal is literally false: the obligation is kept (it will be refuted), the path ends here
            raise PathDone()
        finally:
            self._in_oblige = False

    def effect(self, kind, *data):
        self.effects.append((kind,) + data)


# --------------------------------------------------------------------------------------------
# interpreter

_CMP = {ast.Lt: operator.lt, ast.LtE: operator.le, ast.Gt: operator.gt, ast.GtE: operator.ge}
_DUNDER = {ast.Add: 'add', ast.Sub: 'sub', ast.Mult: 'mul', ast.Div: 'truediv', ast.Pow: 'pow',
           ast.FloorDiv: 'floordiv', ast.Mod: 'mod'}
_CMPD = {ast.Lt: ('__lt__', '__gt__'), ast.LtE: ('__le__', '__ge__'), ast.Gt: ('__gt__', '__lt__'),
         ast.GtE: ('__ge__', '__le__'), ast.Eq: ('__eq__', '__eq__'), ast.NotEq: ('__ne__', '__ne__')}

NotImplementedVal = object()


class Interp:
    def __init__(self, ctx, world):
        self.ctx = ctx
        self.world = world          # World: externs, contracts, module resolution, options
        self.depth = 0
        self.exc_stack = []
        self.modstate = {}
        self.global_ids = {}      # id(container) -> name, for containers that live in module / class attributes

    # ---- helpers --------------------------------------------------------------------------
    def exc(self, clsname, *args):
        cls = self.world.exception_class(clsname)
        return PyExc(Obj(cls, {'args': tuple(args)}))

    def fresh(self, name, sort):
        return self.ctx.fresh(name, sort)

    # ---- truthiness -----------------------------------------------------------------------
    def truth(self, v):
        v = unwrap(v)
        if isinstance(v, (bool, int, float, str, type(None), list, tuple, dict, Fraction)):
            return bool(v)
        if is_z3(v):
            if z3.is_bool(v):
                return self.ctx.branch(v)
            if z3.is_int(v) or z3.is_real(v):
                return self.ctx.branch(v != 0)
            if z3.is_string(v):
                return self.ctx.branch(z3.Length(v) > 0)
            raise Unsupported('truth of %s' % v.sort())
        if isinstance(v, Obj):
            m = self.world.find_method(v.cls, '__bool__')
            if m is not None:
                return self.truth(self.call(BoundMethod(m, v), [], {}))
            m = self.world.find_method(v.cls, '__len__')
            if m is not None:
                return self.truth(self.call(BoundMethod(m, v), [], {}))
            h = self.world.extern_truth.get(v.cls.name)
            if h is not None:
                return self.truth(h(self, v))
            return True
        if isinstance(v, SymSeq):
            return self.ctx.branch(v.length > 0)
        if isinstance(v, SetVal):
            return bool(v.items)
        if isinstance(v, NDArr):
            if len(v.items) == 1:
                return self.truth(v.items[0])
            raise self.exc('ValueError', 'truth value of an array is ambiguous')
        if isinstance(v, FmtStr):
            return True
        if isinstance(v, (Func, BoundMethod, Builtin, ClassInfo, Namespace, ModuleInfo)):
            return True
        h = self.world.truth_hook(self, v)
        if h is not None:
            return h
        raise Unsupported('truth of %r' % (v,))

    # ---- environment ----------------------------------------------------------------------
    def lookup(self, name, env):
        e = env
        if name in e.local:
            v = e.local[name]
            if isinstance(v, Havoc):
                raise Unsupported('loop-carried variable %r is read but not described by the contract of loop [%s]' % (v.name, v.loop))
            return v
        if name in e.localnames:
            raise self.exc('UnboundLocalError', name)
        c = e.closure
        while c is not None:
            if name in c.local:
                v = c.local[name]
                if isinstance(v, Havoc):
                    raise Unsupported('loop-carried variable %r is read but not described by the contract of loop [%s]' % (v.name, v.loop))
                return v
            c = c.closure
        return self.world.module_global(self, env.module, name)

    # ---- calls ----------------------------------------------------------------------------
    def call(self, f, args, kwargs):
        if isinstance(f, Builtin):
            return f.fn(self, args, kwargs)
        if isinstance(f, BoundMethod):
            return self.call(f.func, [f.self_obj] + list(args), kwargs)
        if isinstance(f, Func):
            h = self.world.contract_for(f)
            if h is not None:
                return h(self, args, kwargs)
            return self.call_func(f, args, kwargs)
        if isinstance(f, ClassInfo):
            return self.instantiate(f, args, kwargs)
        if isinstance(f, Obj):
            m = self.world.find_method(f.cls, '__call__')
            if m is not None:
                return self.call(BoundMethod(m, f), args, kwargs)
            h = self.world.call_obj(self, f, args, kwargs)
            if h is not NotImplementedVal:
                return h
            raise self.exc('TypeError', '%s object is not callable' % f.cls.name)
        if f is None:
            raise self.exc('TypeError', "'NoneType' object is not callable")
        if callable(f) and not is_z3(f):
            return f(self, args, kwargs)
        raise Unsupported('call of %r' % (f,))

    def instantiate(self, cls, args, kwargs):
        h = self.world.ctor_hook(cls)
        if h is not None:
            return h(self, cls, args, kwargs)
        o = Obj(cls)
        init = self.world.find_method(cls, '__init__')
        if init is not None:
            self.call(BoundMethod(init, o), args, kwargs)
        else:
            if self.world.is_exception(cls):
                o.fields['args'] = tuple(args)
            elif args or kwargs:
                raise self.exc('TypeError', 'object() takes no arguments')
        if self.world.is_exception(cls) and 'args' not in o.fields:
            o.fields['args'] = tuple(args)
        return o

    def bind_args(self, fnode, args, kwargs, env_for_defaults):
        a = fnode.args
        params = [p.arg for p in a.args]
        local = {}
        args = list(args)
        if len(args) > len(params) and a.vararg is None:
            raise self.exc('TypeError', 'too many positional arguments')
        for p, v in zip(params, args):
            local[p] = v
        if a.vararg is not None:
            local[a.vararg.arg] = tuple(args[len(params):])
        kwargs = dict(kwargs)
        for p in params[len(args):]:
            if p in kwargs:
                local[p] = kwargs.pop(p)
        ndef = len(a.defaults)
        for i, p in enumerate(params):
            if p not in local:
                j = i - (len(params) - ndef)
                if j >= 0:
                    local[p] = self.default_value(fnode, p, a.defaults[j], env_for_defaults)
                else:
                    raise self.exc('TypeError', 'missing argument %s' % p)
        for p, d in zip(a.kwonlyargs, a.kw_defaults):
            if p.arg in kwargs:
                local[p.arg] = kwargs.pop(p.arg)
            elif d is not None:
                local[p.arg] = self.default_value(fnode, p.arg, d, env_for_defaults)
            else:
                raise self.exc('TypeError', 'missing kw-only argument')
        if a.kwarg is not None:
            local[a.kwarg.arg] = kwargs
        elif kwargs:
            raise self.exc('TypeError', 'unexpected keyword argument %s' % list(kwargs))
        return local

    def default_value(self, fnode, pname, expr, env):
        """python evaluates a default argument ONCE, when the function is defined: a mutable default is one object shared by every call
        that omits the argument; writes to it are effects on shared state"""
        cache = self.__dict__.setdefault('_defaults', {})
        key = (id(fnode), pname)
        if key not in cache:
            v = self.eval(expr, env)
            cache[key] = v
            if isinstance(v, (list, dict)) or type(v).__name__ in ('SetVal', 'DefaultDict'):
                self.global_ids[id(v)] = 'default argument %s of %s' % (pname, getattr(fnode, 'name', '<lambda>'))
        return cache[key]

    def call_func(self, f, args, kwargs):
        self.depth += 1
        if self.depth > self.world.max_depth:
            raise Unsupported('call depth exceeded in %s' % f.qualname)
        try:
            node = f.node
            for d in getattr(node, 'decorator_list', []):
                dn = ast.unparse(d)
                if dn not in ('classmethod', 'staticmethod', 'abc.abstractmethod', 'abstractmethod'):
                    # what runs is the decorator's wrapper (memo tables, argument rewriting ...), not this body
                    raise Unsupported('decorator @%s on %s is not modelled' % (dn, f.qualname))
            defenv = Env({}, f, f.closure, f.module, set())
            local = self.bind_args(node, args, kwargs, defenv)
            if isinstance(node, ast.Lambda):
                env = Env(local, f, f.closure, f.module, set(local))
                return self.eval(node.body, env)
            env = Env(local, f, f.closure, f.module, self.world.local_names(node))
            try:
                self.exec_block(node.body, env)
            except _Return as r:
                return r.value
            return None
        finally:
            self.depth -= 1

    # ---- attribute access -----------------------------------------------------------------
    def getattr(self, v, name):
        w = self.world
        if isinstance(v, Obj):
            if getattr(v.cls, 'node', None) is not None and not name.startswith('__'):
                # a data descriptor on the class (property) takes precedence over the instance dictionary
                m = w.find_method(v.cls, name)
                if m is not None and any(ast.unparse(d).split('.')[-1] in ('property', 'cached_property', 'setter', 'getter') for d in getattr(m.node, 'decorator_list', [])):
                    raise Unsupported('attribute %s.%s is a property (descriptors are not modelled)' % (v.cls.name, name))
            if name in v.fields:
                return v.fields[name]
            if name == '__class__':
                return v.cls
            r = w.class_attr(self, v.cls, name, v)
            if r is not NotImplementedVal:
                return r
            h = w.extern_attr(self, v, name)
            if h is not NotImplementedVal:
                return h
            if getattr(v.cls, 'node', None) is None and v.cls.name in getattr(w, 'abstract', {}):
                # an abstract stand-in for an external object (RDKit molecule, numpy array ...): the real object may well have the
                # attribute -- not knowing it is a limit of the model, never a python AttributeError
                raise Unsupported('abstract %s has no model for attribute %r' % (v.cls.name, name))
            if v.origin == 'param' and getattr(v.cls, 'node', None) is not None and not getattr(v, 'complete', False):
                # an object of a repository class that the contract built field by field (not through its constructor): a field the
                # contract did not list is unknown, not absent
                raise Unsupported('field %r of the symbolic %s object is not part of the contract state' % (name, v.cls.name))
            raise self.exc('AttributeError', name)
        if isinstance(v, ClassInfo):
            if name == '__name__':
                return v.name
            r = w.class_attr(self, v, name, None)
            if r is not NotImplementedVal:
                return r
            raise self.exc('AttributeError', name)
        if isinstance(v, Namespace):
            if name in v.members:
                return v.members[name]
            raise Unsupported('extern %s.%s has no model' % (v.name, name))
        if isinstance(v, ModuleInfo):
            return w.module_global(self, v, name)
        r = w.value_attr(self, v, name)
        if r is not NotImplementedVal:
            return r
        if v is None:
            raise self.exc('AttributeError', "'NoneType' object has no attribute %r" % name)
        if (is_z3(v) and (z3.is_real(v) or z3.is_int(v))) or (isinstance(v, (int, float)) and not isinstance(v, bool)):
            # a plain python number (symbolic or concrete): an attribute that neither int nor float has is an AttributeError -- python semantics, not an
            # artefact (the value is known to be a number)
            if not hasattr(1.0, name) and not hasattr(1, name):
                raise self.exc('AttributeError', "'float' object has no attribute %r" % name)
        raise Unsupported('attribute %s of %r' % (name, type(v).__name__))

    def setattr(self, v, name, val):
        if isinstance(v, Obj):
            if v.origin != 'fresh':
                self.ctx.effect('write', v.oid, v.cls.name, name)
            v.fields[name] = val
            return
        if isinstance(v, Func):
            return  # e.g. f.__doc__ = ...
        raise Unsupported('setattr on %r' % (v,))

    # ---- expressions ----------------------------------------------------------------------
    def eval(self, node, env):
        m = getattr(self, 'e_' + type(node).__name__, None)
        if m is None:
            raise Unsupported('expression %s at line %s' % (type(node).__name__, getattr(node, 'lineno', '?')))
        return m(node, env)

    def e_Constant(self, node, env):
        return node.value

    def e_Name(self, node, env):
        return self.lookup(node.id, env)

    def e_Tuple(self, node, env):
        out = []
        for e in node.elts:
            if isinstance(e, ast.Starred):
                out.extend(self.iterate(self.eval(e.value, env)))
            else:
                out.append(self.eval(e, env))
        return tuple(out)

    def e_List(self, node, env):
        return list(self.e_Tuple(node, env))

    def e_Set(self, node, env):
        return self.make_set([self.eval(e, env) for e in node.elts])

    def e_Dict(self, node, env):
        d = {}
        for k, v in zip(node.keys, node.values):
            d[self.hashable(self.eval(k, env))] = self.eval(v, env)
        return d

    def e_Lambda(self, node, env):
        return Func(node, env.module, None, env, '<lambda>')

    def e_IfExp(self, node, env):
        if self.truth(self.eval(node.test, env)):
            return self.eval(node.body, env)
        return self.eval(node.orelse, env)

    def e_JoinedStr(self, node, env):
        parts = []
        for v in node.values:
            if isinstance(v, ast.Constant):
                parts.append(v.value)
            else:
                parts.append(self.eval(v.value, env))
        return self.fmt(parts)

    def fmt(self, parts):
        if all(isinstance(p, (str, int, float, type(None), bool)) for p in parts):
            return ''.join(str(p) for p in parts)
        return FmtStr(parts)

    def e_Attribute(self, node, env):
        return self.getattr(self.eval(node.value, env), node.attr)

    def e_BoolOp(self, node, env):
        isand = isinstance(node.op, ast.And)
        v = None
        for e in node.values:
            v = self.eval(e, env)
            t = self.truth(v)
            if isand and not t:
                return v if not is_z3(v) else False
            if not isand and t:
                return v if not is_z3(v) else True
        if is_z3(v) and z3.is_bool(v):
            return isand
        return v

    def e_UnaryOp(self, node, env):
        v = self.eval(node.operand, env)
        if isinstance(node.op, ast.Not):
            return not self.truth(v)
        if isinstance(node.op, ast.USub):
            return self.neg(v)
        if isinstance(node.op, ast.UAdd):
            return v
        raise Unsupported('unary op')

    def neg(self, v):
        if isinstance(v, NpScalar):
            return NpScalar(self.neg(v.v))
        if isinstance(v, Obj):
            m = self.world.find_method(v.cls, '__neg__')
            if m is None:
                raise self.exc('TypeError', 'bad operand for unary -')
            return self.call(BoundMethod(m, v), [], {})
        if isinstance(v, NDArr):
            return NDArr(v.shape, [self.neg(x) for x in v.items])
        if is_z3(v):
            return -v
        return -v

    def e_BinOp(self, node, env):
        a = self.eval(node.left, env)
        b = self.eval(node.right, env)
        return self.binop(type(node.op), a, b)

    def binop(self, op, a, b):
        if isinstance(a, NpScalar) or isinstance(b, NpScalar):
            if isinstance(a, (str, FmtStr)) and op is ast.Mod:
                return self.str_binop(op, a, b)
            if isinstance(a, Obj) or isinstance(b, Obj):
                return self.binop(op, unwrap(a), unwrap(b))
            r = self.binop(op, unwrap(a), unwrap(b))
            return NpScalar(r) if (is_number(r) or is_z3(r)) else r
        if op is ast.Mod and isinstance(a, (str, FmtStr)):
            return self.str_binop(op, a, b)          # str.__mod__ comes first and formats any object
        # dunder dispatch for objects
        if isinstance(a, Obj) or isinstance(b, Obj):
            name = _DUNDER.get(op)
            if name is None:
                h = self.world.extern_binop(self, op, a, b)
                if h is not NotImplementedVal:
                    return h
                raise Unsupported('binop %s on objects' % op.__name__)
            if isinstance(a, Obj):
                m = self.world.find_method(a.cls, '__%s__' % name)
                if m is not None:
                    r = self.call(BoundMethod(m, a), [b], {})
                    if r is not NotImplementedVal:
                        return r
                else:
                    h = self.world.extern_binop(self, op, a, b)
                    if h is not NotImplementedVal:
                        return h
            if isinstance(b, Obj):
                m = self.world.find_method(b.cls, '__r%s__' % name)
                if m is not None:
                    r = self.call(BoundMethod(m, b), [a], {})
                    if r is not NotImplementedVal:
                        return r
                else:
                    h = self.world.extern_binop(self, op, a, b)
                    if h is not NotImplementedVal:
                        return h
            raise self.exc('TypeError', 'unsupported operand type(s) for %s' % op.__name__)
        if isinstance(a, NDArr) or isinstance(b, NDArr):
            return self.nd_binop(op, a, b)
        # strings
        if isinstance(a, (str, FmtStr)) or (is_z3(a) and z3.is_string(a)):
            return self.str_binop(op, a, b)
        if isinstance(b, (str, FmtStr)) or (is_z3(b) and z3.is_string(b)):
            if op is ast.Mult and isinstance(a, int):
                return self.str_binop(op, b, a)
            raise self.exc('TypeError', 'unsupported operand types')
        if isinstance(a, (list, tuple)) and op is ast.Add and type(a) is type(b):
            return a + b
        if isinstance(a, (list, tuple)) and op is ast.Mult and isinstance(b, int):
            return a * b
        if isinstance(a, (list, tuple)) or isinstance(b, (list, tuple)):
            h = getattr(self.world, 'seq_binop_hook', None)
            r = h(self, op, a, b) if h is not None else NotImplementedVal
            if r is not NotImplementedVal:
                return r
        if a is None or b is None:
            raise self.exc('TypeError', 'unsupported operand type NoneType')
        if not (is_number(a) or isinstance(a, bool) or (is_z3(a) and z3.is_bool(a))) or \
                not (is_number(b) or isinstance(b, bool) or (is_z3(b) and z3.is_bool(b))):
            raise Unsupported('binop %s on %r, %r' % (op.__name__, a, b))
        return self.arith(op, a, b)

    def arith(self, op, a, b):
        if not is_z3(a) and not is_z3(b):
            try:
                if op is ast.Add:
                    return a + b
                if op is ast.Sub:
                    return a - b
                if op is ast.Mult:
                    return a * b
                if op is ast.Div:
                    return a / b
                if op is ast.Pow:
                    return a ** b
                if op is ast.FloorDiv:
                    return a // b
                if op is ast.Mod:
                    return a % b
            except ZeroDivisionError:
                raise self.exc('ZeroDivisionError', 'division by zero')
            raise Unsupported('arith op')
        x, y = num_pair(a, b)
        if op is ast.Add:
            return x + y
        if op is ast.Sub:
            return x - y
        if op is ast.Mult:
            return x * y
        if op is ast.Div:
            if self.ctx.branch(y == 0):
                raise self.exc('ZeroDivisionError', 'division by zero')
            if z3.is_int(x):
                x = z3.ToReal(x)
                y = z3.ToReal(y)
            return x / y
        if op is ast.Pow:
            if not is_z3(b) and isinstance(b, int) and 0 <= b <= 4:
                r = z3_of(1, x)
                for _ in range(b):
                    r = r * x
                return r
            return self.world.pow_hook(self, a, b)
        if op is ast.FloorDiv and z3.is_int(x) and z3.is_int(y):
            if self.ctx.branch(y == 0):
                raise self.exc('ZeroDivisionError', 'division by zero')
            return x / y if False else z3.If(y > 0, x / y, -((-x) / (-y)) if False else x / y)
        if op is ast.Mod and z3.is_int(x) and z3.is_int(y):
            if self.ctx.branch(y == 0):
                raise self.exc('ZeroDivisionError', 'modulo by zero')
            return x % y
        raise Unsupported('symbolic arith %s' % op.__name__)

    def str_binop(self, op, a, b):
        if op is ast.Mod:
            args = b if isinstance(b, tuple) else (b,)
            if isinstance(a, str) and all(isinstance(x, (str, int, float, bool, type(None))) for x in args):
                try:
                    return a % b
                except (TypeError, ValueError) as e:
                    raise self.exc(type(e).__name__, str(e))
            return FmtStr([('%', a, args)])
        if op is ast.Add:
            if isinstance(a, str) and isinstance(b, str):
                return a + b
            if isinstance(a, FmtStr) or isinstance(b, FmtStr):
                if not isinstance(b, (str, FmtStr)) and not (is_z3(b) and z3.is_string(b)):
                    raise self.exc('TypeError', 'can only concatenate str')
                return FmtStr([a, b])
            if (isinstance(b, str) or (is_z3(b) and z3.is_string(b))):
                return z3.Concat(z3_of(a), z3_of(b))
            raise self.exc('TypeError', 'can only concatenate str (not "%s") to str' % type(b).__name__)
        if op is ast.Mult:
            if isinstance(a, str) and isinstance(b, int):
                return a * b
            if isinstance(a, str) and is_z3(b):
                return FmtStr([('*', a, b)])
            h = getattr(self.world, 'str_repeat_hook', None)
            if h is not None and (is_z3(b) and z3.is_int(b) or isinstance(b, int)) and not isinstance(b, bool):
                return h(self, a, b)
        raise Unsupported('string op %s' % op.__name__)

    def nd_binop(self, op, a, b):
        if isinstance(a, NDArr) and isinstance(b, NDArr):
            if a.shape != b.shape:
                return self.world.nd_broadcast(self, op, a, b)
            return NDArr(a.shape, [self.binop(op, x, y) for x, y in zip(a.items, b.items)])
        if isinstance(a, NDArr):
            return NDArr(a.shape, [self.binop(op, x, b) for x in a.items])
        return NDArr(b.shape, [self.binop(op, a, y) for y in b.items])

    # comparisons
    def e_Compare(self, node, env):
        left = self.eval(node.left, env)
        result = True
        for op, rn in zip(node.ops, node.comparators):
            right = self.eval(rn, env)
            r = self.compare(type(op), left, right)
            if len(node.ops) == 1:
                return r
            if not self.truth(r):
                return False
            left = right
        return result

    def compare(self, op, a, b):
        if op not in (ast.Is, ast.IsNot):
            a, b = unwrap(a), unwrap(b)
        if op is ast.Is:
            return self.identical(a, b)
        if op is ast.IsNot:
            r = self.identical(a, b)
            return (not r) if isinstance(r, bool) else z3.Not(r)
        if op is ast.In:
            return self.contains(b, a)
        if op is ast.NotIn:
            r = self.contains(b, a)
            return (not r) if isinstance(r, bool) else z3.Not(r)
        if isinstance(a, Obj) or isinstance(b, Obj):
            return self.obj_compare(op, a, b)
        if isinstance(a, NDArr) or isinstance(b, NDArr):
            if isinstance(a, NDArr) and isinstance(b, NDArr):
                if a.shape != b.shape:
                    raise Unsupported('compare arrays of different shape')
                return NDArr(a.shape, [self.compare(op, x, y) for x, y in zip(a.items, b.items)], 'bool')
            if isinstance(a, NDArr):
                return NDArr(a.shape, [self.compare(op, x, b) for x in a.items], 'bool')
            return NDArr(b.shape, [self.compare(op, a, y) for y in b.items], 'bool')
        if op is ast.Eq:
            return self.equal(a, b)
        if op is ast.NotEq:
            r = self.equal(a, b)
            return (not r) if isinstance(r, bool) else z3.Not(r)
        # ordering
        if a is None or b is None:
            raise self.exc('TypeError', "'<' not supported with NoneType")
        if not is_z3(a) and not is_z3(b):
            try:
                return _CMP[op](a, b)
            except TypeError as e:
                raise self.exc('TypeError', str(e))
        if (isinstance(a, str) or (is_z3(a) and z3.is_string(a))):
            x, y = z3_of(a), z3_of(b)
            if op is ast.Lt:
                return z3.StrLT(x, y) if hasattr(z3, 'StrLT') else x < y
            if op is ast.LtE:
                return x <= y
            if op is ast.Gt:
                return y < x
            return y <= x
        x, y = num_pair(a, b)
        return _CMP[op](x, y)

    def identical(self, a, b):
        if a is None or b is None:
            if a is None and b is None:
                return True
            other = b if a is None else a
            h = self.world.is_none_hook(self, other)
            if h is not None:
                return h
            return False
        if isinstance(a, Obj) and isinstance(b, Obj):
            return a is b
        if isinstance(a, bool) and isinstance(b, bool):
            return a == b
        if a is b:
            return True
        if isinstance(a, (ClassInfo,)) or isinstance(b, ClassInfo):
            return a is b
        if a is NotImplementedVal or b is NotImplementedVal:
            return a is b
        raise Unsupported('identity of %r and %r' % (a, b))

    def obj_compare(self, op, a, b):
        names = _CMPD[op]
        if isinstance(a, Obj):
            m = self.world.find_method(a.cls, names[0])
            if m is not None:
                r = self.call(BoundMethod(m, a), [b], {})
                if r is not NotImplementedVal:
                    return r
            elif op is ast.NotEq:
                m = self.world.find_method(a.cls, '__eq__')
                if m is not None:
                    r = self.call(BoundMethod(m, a), [b], {})
                    if r is not NotImplementedVal:
                        return not self.truth(r)
        if isinstance(b, Obj):
            m = self.world.find_method(b.cls, names[1])
            if m is not None:
                r = self.call(BoundMethod(m, b), [a], {})
                if r is not NotImplementedVal:
                    return r
            elif op is ast.NotEq:
                m = self.world.find_method(b.cls, '__eq__')
                if m is not None:
                    r = self.call(BoundMethod(m, b), [a], {})
                    if r is not NotImplementedVal:
                        return not self.truth(r)
        h = self.world.extern_compare(self, op, a, b)
        if h is not NotImplementedVal:
            return h
        if op is ast.Eq:
            return a is b
        if op is ast.NotEq:
            return a is not b
        raise self.exc('TypeError', 'ordering not supported between instances')

    def equal(self, a, b):
        """Python == on non-object values; returns bool or z3 Bool."""
        a, b = unwrap(a), unwrap(b)
        if isinstance(a, Obj) or isinstance(b, Obj):
            return self.obj_compare(ast.Eq, a, b)
        if a is None or b is None:
            if a is None and b is None:
                return True
            other = b if a is None else a
            h = self.world.is_none_hook(self, other)
            if h is not None:
                return h
            return False
        if isinstance(a, SetVal) and isinstance(b, SetVal):
            # set equality: mutual inclusion
            cs = []
            for x in a.items:
                cs.append(self.any_equal(b.items, x))
            for y in b.items:
                cs.append(self.any_equal(a.items, y))
            if any(c is False for c in cs):
                return False
            cs = [c for c in cs if c is not True]
            return z3.And(cs) if cs else True
        if isinstance(a, (tuple, list)) and isinstance(b, (tuple, list)):
            if type(a) is not type(b) or len(a) != len(b):
                return False
            cs = []
            for x, y in zip(a, b):
                c = self.equal(x, y)
                if c is False:
                    return False
                if c is not True:
                    cs.append(c)
            return z3.And(cs) if cs else True
        if isinstance(a, (tuple, list)) or isinstance(b, (tuple, list)):
            return False
        if not is_z3(a) and not is_z3(b):
            if isinstance(a, FmtStr) or isinstance(b, FmtStr):
                raise Unsupported('comparison of a formatted string')
            return a == b
        astr = isinstance(a, str) or (is_z3(a) and z3.is_string(a))
        bstr = isinstance(b, str) or (is_z3(b) and z3.is_string(b))
        if astr != bstr:
            return False
        if astr:
            return z3_of(a) == z3_of(b)
        if isinstance(a, (dict, SetVal)) or isinstance(b, (dict, SetVal)):
            return False
        x, y = num_pair(a, b)
        return x == y

    def contains(self, container, item):
        if isinstance(container, Obj):
            m = self.world.find_method(container.cls, '__contains__')
            if m is not None:
                return self.truth(self.call(BoundMethod(m, container), [item], {}))
            h = self.world.extern_contains(self, container, item)
            if h is not NotImplementedVal:
                return h
            if getattr(container.cls, 'node', None) is None and container.cls.name in getattr(self.world, 'abstract', {}):
                # an abstract stand-in for an external / symbolic container: the real object may well support `in`; no model = undecided, never an exception of the program
                raise Unsupported('membership test on an abstract %s object has no model' % container.cls.name)
            if self.world.find_method(container.cls, '__iter__') is not None or self.world.find_method(container.cls, '__getitem__') is not None:
                raise Unsupported('membership test through __iter__ / __getitem__ of %s' % container.cls.name)
            raise self.exc('TypeError', 'argument of type %s is not iterable' % container.cls.name)
        if isinstance(container, dict):
            return self.dict_has(container, item)
        if isinstance(container, (list, tuple)):
            return self.any_equal(container, item)
        if isinstance(container, SetVal):
            return self.any_equal(container.items, item)
        if isinstance(container, str):
            if isinstance(item, str):
                return item in container
            if is_z3(item) and z3.is_string(item):
                return z3.Contains(z3.StringVal(container), item)
            if item is None:
                raise self.exc('TypeError', "'in <string>' requires string as left operand, not NoneType")
            h = self.world._abs(item, 'in_str') if isinstance(item, Obj) else None
            if h is not None:
                return h(self, item, container)        # an abstract string (e.g. a token) tested against a literal
            raise self.exc('TypeError', "'in <string>' requires string as left operand")
        if is_z3(container) and z3.is_string(container):
            return z3.Contains(container, z3_of(item))
        if container is None:
            raise self.exc('TypeError', "argument of type 'NoneType' is not iterable")
        h = self.world.contains_hook(self, container, item)
        if h is not NotImplementedVal:
            return h
        raise Unsupported('contains on %r' % (container,))

    def any_equal(self, items, item):
        cs = []
        for x in items:
            c = self.equal(x, item)
            if not isinstance(c, bool) and not is_z3(c):
                c = self.truth(c)
            if c is True:
                return True
            if c is not False:
                cs.append(c)
        return z3.Or(cs) if cs else False

    # dict with possibly symbolic keys: python dict keyed by hashable(); symbolic keys kept as z3 terms
    def hashable(self, k):
        k = unwrap(k)
        if isinstance(k, list):
            raise self.exc('TypeError', 'unhashable type: list')
        if isinstance(k, Obj):
            h = self.world.hash_key(self, k)
            return h
        return k

    def dict_has(self, d, key):
        key = self.hashable(key)
        if not is_z3(key) and not any(is_z3(k) for k in d):
            return key in d
        cs = []
        for k in d:
            c = self.equal(k, key)
            if c is True:
                return True
            if c is not False:
                cs.append(c)
        return z3.Or(cs) if cs else False

    def dict_get(self, d, key, default=KeyError):
        key = self.hashable(key)
        if not is_z3(key) and not any(is_z3(k) for k in d):
            if key in d:
                return d[key]
        else:
            for k in list(d):
                c = self.equal(k, key)
                if c is True or (c is not False and self.ctx.branch(c)):
                    return d[k]
        if default is KeyError:
            raise self.exc('KeyError', key)
        return default

    def dict_set(self, d, key, val):
        key = self.hashable(key)
        if not is_z3(key) and not any(is_z3(k) for k in d):
            d[key] = val
            return
        for k in list(d):
            c = self.equal(k, key)
            if c is True or (c is not False and self.ctx.branch(c)):
                d[k] = val
                return
        d[key] = val

    # subscripts
    def e_Subscript(self, node, env):
        v = self.eval(node.value, env)
        if isinstance(node.slice, ast.Slice):
            lo = self.eval(node.slice.lower, env) if node.slice.lower is not None else None
            hi = self.eval(node.slice.upper, env) if node.slice.upper is not None else None
            st = self.eval(node.slice.step, env) if node.slice.step is not None else None
            return self.slice(v, lo, hi, st)
        idx = self.eval(node.slice, env)
        return self.index(v, idx)

    def index(self, v, idx):
        if isinstance(v, DefaultDict):
            key = self.hashable(idx)
            has = self.dict_has(v, key)
            if has is False or (has is not True and not self.truth(has)):
                val = self.call(v.factory, [], {}) if v.factory is not None else None
                if v.factory is None:
                    raise self.exc('KeyError', key)
                self.note_global_write(v)
                v[key] = val
                return val
            return self.dict_get(v, key)
        if isinstance(v, dict):
            return self.dict_get(v, idx)
        if isinstance(v, (list, tuple)):
            if isinstance(idx, bool):
                idx = int(idx)
            if isinstance(idx, int):
                try:
                    return v[idx]
                except IndexError:
                    raise self.exc('IndexError', 'index out of range')
            if is_z3(idx) and z3.is_int(idx):
                n = len(v)
                conds = [z3.Or(idx == i, idx == i - n) for i in range(n)]
                conds.append(z3.Or(idx >= n, idx < -n))
                k = self.ctx.choose(conds, 'index')
                if k == n:
                    raise self.exc('IndexError', 'index out of range')
                return v[k]
            raise self.exc('TypeError', 'indices must be integers')
        if isinstance(v, str):
            if isinstance(idx, int):
                try:
                    return v[idx]
                except IndexError:
                    raise self.exc('IndexError', 'string index out of range')
            v = z3.StringVal(v)
        if is_z3(v) and z3.is_string(v):
            i = z3_of(idx)
            n = z3.Length(v)
            if self.ctx.branch(z3.Or(i >= n, i < -n)):
                raise self.exc('IndexError', 'string index out of range')
            if self.ctx.branch(i >= 0):
                return z3.SubString(v, i, 1)
            return z3.SubString(v, n + i, 1)
        if isinstance(v, SymSeq):
            i = z3_of(idx)
            if self.ctx.branch(z3.Or(i >= v.length, i < -v.length)):
                raise self.exc('IndexError', 'index out of range')
            if self.ctx.branch(i >= 0):
                return v.at(i)
            return v.at(v.length + i)
        if isinstance(v, NDArr):
            return self.world.nd_index(self, v, idx)
        if isinstance(v, Obj):
            m = self.world.find_method(v.cls, '__getitem__')
            if m is not None:
                return self.call(BoundMethod(m, v), [idx], {})
            h = self.world.extern_index(self, v, idx)
            if h is not NotImplementedVal:
                return h
            raise self.exc('TypeError', '%s object is not subscriptable' % v.cls.name)
        if v is None:
            raise self.exc('TypeError', "'NoneType' object is not subscriptable")
        h = self.world.index_hook(self, v, idx)
        if h is not NotImplementedVal:
            return h
        raise Unsupported('subscript of %r' % (v,))

    def slice(self, v, lo, hi, st):
        if isinstance(v, (list, tuple, str)) and all(x is None or isinstance(x, int) for x in (lo, hi, st)):
            return v[lo:hi:st]
        if isinstance(v, str):
            v = z3.StringVal(v)
        if is_z3(v) and z3.is_string(v) and st is None:
            n = z3.Length(v)

            def norm(x, dflt):
                if x is None:
                    return dflt
                x = z3_of(x)
                x = z3.If(x < 0, z3.If(x + n < 0, z3.IntVal(0), x + n), z3.If(x > n, n, x))
                return x
            a = norm(lo, z3.IntVal(0))
            b = norm(hi, n)
            return z3.SubString(v, a, z3.If(b - a < 0, z3.IntVal(0), b - a))
        if isinstance(v, (list, tuple)) and st is None:
            n = len(v)
            # symbolic bounds over a concrete list: enumerate
            los = [lo] if not is_z3(lo) else None
            if los is None or is_z3(hi):
                raise Unsupported('symbolic slice bounds on a concrete list')
        h = self.world.slice_hook(self, v, lo, hi, st)
        if h is not NotImplementedVal:
            return h
        raise Unsupported('slice of %r' % (v,))

    # comprehensions
    def e_ListComp(self, node, env):
        first = self.eval(node.generators[0].iter, env)
        sv = first if isinstance(first, SymSeq) else self.world.as_symseq(self, first)
        if sv is not None:
            if len(node.generators) != 1:
                raise Unsupported('nested comprehension over a symbolic sequence')
            return self.world.comp_hook(self, node, sv, env)
        return list(self.comp_iter(node, node.elt, env, first))

    def e_SetComp(self, node, env):
        return self.make_set(list(self.comp_iter(node, node.elt, env)))

    def e_GeneratorExp(self, node, env):
        return GenVal(node, env)

    def e_DictComp(self, node, env):
        d = {}
        for k, v in self.comp_iter(node, (node.key, node.value), env):
            self.dict_set(d, k, v)
        return d

    def comp_iter(self, node, elt, env, first=None):
        sub = Env(dict(), env.func, env, env.module, set())

        def rec(i):
            if i == len(node.generators):
                if isinstance(elt, tuple):
                    yield (self.eval(elt[0], sub), self.eval(elt[1], sub))
                else:
                    yield self.eval(elt, sub)
                return
            g = node.generators[i]
            if i == 0 and first is not None:
                it = first
            else:
                it = self.eval(g.iter, sub if i else env)
            for x in self.iterate(it):
                self.assign(g.target, x, sub)
                if all(self.truth(self.eval(c, sub)) for c in g.ifs):
                    for y in rec(i + 1):
                        yield y
        return rec(0)

    def make_set(self, items):
        out = []
        for x in items:
            c = self.any_equal(out, self.hashable(x) if not isinstance(x, Obj) else x)
            if c is True:
                continue
            if c is not False and self.ctx.branch(c):
                continue
            out.append(x)
        return SetVal(out)

    def iterate(self, v):
        """Python-level iteration yielding interpreter values."""
        if isinstance(v, (list, tuple)):
            return iter(list(v))
        if isinstance(v, str):
            return iter(v)
        if isinstance(v, dict):
            return iter(list(v.keys()))
        if isinstance(v, range):
            return iter(v)
        if isinstance(v, GenVal):
            return self.comp_iter(v.node, v.node.elt, v.env)
        if isinstance(v, SetVal):
            return self.permute(v.items)
        if isinstance(v, NDArr):
            return self.world.nd_iter(self, v)
        if isinstance(v, SymSeq):
            raise Unsupported('iteration over a sequence of symbolic length (%s) needs a loop/fold contract' % v.name)
        if hasattr(v, '__next__'):
            return v
        h = self.world.iter_hook(self, v)
        if h is not NotImplementedVal:
            return h
        if v is None:
            raise self.exc('TypeError', "'NoneType' object is not iterable")
        if isinstance(v, Obj):
            m = self.world.find_method(v.cls, '__iter__')
            if m is not None:
                return self.iterate(self.call(BoundMethod(m, v), [], {}))
            from .source import BuiltinClass as _BC
            if isinstance(v.cls, _BC):
                # an ABSTRACT object (RDKit molecule, finite map, ...) without an iteration model: the real object may well be iterable -- undecided, never an
                # artefact TypeError
                raise Unsupported('iteration over an abstract %s object has no model' % v.cls.name)
            raise self.exc('TypeError', '%s object is not iterable' % v.cls.name)
        raise Unsupported('iteration over %r' % (v,))

    def permute(self, items):
        """Arbitrary iteration order: each next element is a fork over the remaining ones."""
        remaining = list(items)

        def gen():
            while remaining:
                if len(remaining) == 1:
                    yield remaining.pop()
                    continue
                k = self.ctx.choose([True] * len(remaining), 'set-order')
                yield remaining.pop(k)
        return gen()

    def e_Call(self, node, env):
        f = self.eval(node.func, env)
        args = []
        for a in node.args:
            if isinstance(a, ast.Starred):
                sv = self.eval(a.value, env)
                if isinstance(sv, SymSeq):
                    args.append(StarSeq(sv))
                else:
                    args.extend(self.iterate(sv))
            else:
                args.append(self.eval(a, env))
        kwargs = {}
        for k in node.keywords:
            if k.arg is None:
                kwargs.update(self.eval(k.value, env))
            else:
                kwargs[k.arg] = self.eval(k.value, env)
        return self.call(f, args, kwargs)

    # ---- statements -----------------------------------------------------------------------
    def exec_block(self, stmts, env):
        for s in stmts:
            self.exec(s, env)

    def exec(self, node, env):
        m = getattr(self, 's_' + type(node).__name__, None)
        if m is None:
            raise Unsupported('statement %s at line %s' % (type(node).__name__, node.lineno))
        return m(node, env)

    def s_Expr(self, node, env):
        if isinstance(node.value, ast.Constant):
            return
        self.eval(node.value, env)

    def s_Pass(self, node, env):
        pass

    def s_Global(self, node, env):
        for n in node.names:
            env.localnames.discard(n)
        env.local.setdefault('__globals__', set()).update(node.names)

    def s_Return(self, node, env):
        raise _Return(self.eval(node.value, env) if node.value is not None else None)

    def s_Break(self, node, env):
        raise _Break()

    def s_Continue(self, node, env):
        raise _Continue()

    def s_Assign(self, node, env):
        v = self.eval(node.value, env)
        for t in node.targets:
            self.assign(t, v, env)

    def s_AnnAssign(self, node, env):
        if node.value is not None:
            self.assign(node.target, self.eval(node.value, env), env)

    def assign(self, target, v, env):
        if isinstance(target, ast.Name):
            if target.id in env.local.get('__globals__', ()):
                self.world.set_module_global(self, env.module, target.id, v)
            else:
                env.local[target.id] = v
        elif isinstance(target, (ast.Tuple, ast.List)):
            items = list(self.iterate(v))
            if len(items) != len(target.elts):
                raise self.exc('ValueError', 'wrong number of values to unpack')
            for t, x in zip(target.elts, items):
                self.assign(t, x, env)
        elif isinstance(target, ast.Attribute):
            self.setattr(self.eval(target.value, env), target.attr, v)
        elif isinstance(target, ast.Subscript):
            c = self.eval(target.value, env)
            if isinstance(target.slice, ast.Slice):
                sl = target.slice
                lo = self.eval(sl.lower, env) if sl.lower is not None else None
                hi = self.eval(sl.upper, env) if sl.upper is not None else None
                if sl.step is not None or not isinstance(c, list) or not all(x is None or isinstance(x, int) for x in (lo, hi)):
                    raise Unsupported('slice assignment other than list[a:b] = ... with concrete bounds')
                self.note_global_write(c)
                c[lo:hi] = list(self.iterate(v))
                return
            idx = self.eval(target.slice, env)
            self.setitem(c, idx, v)
        else:
            raise Unsupported('assignment target %s' % type(target).__name__)

    def note_global_write(self, c):
        nm = self.global_ids.get(id(c))
        if nm is not None:
            self.ctx.effect('write-global', nm)

    def setitem(self, c, idx, v):
        if isinstance(c, (dict, list)):
            self.note_global_write(c)
        if isinstance(c, dict):
            self.dict_set(c, idx, v)
            return
        if isinstance(c, list):
            if isinstance(idx, int):
                try:
                    c[idx] = v
                except IndexError:
                    raise self.exc('IndexError', 'list assignment index out of range')
                return
            if is_z3(idx):
                n = len(c)
                conds = [idx == i for i in range(n)] + [z3.Or(idx >= n, idx < 0)]
                k = self.ctx.choose(conds, 'setitem')
                if k == n:
                    raise self.exc('IndexError', 'list assignment index out of range')
                c[k] = v
                return
        if isinstance(c, NDArr):
            return self.world.nd_setitem(self, c, idx, v)
        if isinstance(c, Obj):
            m = self.world.find_method(c.cls, '__setitem__')
            if m is not None:
                return self.call(BoundMethod(m, c), [idx, v], {})
        h = self.world.setitem_hook(self, c, idx, v)
        if h is not NotImplementedVal:
            return
        raise Unsupported('item assignment on %r' % (c,))

    def s_AugAssign(self, node, env):
        t = node.target
        if isinstance(t, ast.Name):
            cur = self.lookup(t.id, env)
            new = self.augop(type(node.op), cur, self.eval(node.value, env))
            self.assign(t, new, env)
        elif isinstance(t, ast.Attribute):
            o = self.eval(t.value, env)
            cur = self.getattr(o, t.attr)
            new = self.augop(type(node.op), cur, self.eval(node.value, env))
            self.setattr(o, t.attr, new)
        elif isinstance(t, ast.Subscript):
            c = self.eval(t.value, env)
            idx = self.eval(t.slice, env)
            cur = self.index(c, idx)
            new = self.augop(type(node.op), cur, self.eval(node.value, env))
            self.setitem(c, idx, new)
        else:
            raise Unsupported('augassign target')

    def augop(self, op, cur, v):
        if isinstance(cur, list) and op is ast.Add and not (isinstance(v, Obj) and self.world._abs(v, 'binop') is not None):
            self.world.note_mutation(self, cur)
            cur.extend(self.iterate(v))
            return cur
        if isinstance(cur, SetVal) and op is ast.BitOr:
            return self.make_set(cur.items + list(v.items))
        return self.binop(op, cur, v)

    def s_Delete(self, node, env):
        for t in node.targets:
            if isinstance(t, ast.Attribute):
                o = self.eval(t.value, env)
                if isinstance(o, Obj) and t.attr in o.fields:
                    if o.origin != 'fresh':
                        self.ctx.effect('write', o.oid, o.cls.name, t.attr)
                    del o.fields[t.attr]
                else:
                    raise self.exc('AttributeError', t.attr)
            elif isinstance(t, ast.Subscript):
                c = self.eval(t.value, env)
                idx = self.eval(t.slice, env)
                if isinstance(c, dict):
                    idx = self.hashable(idx)
                    if not is_z3(idx) and not any(is_z3(k) for k in c):
                        if idx in c:
                            del c[idx]
                        else:
                            raise self.exc('KeyError', idx)
                    else:
                        raise Unsupported('del of symbolic key')
                elif isinstance(c, list) and isinstance(idx, int):
                    try:
                        del c[idx]
                    except IndexError:
                        raise self.exc('IndexError', 'list assignment index out of range')
                else:
                    h = self.world.delitem_hook(self, c, idx)
                    if h is NotImplementedVal:
                        raise Unsupported('del item')
            elif isinstance(t, ast.Name):
                if t.id in env.local:
                    del env.local[t.id]
                else:
                    raise self.exc('UnboundLocalError', t.id)
            else:
                raise Unsupported('del target')

    def s_If(self, node, env):
        if self.truth(self.eval(node.test, env)):
            self.exec_block(node.body, env)
        else:
            self.exec_block(node.orelse, env)

    def s_Assert(self, node, env):
        if not self.truth(self.eval(node.test, env)):
            raise self.exc('AssertionError')

    def s_Raise(self, node, env):
        if node.exc is None:
            if self.exc_stack:
                raise PyExc(self.exc_stack[-1])
            raise self.exc('RuntimeError', 'No active exception to reraise')
        v = self.eval(node.exc, env)
        if isinstance(v, ClassInfo):
            v = self.instantiate(v, [], {})
        if not isinstance(v, Obj) or not self.world.is_exception(v.cls):
            raise self.exc('TypeError', 'exceptions must derive from BaseException')
        raise PyExc(v)

    def s_Try(self, node, env):
        try:
            try:
                self.exec_block(node.body, env)
            except PyExc as e:
                handled = False
                for h in node.handlers:
                    if h.type is None:
                        match = True
                    else:
                        t = self.eval(h.type, env)
                        ts = t if isinstance(t, tuple) else (t,)
                        match = any(self.world.issubclass(e.obj.cls, c) for c in ts)
                    if match:
                        handled = True
                        if h.name:
                            env.local[h.name] = e.obj
                        self.exc_stack.append(e.obj)
                        try:
                            self.exec_block(h.body, env)
                        finally:
                            self.exc_stack.pop()
                            if h.name:
                                env.local.pop(h.name, None)
                        break
                if not handled:
                    raise
            else:
                self.exec_block(node.orelse, env)
        except (PyExc, _Return, _Break, _Continue):
            # python runs the finally block and then re-raises unless it raises/returns itself
            self.exec_block(node.finalbody, env)
            raise
        else:
            self.exec_block(node.finalbody, env)

    def s_With(self, node, env):
        if len(node.items) != 1:
            raise Unsupported('with: multiple items')
        item = node.items[0]
        mgr = self.eval(item.context_expr, env)
        h = self.world.with_hook(self, mgr)
        if h is not NotImplementedVal:
            enter, exit_ = h
        else:
            if not isinstance(mgr, Obj):
                raise Unsupported('with on %r' % (mgr,))
            me = self.world.find_method(mgr.cls, '__enter__')
            mx = self.world.find_method(mgr.cls, '__exit__')
            if me is None or mx is None:
                raise self.exc('AttributeError', '__enter__')
            enter = lambda: self.call(BoundMethod(me, mgr), [], {})
            exit_ = lambda t, v, tb: self.call(BoundMethod(mx, mgr), [t, v, tb], {})
        val = enter()
        if item.optional_vars is not None:
            self.assign(item.optional_vars, val, env)
        try:
            self.exec_block(node.body, env)
        except PyExc as e:
            self.exc_stack.append(e.obj)
            try:
                r = exit_(e.obj.cls, e.obj, None)
            finally:
                self.exc_stack.pop()
            if not self.truth(r):
                raise
        except (_Return, _Break, _Continue):
            exit_(None, None, None)
            raise
        else:
            exit_(None, None, None)

    def s_For(self, node, env):
        it = self.eval(node.iter, env)
        sv = self.world.as_symseq(self, it)
        if sv is not None:
            it = sv
        elif is_z3(it) and z3.is_string(it):
            s_ = it
            it = SymSeq(z3.Length(s_), lambda i: z3.SubString(s_, i, 1), 'chars')
        h = self.world.loop_hook(self, node, it, env)
        if h is not NotImplementedVal:
            return
        broke = False
        for x in self.iterate(it):
            self.assign(node.target, x, env)
            try:
                self.exec_block(node.body, env)
            except _Break:
                broke = True
                break
            except _Continue:
                continue
        if not broke:
            self.exec_block(node.orelse, env)

    def s_While(self, node, env):
        h = self.world.while_hook(self, node, env)
        if h is not NotImplementedVal:
            return
        n = 0
        broke = False
        while self.truth(self.eval(node.test, env)):
            n += 1
            if n > self.world.max_unroll:
                raise Unsupported('while loop at line %d exceeds unroll bound without invariant' % node.lineno)
            try:
                self.exec_block(node.body, env)
            except _Break:
                broke = True
                break
            except _Continue:
                continue
        if not broke:
            self.exec_block(node.orelse, env)

    def s_FunctionDef(self, node, env):
        env.local[node.name] = Func(node, env.module, None, env, node.name)

    def s_Import(self, node, env):
        # function-level import: bind the local names the way the module-level table does (resolve_import: repo module or extern model)
        for a in node.names:
            if a.asname is None and '.' in a.name:
                raise Unsupported('function-level import of a dotted module without "as"')
            env.local[a.asname or a.name] = self.world.resolve_import(self, env.module, ('module', a.name, 0))

    def s_ImportFrom(self, node, env):
        for a in node.names:
            if a.name == '*':
                raise Unsupported('star import inside function')
            env.local[a.asname or a.name] = self.world.resolve_import(self, env.module, ('from', node.module or '', a.name, node.level))
