"""Loop and fold proof rules over sequences of symbolic length.

for-loop rule (inductive invariant supplied by the contract):
  entry VC:        the actual state at loop entry matches the invariant at index 0
  preservation VC: from the invariant at an arbitrary index j (0 <= j < n) one execution of the *real* loop body
                   reaches a state matching the invariant at j+1        (path ends there)
  exit:            after the loop the state is the invariant at index n

fold rule for sum(<generator over seq>): the element expression is evaluated by the real code at an arbitrary
index k; the result r stands for start + SUM_{i<n} [cond(i)] e(i).  Congruence: to prove r == SUM spec(i) it
suffices that e(k) == spec(k) for arbitrary k (the induction behind this rule is discharged once as lemma
`fold-congruence`, see lemma_fold_congruence)."""
import ast

import z3

from .engine import (SymSeq, PathDone, Unsupported, _Break, _Continue, NotImplementedVal, GenVal, Env, Obj, Havoc, SetVal, is_z3, z3_of)
from .source import BuiltinClass

FilterSeqCls = BuiltinClass('FilterSeq')


MUTATORS = {'append', 'extend', 'insert', 'remove', 'pop', 'clear', 'sort', 'reverse', 'add', 'discard', 'update', 'setdefault', 'popitem',
            'difference_update', 'intersection_update', 'symmetric_difference_update', 'appendleft', 'popleft'}


def carried(stmts, extra_targets=()):
    """(names assigned, names whose container is mutated) anywhere in the statements -- nested function bodies and comprehension
    targets (own scopes) excluded"""
    assigned, mutated = set(), set()

    def root(e):
        while isinstance(e, (ast.Subscript, ast.Attribute)):
            e = e.value
        return e.id if isinstance(e, ast.Name) else None

    def visit(n):
        if isinstance(n, (ast.FunctionDef, ast.AsyncFunctionDef, ast.Lambda, ast.ClassDef)):
            if not isinstance(n, ast.Lambda):
                assigned.add(n.name)
            return
        if isinstance(n, (ast.ListComp, ast.SetComp, ast.DictComp, ast.GeneratorExp)):
            for g in n.generators:
                visit(g.iter)
            return
        if isinstance(n, ast.Name) and isinstance(n.ctx, (ast.Store, ast.Del)):
            assigned.add(n.id)
        if isinstance(n, ast.Subscript) and isinstance(n.ctx, (ast.Store, ast.Del)):
            r = root(n)
            if r:
                mutated.add(r)
        if isinstance(n, ast.AugAssign) and isinstance(n.target, ast.Subscript):
            r = root(n.target)
            if r:
                mutated.add(r)
        if isinstance(n, ast.Call) and isinstance(n.func, ast.Attribute) and n.func.attr in MUTATORS and isinstance(n.func.value, ast.Name):
            mutated.add(n.func.value.id)
        if isinstance(n, ast.ExceptHandler) and n.name:
            assigned.add(n.name)
        for c in ast.iter_child_nodes(n):
            visit(c)
    for st in stmts:
        visit(st)
    for t in extra_targets:
        visit(t)
    return assigned, mutated


def _described_state(I, env, loopname, assigned, mutated, fn):
    """Before the contract's state function runs, every loop-carried name (assigned in the body, or a concrete container the body
    mutates) is bound to Havoc; the state function re-binds the ones the invariant describes.  What is still Havoc afterwards
    cannot be read (Unsupported -> undecided), so a stale pre-loop value is never used at an arbitrary iteration."""
    missing = object()
    for nm in assigned | mutated:
        cur = env.local.get(nm, missing)
        if nm in assigned or isinstance(cur, (list, dict, set, SetVal)) or type(cur).__name__ == 'DefaultDict':
            env.local[nm] = Havoc(nm, loopname)
    fn()
    for nm in assigned:
        if nm not in env.local:               # popped by the contract ("not meaningful here")
            env.local[nm] = Havoc(nm, loopname)


def for_rule(name, state_at, check_inv):
    def handler(I, node, it, env):
        if not isinstance(it, SymSeq):
            return NotImplementedVal
        ctx = I.ctx
        n = it.length
        assigned, mutated = carried(node.body, [node.target])
        for label, f in check_inv(I, z3.IntVal(0), env, it):
            ctx.oblige('loop[%s]-invariant-holds-on-entry: %s' % (name, label), f)
        which = ctx.choose([True, True], 'loop')
        if which == 0:
            j = ctx.fresh('j_' + name, 'int')
            ctx.assume(z3.And(0 <= j, j < n))
            _described_state(I, env, name, assigned, mutated, lambda: state_at(I, j, env, it))
            I.assign(node.target, it.at(j), env)
            try:
                I.exec_block(node.body, env)
            except _Continue:
                pass
            except _Break:
                # leaving the loop early from an arbitrary iteration whose entry state satisfies the invariant:
                # execution simply continues after the loop (the else-clause is skipped)
                ctx.effect('loop-break', name)
                return None
            for label, f in check_inv(I, j + 1, env, it):
                ctx.oblige('loop[%s]-invariant-preserved: %s' % (name, label), f)
            raise PathDone()
        _described_state(I, env, name, assigned, mutated, lambda: state_at(I, n, env, it))
        I.exec_block(node.orelse, env)
        return None
    return handler


def fold_hook(I, kind, it, start):
    """sum(...) over a sequence of symbolic length or a generator over one."""
    ctx = I.ctx
    if kind != 'sum':
        raise Unsupported('fold %s' % kind)
    if isinstance(it, SymSeq):
        seq, gen = it, None
    else:
        gen = it
        if len(gen.node.generators) != 1:
            raise Unsupported('fold over nested generators')
        seq = I.eval(gen.node.generators[0].iter, gen.env)
    n = seq.length
    if ctx.branch(n == 0):
        return start
    k = ctx.fresh('fold_k', 'int')
    ctx.assume(z3.And(0 <= k, k < n))
    n_eff = len(ctx.effects)
    cond = True
    if gen is None:
        e = seq.at(k)
    else:
        sub = Env(dict(), gen.env.func, gen.env, gen.env.module, set())
        g = gen.node.generators[0]
        I.assign(g.target, seq.at(k), sub)
        conds = []
        for c in g.ifs:
            conds.append(I.truth(I.eval(c, sub)))
        cond = all(conds)
        e = I.eval(gen.node.elt, sub) if cond else 0
    writes = [x for x in ctx.effects[n_eff:] if x[0].startswith('write')]
    if writes:
        raise Unsupported('fold element has side effects on shared state: %r' % (writes,))
    r = ctx.fresh('fold_sum', 'real')
    ctx.ghost.setdefault('folds', []).append({'result': r, 'n': n, 'k': k, 'elem': e, 'included': cond, 'start': start})
    return r


def lemma_fold_congruence(I):
    """Induction behind the fold rule: S(f,0)=0, S(f,i+1)=S(f,i)+f(i); if f(i)=g(i) for all i<n then S(f,n)=S(g,n).
    Base and step are discharged separately (the step for an arbitrary i with the induction hypothesis)."""
    ctx = I.ctx
    Sf = ctx.fresh_fn('Sf', z3.IntSort(), z3.RealSort())
    Sg = ctx.fresh_fn('Sg', z3.IntSort(), z3.RealSort())
    f = ctx.fresh_fn('f', z3.IntSort(), z3.RealSort())
    g = ctx.fresh_fn('g', z3.IntSort(), z3.RealSort())
    i = ctx.fresh('i', 'int')
    ctx.assume(Sf(0) == 0)
    ctx.assume(Sg(0) == 0)
    ctx.oblige('fold-congruence base', Sf(0) == Sg(0))
    ctx.assume(i >= 0)
    ctx.assume(Sf(i + 1) == Sf(i) + f(i))
    ctx.assume(Sg(i + 1) == Sg(i) + g(i))
    ctx.assume(f(i) == g(i))
    ctx.assume(Sf(i) == Sg(i))      # induction hypothesis
    ctx.oblige('fold-congruence step', Sf(i + 1) == Sg(i + 1))
    return {'inputs': {}}


def comp_filter(I, node, seq, env):
    """[elt for x in seq if cond] over a sequence of symbolic length: an abstract filtered list
    (source, included(i), elt(i)).  The condition must evaluate to a closed boolean formula."""
    g = node.generators[0]

    def at(idx, want_elt=True):
        # want_elt=False: only the inclusion condition (the emptiness test quantifies over ALL indices; evaluating the element expression at an index that is
        # not known to lie inside the sequence would report its exceptions - an out-of-range subscript - as if the program could raise them)
        sub = Env(dict(), env.func, env, env.module, set())
        I.assign(g.target, seq.at(idx), sub)
        conds = []
        for c in g.ifs:
            v = I.eval(c, sub)
            if isinstance(v, bool):
                conds.append(z3.BoolVal(v))
            elif is_z3(v) and z3.is_bool(v):
                conds.append(v)
            else:
                raise Unsupported('comprehension condition over a symbolic sequence is not a closed boolean formula')
        elt = I.eval(node.elt, sub) if want_elt else None
        return (z3.And(conds) if conds else z3.BoolVal(True)), elt
    return Obj(FilterSeqCls, {'n': seq.length, 'at': at, 'source': seq, 'witness': None})


def filterseq_truth(I, o):
    """non-empty  <=>  some index is included"""
    ctx = I.ctx
    n = o.fields['n']
    if ctx.choose([True, True], 'filter-nonempty') == 0:
        w = ctx.fresh('witness', 'int')
        ctx.assume(z3.And(0 <= w, w < n))
        inc, _ = o.fields['at'](w, False)
        ctx.assume(inc)
        o.fields['witness'] = w
        return True
    i = z3.Int('i!f%d' % o.oid)
    inc, _ = o.fields['at'](i, False)
    ctx.assume_forall([i], z3.Implies(z3.And(0 <= i, i < n), z3.Not(inc)), 'filtered list empty')
    o.fields['witness'] = False
    return False


def while_rule(name, state_at, check_inv, variant=None, allow_break=False):
    """while-loop rule with an inductive invariant and (optionally) a termination variant.
    state_at(I, env, tag) havocs the loop-carried state and assumes the invariant;
    check_inv(I, env) -> [(label, formula)] evaluated on the actual state;
    variant(I, env) -> Int term that must be >= 0 whenever the loop condition holds and strictly decrease per iteration."""
    def handler(I, node, env):
        ctx = I.ctx
        assigned, mutated = carried(node.body)
        for label, f in check_inv(I, env):
            ctx.oblige('while[%s]-invariant-holds-on-entry: %s' % (name, label), f)
        which = ctx.choose([True, True], 'while')
        if which == 0:
            _described_state(I, env, name, assigned, mutated, lambda: state_at(I, env, 'it'))
            if not I.truth(I.eval(node.test, env)):
                raise_abort()
            v0 = variant(I, env) if variant is not None else None
            if v0 is not None:
                ctx.oblige('while[%s]-variant-bounded-below (the loop cannot run forever)' % name, v0 >= 0)
            try:
                I.exec_block(node.body, env)
            except _Continue:
                pass
            except _Break:
                if not allow_break:
                    raise Unsupported('break inside a while loop verified by invariant')
                # leaving the loop from an arbitrary iteration whose entry state satisfies the invariant: execution continues after
                # the loop (the else-clause is skipped); this iteration needs no variant decrease
                ctx.effect('loop-break', name)
                return None
            for label, f in check_inv(I, env):
                ctx.oblige('while[%s]-invariant-preserved: %s' % (name, label), f)
            if v0 is not None:
                ctx.oblige('while[%s]-variant-decreases' % name, variant(I, env) < v0)
            raise PathDone()
        _described_state(I, env, name, assigned, mutated, lambda: state_at(I, env, 'exit'))
        if I.truth(I.eval(node.test, env)):
            raise_abort()
        I.exec_block(node.orelse, env)
        return None
    return handler


def raise_abort():
    from .engine import PathAbort
    raise PathAbort()
